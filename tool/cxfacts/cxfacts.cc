// cxfacts: LibTooling fact extractor for the c-ares static checks (/verif).
//
// One JSON document per translation unit on stdout (the driver redirects each
// unit to its own file).  Emits: records, enums, typedefs, globals with
// initialisers, macros defined under the repository, function prototypes, and
// for every function body a clang::CFG (setAllAlwaysAdd) whose elements are
// normalised to call / asg / decl / ret events carrying expression trees.
//
// Nothing here decides a property; it is the type-resolved view of /repo the
// Python analyses work on.
#include "clang/AST/ASTConsumer.h"
#include "clang/AST/RecursiveASTVisitor.h"
#include "clang/AST/ParentMapContext.h"
#include "clang/Analysis/CFG.h"
#include "clang/Frontend/CompilerInstance.h"
#include "clang/Frontend/FrontendAction.h"
#include "clang/Lex/Lexer.h"
#include "clang/Lex/PPCallbacks.h"
#include "clang/Lex/Preprocessor.h"
#include "clang/Tooling/CommonOptionsParser.h"
#include "clang/Tooling/Tooling.h"
#include "llvm/Support/CommandLine.h"
#include "llvm/Support/JSON.h"
#include <map>
#include <set>

using namespace clang;
using namespace clang::tooling;
using llvm::json::Array;
using llvm::json::Object;
using llvm::json::Value;

static llvm::cl::OptionCategory Cat("cxfacts");
static llvm::cl::opt<std::string> RepoRoot("root", llvm::cl::desc("repository root (only decls under it are emitted)"),
                                           llvm::cl::init("/repo"), llvm::cl::cat(Cat));

static Array *gMacros = nullptr;

namespace {

std::string squeeze(const std::string &s, size_t maxlen = 200) {
  std::string o;
  bool sp = false;
  for (char c : s) {
    if (c == '\n' || c == '\t' || c == ' ' || c == '\\') {
      if (!sp) o += ' ';
      sp = true;
    } else {
      o += c;
      sp = false;
    }
  }
  if (o.size() > maxlen) o = o.substr(0, maxlen);
  return o;
}

struct Emitter {
  ASTContext &C;
  SourceManager &SM;
  const LangOptions &LO;
  std::map<const CallExpr *, int> callIds;
  std::map<const VarDecl *, int> varIds;
  Array varTable;
  const CallExpr *curCall = nullptr;

  Emitter(ASTContext &C) : C(C), SM(C.getSourceManager()), LO(C.getLangOpts()) {}

  std::string ty(QualType T) { return T.isNull() ? "" : T.getCanonicalType().getAsString(); }
  std::string tyw(QualType T) { return T.isNull() ? "" : T.getAsString(); }

  std::string fileOf(SourceLocation L) {
    L = SM.getExpansionLoc(L);
    return SM.getFilename(L).str();
  }
  int64_t lineOf(SourceLocation L) { return (int64_t)SM.getExpansionLineNumber(SM.getExpansionLoc(L)); }
  int64_t colOf(SourceLocation L) { return (int64_t)SM.getExpansionColumnNumber(SM.getExpansionLoc(L)); }

  bool inRepo(SourceLocation L) {
    std::string f = fileOf(L);
    return f.compare(0, RepoRoot.size(), RepoRoot) == 0 || (!f.empty() && f[0] != '/');
  }

  std::string srcText(const Stmt *S, size_t maxlen = 200) {
    if (!S) return "";
    auto R = CharSourceRange::getTokenRange(SM.getExpansionRange(S->getSourceRange()).getAsRange());
    return squeeze(Lexer::getSourceText(R, SM, LO).str(), maxlen);
  }

  // macro names through which an expression is spelled in its entirety
  void macroInfo(const Expr *E, Object &o) {
    SourceLocation B = E->getBeginLoc(), En = E->getEndLoc();
    if (!B.isMacroID() || !En.isMacroID()) return;
    Array names;
    SourceLocation b = B, e = En;
    int guard = 0;
    while (b.isMacroID() && e.isMacroID() && guard++ < 8) {
      StringRef nm = Lexer::getImmediateMacroName(b, SM, LO);
      if (nm.empty()) break;
      // immediate-level start/end test: the spelling locs must be first/last token of the macro body
      bool whole = false;
      {
        FileID fb = SM.getFileID(b), fe = SM.getFileID(e);
        if (fb == fe) {
          const SrcMgr::SLocEntry &Ent = SM.getSLocEntry(fb);
          if (Ent.isExpansion()) {
            const SrcMgr::ExpansionInfo &EI = Ent.getExpansion();
            if (!EI.isMacroArgExpansion()) {
              SourceLocation fs = SM.getLocForStartOfFile(fb);
              unsigned len = SM.getFileIDSize(fb);
              unsigned ob = SM.getFileOffset(b), oe = SM.getFileOffset(e);
              unsigned tl = Lexer::MeasureTokenLength(SM.getSpellingLoc(e), SM, LO);
              (void)fs;
              whole = (ob == 0) && (oe + tl == len);
            }
          }
        }
      }
      if (!whole) break;
      names.push_back(nm.str());
      b = SM.getImmediateExpansionRange(b).getBegin();
      e = SM.getImmediateExpansionRange(e).getEnd();
    }
    if (!names.empty()) o["mac"] = std::move(names);
  }

  int varId(const VarDecl *V) {
    auto it = varIds.find(V);
    if (it != varIds.end()) return it->second;
    int id = (int)varIds.size();
    varIds[V] = id;
    Object vo;
    vo["id"] = id;
    vo["n"] = V->getNameAsString();
    vo["ty"] = ty(V->getType());
    vo["tyw"] = tyw(V->getType());
    vo["kind"] = isa<ParmVarDecl>(V) ? "param" : (V->isStaticLocal() ? "static" : "local");
    vo["ln"] = lineOf(V->getLocation());
    varTable.push_back(std::move(vo));
    return id;
  }

  std::string recOf(QualType T) {
    T = T.getCanonicalType();
    if (T->isPointerType()) T = T->getPointeeType().getCanonicalType();
    if (auto *RT = T->getAs<RecordType>()) {
      std::string n = RT->getDecl()->getNameAsString();
      if (n.empty()) {
        if (auto *TD = RT->getDecl()->getTypedefNameForAnonDecl()) n = TD->getNameAsString();
        else n = "anon@" + std::to_string(lineOf(RT->getDecl()->getLocation()));
      }
      return n;
    }
    return "";
  }

  Value expr(const Expr *E, int depth = 0) {
    if (!E) return nullptr;
    Object o;
    // strip parens / implicit casts, remembering macro provenance of outer layers
    const Expr *S = E;
    while (true) {
      if (!o.get("mac")) macroInfo(S, o);
      if (auto *P = dyn_cast<ParenExpr>(S)) { S = P->getSubExpr(); continue; }
      if (auto *I = dyn_cast<ImplicitCastExpr>(S)) { S = I->getSubExpr(); continue; }
      if (auto *F = dyn_cast<FullExpr>(S)) { S = F->getSubExpr(); continue; }
      break;
    }
    if (depth > 60) { o["k"] = "other"; o["cls"] = "TooDeep"; return std::move(o); }
    // constant value
    if (!S->isValueDependent() && S->getType()->isIntegralOrEnumerationType()) {
      Expr::EvalResult ER;
      if (S->EvaluateAsInt(ER, C, Expr::SE_NoSideEffects)) {
        llvm::APSInt v = ER.Val.getInt();
        if (v.isSigned()) o["v"] = (int64_t)v.getExtValue();
        else if (v.getActiveBits() <= 63) o["v"] = (int64_t)v.getZExtValue();
        else o["vs"] = toString(v, 10);
      }
    }
    o["ty"] = ty(S->getType());
    if (auto *D = dyn_cast<DeclRefExpr>(S)) {
      const ValueDecl *VD = D->getDecl();
      if (auto *EC = dyn_cast<EnumConstantDecl>(VD)) {
        o["k"] = "enum";
        o["n"] = EC->getNameAsString();
        if (auto *ED = dyn_cast<EnumDecl>(EC->getDeclContext())) {
          std::string en = ED->getNameAsString();
          if (en.empty()) if (auto *TD = ED->getTypedefNameForAnonDecl()) en = TD->getNameAsString();
          o["et"] = en;
        }
      } else if (auto *FD = dyn_cast<FunctionDecl>(VD)) {
        o["k"] = "fn";
        o["n"] = FD->getNameAsString();
        if (FD->getStorageClass() == SC_Static) o["static"] = true;
      } else if (auto *V = dyn_cast<VarDecl>(VD)) {
        o["k"] = "var";
        o["n"] = V->getNameAsString();
        if (V->isLocalVarDeclOrParm()) {
          o["id"] = varId(V);
          o["vk"] = isa<ParmVarDecl>(V) ? "param" : (V->isStaticLocal() ? "static" : "local");
        } else {
          o["vk"] = "global";
        }
      } else {
        o["k"] = "other"; o["cls"] = "DeclRef";
      }
    } else if (auto *M = dyn_cast<MemberExpr>(S)) {
      o["k"] = "mem";
      o["b"] = expr(M->getBase(), depth + 1);
      o["f"] = M->getMemberDecl()->getNameAsString();
      o["rec"] = recOf(M->getBase()->getType());
      o["arrow"] = M->isArrow();
    } else if (auto *I = dyn_cast<IntegerLiteral>(S)) {
      o["k"] = "int";
      (void)I;
    } else if (auto *CL = dyn_cast<CharacterLiteral>(S)) {
      o["k"] = "int"; o["chr"] = true; (void)CL;
    } else if (auto *FL = dyn_cast<FloatingLiteral>(S)) {
      o["k"] = "float"; (void)FL;
    } else if (auto *SL = dyn_cast<StringLiteral>(S)) {
      o["k"] = "str";
      if (SL->getCharByteWidth() == 1) o["s"] = SL->getString().substr(0, 256).str();
      o["len"] = (int64_t)SL->getLength();
    } else if (auto *U = dyn_cast<UnaryOperator>(S)) {
      if (U->isIncrementDecrementOp()) {
        o["k"] = "asg";
        o["op"] = U->isIncrementOp() ? "++" : "--";
        o["prefix"] = U->isPrefix();
        o["l"] = expr(U->getSubExpr(), depth + 1);
      } else {
        o["k"] = "un";
        o["op"] = UnaryOperator::getOpcodeStr(U->getOpcode()).str();
        o["e"] = expr(U->getSubExpr(), depth + 1);
      }
    } else if (auto *B = dyn_cast<BinaryOperator>(S)) {
      o["k"] = B->isAssignmentOp() ? "asg" : "bin";
      o["op"] = B->getOpcodeStr().str();
      o["l"] = expr(B->getLHS(), depth + 1);
      o["r"] = expr(B->getRHS(), depth + 1);
    } else if (auto *CO = dyn_cast<ConditionalOperator>(S)) {
      o["k"] = "cond";
      o["c"] = expr(CO->getCond(), depth + 1);
      o["t"] = expr(CO->getTrueExpr(), depth + 1);
      o["f"] = expr(CO->getFalseExpr(), depth + 1);
    } else if (auto *CE = dyn_cast<CStyleCastExpr>(S)) {
      o["k"] = "cast";
      o["to"] = ty(CE->getType());
      o["tow"] = tyw(CE->getTypeAsWritten());
      o["e"] = expr(CE->getSubExpr(), depth + 1);
    } else if (auto *UE = dyn_cast<UnaryExprOrTypeTraitExpr>(S)) {
      o["k"] = "sizeof";
      o["trait"] = UE->getKind() == UETT_SizeOf ? "sizeof" : "other";
      if (UE->isArgumentType()) o["oft"] = ty(UE->getArgumentType());
      else { o["of"] = expr(UE->getArgumentExpr(), depth + 1); o["oft"] = ty(UE->getArgumentExpr()->getType()); }
    } else if (auto *A = dyn_cast<ArraySubscriptExpr>(S)) {
      o["k"] = "idx";
      o["b"] = expr(A->getBase(), depth + 1);
      o["i"] = expr(A->getIdx(), depth + 1);
    } else if (auto *Ca = dyn_cast<CallExpr>(S)) {
      o["k"] = "call";
      auto it = callIds.find(Ca);
      if (it != callIds.end()) o["id"] = it->second;
      o["ln"] = lineOf(Ca->getBeginLoc());
      bool asRef = (Ca != curCall) && it != callIds.end();
      if (asRef) o["ref"] = true;
      if (auto *FD = Ca->getDirectCallee()) {
        o["callee"] = FD->getNameAsString();
        if (FD->getStorageClass() == SC_Static || FD->getCanonicalDecl()->getStorageClass() == SC_Static) o["static"] = true;
        if (FD->getBuiltinID()) o["builtin"] = true;
      } else {
        if (!asRef) o["fnx"] = expr(Ca->getCallee(), depth + 1);
        else o["ind"] = true;
        QualType T = Ca->getCallee()->getType().getCanonicalType();
        if (T->isPointerType()) T = T->getPointeeType().getCanonicalType();
        o["fnty"] = T.getAsString();
        o["fntyw"] = tyw(Ca->getCallee()->IgnoreParenImpCasts()->getType());
      }
      if (!asRef) {
        Array as;
        for (auto *Ar : Ca->arguments()) as.push_back(expr(Ar, depth + 1));
        o["args"] = std::move(as);
        // per argument: is the parameter a pointer to const (callee cannot write through it)
        Array cp;
        const FunctionProtoType *FPT = nullptr;
        {
          QualType CT = Ca->getCallee()->getType();
          if (CT->isPointerType()) CT = CT->getPointeeType();
          FPT = CT->getAs<FunctionProtoType>();
        }
        for (unsigned ai = 0; ai < Ca->getNumArgs(); ai++) {
          bool c = false;
          if (FPT && ai < FPT->getNumParams()) {
            QualType PT = FPT->getParamType(ai);
            if (PT->isPointerType() && PT->getPointeeType().isConstQualified()) c = true;
          }
          cp.push_back(c);
        }
        o["constp"] = std::move(cp);
      }
    } else if (auto *IL = dyn_cast<InitListExpr>(S)) {
      o["k"] = "init";
      Array items;
      const RecordDecl *RD = nullptr;
      if (auto *RT = IL->getType()->getAs<RecordType>()) RD = RT->getDecl();
      const InitListExpr *Sem = IL->isSemanticForm() ? IL : (IL->getSemanticForm() ? IL->getSemanticForm() : IL);
      std::vector<std::string> fn;
      if (RD) for (auto *F : RD->fields()) fn.push_back(F->getNameAsString());
      unsigned i = 0;
      for (auto *In : Sem->inits()) {
        Object it;
        if (RD && i < fn.size()) it["f"] = fn[i];
        it["e"] = isa<ImplicitValueInitExpr>(In) ? Value(nullptr) : expr(In, depth + 1);
        items.push_back(std::move(it));
        i++;
      }
      o["items"] = std::move(items);
    } else if (auto *CLE = dyn_cast<CompoundLiteralExpr>(S)) {
      o["k"] = "complit";
      o["e"] = expr(CLE->getInitializer(), depth + 1);
    } else if (auto *SE = dyn_cast<StmtExpr>(S)) {
      o["k"] = "other"; o["cls"] = "StmtExpr"; (void)SE;
    } else if (auto *VA = dyn_cast<VAArgExpr>(S)) {
      o["k"] = "other"; o["cls"] = "VAArg"; (void)VA;
    } else {
      o["k"] = "other";
      o["cls"] = std::string(S->getStmtClassName());
      Array ch;
      for (const Stmt *Ch : S->children()) if (auto *CEe = dyn_cast_or_null<Expr>(Ch)) ch.push_back(expr(CEe, depth + 1));
      o["ch"] = std::move(ch);
    }
    return std::move(o);
  }
};

struct CallNumberer : RecursiveASTVisitor<CallNumberer> {
  std::map<const CallExpr *, int> &ids;
  CallNumberer(std::map<const CallExpr *, int> &i) : ids(i) {}
  bool VisitCallExpr(CallExpr *C) { int n = (int)ids.size(); ids.emplace(C, n); return true; }
};

struct Visitor : RecursiveASTVisitor<Visitor> {
  ASTContext &C;
  SourceManager &SM;
  Object &top;
  Array funcs, records, enums, typedefs, globals, protos;
  std::set<const RecordDecl *> seenRec;
  std::set<const EnumDecl *> seenEnum;
  std::set<std::string> seenProto;

  Visitor(ASTContext &C, Object &top) : C(C), SM(C.getSourceManager()), top(top) {}

  bool VisitRecordDecl(RecordDecl *R) {
    if (!R->isCompleteDefinition()) return true;
    Emitter E(C);
    if (!E.inRepo(R->getLocation())) return true;
    if (!seenRec.insert(R).second) return true;
    Object o;
    std::string n = R->getNameAsString();
    if (n.empty()) {
      if (auto *TD = R->getTypedefNameForAnonDecl()) n = TD->getNameAsString();
      else n = "anon@" + std::to_string(E.lineOf(R->getLocation()));
    }
    o["name"] = n;
    o["union"] = R->isUnion();
    o["file"] = E.fileOf(R->getLocation());
    o["ln"] = E.lineOf(R->getLocation());
    Array fs;
    for (auto *F : R->fields()) {
      Object fo;
      fo["n"] = F->getNameAsString();
      fo["ty"] = E.ty(F->getType());
      fo["tyw"] = E.tyw(F->getType());
      if (auto *AT = C.getAsConstantArrayType(F->getType())) fo["arr"] = (int64_t)AT->getSize().getZExtValue();
      if (!F->getType()->isIncompleteType() && !F->getType()->isDependentType())
        fo["size"] = (int64_t)C.getTypeSizeInChars(F->getType()).getQuantity();
      fs.push_back(std::move(fo));
    }
    o["fields"] = std::move(fs);
    records.push_back(std::move(o));
    return true;
  }

  bool VisitEnumDecl(EnumDecl *D) {
    if (!D->isCompleteDefinition()) return true;
    Emitter E(C);
    if (!E.inRepo(D->getLocation())) return true;
    if (!seenEnum.insert(D).second) return true;
    Object o;
    std::string n = D->getNameAsString();
    if (n.empty()) if (auto *TD = D->getTypedefNameForAnonDecl()) n = TD->getNameAsString();
    o["name"] = n;
    o["file"] = E.fileOf(D->getLocation());
    o["ln"] = E.lineOf(D->getLocation());
    Array es;
    for (auto *EC : D->enumerators()) {
      Object eo;
      eo["n"] = EC->getNameAsString();
      eo["v"] = (int64_t)EC->getInitVal().getExtValue();
      es.push_back(std::move(eo));
    }
    o["items"] = std::move(es);
    enums.push_back(std::move(o));
    return true;
  }

  bool VisitTypedefNameDecl(TypedefNameDecl *T) {
    Emitter E(C);
    if (!E.inRepo(T->getLocation())) return true;
    Object o;
    o["name"] = T->getNameAsString();
    o["ty"] = E.ty(T->getUnderlyingType());
    typedefs.push_back(std::move(o));
    return true;
  }

  bool VisitVarDecl(VarDecl *V) {
    if (V->isLocalVarDeclOrParm()) return true;
    Emitter E(C);
    if (!E.inRepo(V->getLocation())) return true;
    if (!V->hasGlobalStorage()) return true;
    Object o;
    o["name"] = V->getNameAsString();
    o["ty"] = E.ty(V->getType());
    o["tyw"] = E.tyw(V->getType());
    o["file"] = E.fileOf(V->getLocation());
    o["ln"] = E.lineOf(V->getLocation());
    o["static"] = V->getStorageClass() == SC_Static;
    o["def"] = V->isThisDeclarationADefinition() != VarDecl::DeclarationOnly;
    if (V->hasInit()) o["init"] = E.expr(V->getInit());
    globals.push_back(std::move(o));
    return true;
  }

  bool VisitFunctionDecl(FunctionDecl *F) {
    Emitter E(C);
    if (!E.inRepo(F->getLocation())) return true;
    {
      Object p;
      p["name"] = F->getNameAsString();
      p["file"] = E.fileOf(F->getLocation());
      p["ln"] = E.lineOf(F->getLocation());
      p["static"] = F->getStorageClass() == SC_Static;
      p["body"] = F->doesThisDeclarationHaveABody();
      p["ret"] = E.ty(F->getReturnType());
      p["retw"] = E.tyw(F->getReturnType());
      p["variadic"] = F->isVariadic();
      Array ps;
      for (auto *P : F->parameters()) {
        Object po;
        po["n"] = P->getNameAsString();
        po["ty"] = E.ty(P->getType());
        po["tyw"] = E.tyw(P->getType());
        ps.push_back(std::move(po));
      }
      p["params"] = std::move(ps);
      protos.push_back(std::move(p));
    }
    if (!F->doesThisDeclarationHaveABody()) return true;
    CFG::BuildOptions BO;
    BO.setAllAlwaysAdd();
    BO.AddEHEdges = false;
    BO.PruneTriviallyFalseEdges = false;
    std::unique_ptr<CFG> cfg = CFG::buildCFG(F, F->getBody(), &C, BO);
    Object fo;
    fo["name"] = F->getNameAsString();
    fo["static"] = F->getStorageClass() == SC_Static || F->getCanonicalDecl()->getStorageClass() == SC_Static;
    fo["inline"] = F->isInlineSpecified();
    fo["file"] = E.fileOf(F->getLocation());
    fo["ln"] = E.lineOf(F->getLocation());
    fo["endln"] = E.lineOf(F->getBody()->getEndLoc());
    fo["ret"] = E.ty(F->getReturnType());
    fo["retw"] = E.tyw(F->getReturnType());
    Array ps;
    for (auto *P : F->parameters()) {
      Object po;
      po["n"] = P->getNameAsString();
      po["ty"] = E.ty(P->getType());
      po["tyw"] = E.tyw(P->getType());
      po["id"] = E.varId(P);
      ps.push_back(std::move(po));
    }
    fo["params"] = std::move(ps);
    if (!cfg) {
      fo["cfg_failed"] = true;
      funcs.push_back(std::move(fo));
      return true;
    }
    CallNumberer CN(E.callIds);
    CN.TraverseStmt(F->getBody());
    fo["entry"] = (int64_t)cfg->getEntry().getBlockID();
    fo["exit"] = (int64_t)cfg->getExit().getBlockID();
    Array blocks;
    for (auto *B : *cfg) {
      Object bo;
      bo["id"] = (int64_t)B->getBlockID();
      Array su;
      for (auto S : B->succs()) {
        const CFGBlock *R = S.getReachableBlock();
        if (!R) R = S.getPossiblyUnreachableBlock();
        su.push_back(R ? Value((int64_t)R->getBlockID()) : Value(nullptr));
      }
      bo["succs"] = std::move(su);
      if (B->hasNoReturnElement()) bo["noreturn"] = true;
      Array els;
      for (auto &El : *B) {
        auto CS = El.getAs<CFGStmt>();
        if (!CS) continue;
        const Stmt *St = CS->getStmt();
        Object eo;
        bool keep = false;
        if (auto *CE = dyn_cast<CallExpr>(St)) {
          keep = true;
          eo["k"] = "call";
          E.curCall = CE;
          eo["e"] = E.expr(CE);
          E.curCall = nullptr;
        } else if (auto *BOp = dyn_cast<BinaryOperator>(St)) {
          if (BOp->isAssignmentOp()) { keep = true; eo["k"] = "asg"; eo["e"] = E.expr(BOp); }
        } else if (auto *UO = dyn_cast<UnaryOperator>(St)) {
          if (UO->isIncrementDecrementOp()) { keep = true; eo["k"] = "asg"; eo["e"] = E.expr(UO); }
        } else if (auto *DS = dyn_cast<DeclStmt>(St)) {
          Array ds;
          for (auto *D : DS->decls())
            if (auto *VD = dyn_cast<VarDecl>(D)) {
              Object d;
              d["id"] = E.varId(VD);
              d["n"] = VD->getNameAsString();
              d["ty"] = E.ty(VD->getType());
              if (auto *AT = C.getAsConstantArrayType(VD->getType())) d["arr"] = (int64_t)AT->getSize().getZExtValue();
              if (VD->hasInit()) d["init"] = E.expr(VD->getInit());
              ds.push_back(std::move(d));
            }
          if (!ds.empty()) { keep = true; eo["k"] = "decl"; eo["vars"] = std::move(ds); }
        } else if (auto *RS = dyn_cast<ReturnStmt>(St)) {
          keep = true;
          eo["k"] = "ret";
          if (RS->getRetValue()) eo["e"] = E.expr(RS->getRetValue());
        }
        if (keep) {
          eo["ln"] = E.lineOf(St->getBeginLoc());
          eo["col"] = E.colOf(St->getBeginLoc());
          eo["t"] = E.srcText(St, 160);
          els.push_back(std::move(eo));
        }
      }
      bo["els"] = std::move(els);
      if (const Stmt *T = B->getTerminatorStmt()) {
        Object to;
        to["cls"] = std::string(T->getStmtClassName());
        to["ln"] = E.lineOf(T->getBeginLoc());
        if (auto *LC = B->getLastCondition()) {
          to["cond"] = E.expr(LC);
          to["t"] = E.srcText(LC, 160);
        }
        if (auto *SW = dyn_cast<SwitchStmt>(T)) to["switch"] = E.expr(SW->getCond());
        if (auto *BO2 = dyn_cast<BinaryOperator>(T)) to["op"] = BO2->getOpcodeStr().str();
        if (isa<GotoStmt>(T)) to["goto"] = cast<GotoStmt>(T)->getLabel()->getNameAsString();
        bo["term"] = std::move(to);
      }
      if (const Stmt *L = B->getLabel()) {
        Object lo;
        if (auto *CS = dyn_cast<CaseStmt>(L)) {
          lo["k"] = "case";
          lo["lo"] = E.expr(CS->getLHS());
          if (CS->getRHS()) lo["hi"] = E.expr(CS->getRHS());
        } else if (isa<DefaultStmt>(L)) {
          lo["k"] = "default";
        } else if (auto *LS = dyn_cast<LabelStmt>(L)) {
          lo["k"] = "label";
          lo["n"] = std::string(LS->getName());
        }
        lo["ln"] = E.lineOf(L->getBeginLoc());
        bo["label"] = std::move(lo);
      }
      if (const Stmt *LT = B->getLoopTarget()) { bo["looptarget"] = E.lineOf(LT->getBeginLoc()); }
      blocks.push_back(std::move(bo));
    }
    fo["blocks"] = std::move(blocks);
    fo["vars"] = std::move(E.varTable);
    fo["ncalls"] = (int64_t)E.callIds.size();
    funcs.push_back(std::move(fo));
    return true;
  }
};

struct MacroCB : PPCallbacks {
  Preprocessor &PP;
  MacroCB(Preprocessor &PP) : PP(PP) {}
  void MacroDefined(const Token &Tok, const MacroDirective *MD) override {
    if (!gMacros) return;
    SourceManager &SM = PP.getSourceManager();
    const MacroInfo *MI = MD->getMacroInfo();
    SourceLocation L = MI->getDefinitionLoc();
    if (!L.isValid() || !L.isFileID()) return;
    std::string f = SM.getFilename(L).str();
    if (f.compare(0, RepoRoot.size(), RepoRoot) != 0) return;
    Object o;
    o["n"] = Tok.getIdentifierInfo()->getName().str();
    o["file"] = f;
    o["ln"] = (int64_t)SM.getSpellingLineNumber(L);
    o["fnlike"] = MI->isFunctionLike();
    std::string body;
    for (const Token &T : MI->tokens()) {
      if (!body.empty()) body += ' ';
      body += PP.getSpelling(T);
      if (body.size() > 300) break;
    }
    o["body"] = body;
    gMacros->push_back(std::move(o));
  }
};

struct Consumer : ASTConsumer {
  Array macros;
  void HandleTranslationUnit(ASTContext &C) override {
    Object top;
    Visitor V(C, top);
    V.TraverseDecl(C.getTranslationUnitDecl());
    auto &SM = C.getSourceManager();
    top["main"] = SM.getFileEntryForID(SM.getMainFileID())->getName().str();
    top["funcs"] = std::move(V.funcs);
    top["records"] = std::move(V.records);
    top["enums"] = std::move(V.enums);
    top["typedefs"] = std::move(V.typedefs);
    top["globals"] = std::move(V.globals);
    top["protos"] = std::move(V.protos);
    top["macros"] = std::move(macros);
    llvm::outs() << Value(std::move(top)) << "\n";
  }
};

struct Action : ASTFrontendAction {
  std::unique_ptr<ASTConsumer> CreateASTConsumer(CompilerInstance &CI, StringRef) override {
    auto Cn = std::make_unique<Consumer>();
    gMacros = &Cn->macros;
    CI.getPreprocessor().addPPCallbacks(std::make_unique<MacroCB>(CI.getPreprocessor()));
    return Cn;
  }
};

} // namespace

int main(int argc, const char **argv) {
  auto P = CommonOptionsParser::create(argc, argv, Cat);
  if (!P) {
    llvm::errs() << P.takeError();
    return 2;
  }
  ClangTool T(P->getCompilations(), P->getSourcePathList());
  return T.run(newFrontendActionFactory<Action>().get()) ? 2 : 0;
}
