#!/bin/bash
# harvest_seeds3.sh <Cxx> : fifth seeding round. Verify each agent-delivered change in /tmp/wt5-<Cxx>/seed/change{1,2,3} myself
# (unchanged: demo passes; changed: builds, suite passes, demo fails) and copy the valid ones to /verif/seeded/<Cxx>-change{11,12,13}
P="$1"
for C in change1 change2 change3; do
  S=/tmp/wt5-$P/seed/$C
  [ -f "$S/patch.diff" ] || { echo "$P $C: no patch delivered"; continue; }
  V=$(/verif/tool/verify_seed.sh /tmp/wt5-$P $C)
  echo "$P $C: $V"
  if echo "$V" | grep -q "VALID" && ! echo "$V" | grep -q INVALID; then
    case $C in change1) N=change11;; change2) N=change12;; change3) N=change13;; esac
    D=/verif/seeded/$P-$N
    mkdir -p $D
    cp -r $S/* $D/ 2>/dev/null
    rm -f $D/demo $D/*.o $D/a.out
    find $D -type f -size +400k -delete
    find $D -type f -perm -u+x ! -name "*.sh" -exec sh -c 'file "$1" | grep -q ELF && rm -f "$1"' _ {} \;
  fi
done
