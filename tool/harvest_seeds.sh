#!/bin/bash
# harvest_seeds.sh <Cxx> ... : verify each agent-delivered change in /tmp/wt-<Cxx>/seed/change{1,2}; copy valid ones to /verif/seeded
for P in "$@"; do
  for C in change1 change2; do
    S=/tmp/wt-$P/seed/$C
    [ -f "$S/patch.diff" ] || continue
    V=$(/verif/tool/verify_seed.sh /tmp/wt-$P $C)
    echo "$P $C: $V"
    if echo "$V" | grep -q "VALID" && ! echo "$V" | grep -q INVALID; then
      D=/verif/seeded/$P-$C
      mkdir -p $D
      cp -r $S/* $D/ 2>/dev/null
      rm -f $D/demo $D/*.o $D/a.out
      find $D -type f -size +400k -delete
    fi
  done
done
