#!/bin/bash
# harvest_seeds6.sh <Cxx> : eighth seeding round. Verify each agent-delivered change in /tmp/wt8-<Cxx>/seed/change{1,2,3} myself
# (unchanged: demo passes; changed: builds, suite passes, demo fails) and copy the valid ones to /verif/seeded/<Cxx>-change{20,21,22}
P="$1"
for C in change1 change2 change3; do
  S=/tmp/wt8-$P/seed/$C
  [ -f "$S/patch.diff" ] || { echo "$P $C: no patch delivered"; continue; }
  V=$(/verif/tool/verify_seed.sh /tmp/wt8-$P $C)
  echo "$P $C: $V"
  if echo "$V" | grep -q "VALID" && ! echo "$V" | grep -q INVALID; then
    case $C in change1) N=change20;; change2) N=change21;; change3) N=change22;; esac
    D=/verif/seeded/$P-$N
    mkdir -p $D
    cp -r $S/* $D/ 2>/dev/null
    rm -f $D/demo $D/*.o $D/a.out
    find $D -type f -size +400k -delete
    find $D -type f -perm -u+x ! -name "*.sh" -exec sh -c 'file "$1" | grep -q ELF && rm -f "$1"' _ {} \;
  fi
done
