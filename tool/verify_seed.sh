#!/bin/bash
# verify_seed.sh <worktree> <changedir-name>   -> prints a verdict line; leaves the worktree clean
WT="$1"; CH="$2"; S="$WT/seed/$CH"; LOG="$S/verify.log"
cd "$WT" || exit 2
git checkout -q -- . 2>/dev/null
{
echo "== unchanged tree"
cmake --build _build -j6 >/dev/null 2>&1 || echo "BUILD0 FAILED"
bash "$S/run.sh" "$WT/_build" >"$S/demo_clean.out" 2>&1; D0=$?
echo "demo on unchanged: exit $D0"
git apply "$S/patch.diff" || { echo "PATCH DOES NOT APPLY"; exit 3; }
cmake --build _build -j6 >/tmp/vs_build.$$ 2>&1 || { echo "BUILD1 FAILED"; tail -5 /tmp/vs_build.$$; }
ctest --test-dir _build -j6 --timeout 900 >/dev/null 2>&1
L=_build/Testing/Temporary/LastTest.log
P=$(grep -E "^\[  PASSED  \]" $L | grep -o "[0-9]*" | head -1)
NL=$(grep "^\[  FAILED  \]" $L | grep -v Live | grep -vc "tests, listed below")
echo "suite with change: passed=$P non-live-failures=$NL"
grep "^\[  FAILED  \]" $L | grep -v Live | grep -v "listed below" | sort -u | head -5
bash "$S/run.sh" "$WT/_build" >"$S/demo_changed.out" 2>&1; D1=$?
echo "demo on changed: exit $D1"
git checkout -q -- .
cmake --build _build -j6 >/dev/null 2>&1
if [ "$D0" = "0" ] && [ "$D1" != "0" ] && [ "$NL" = "0" ] && [ "${P:-0}" -ge 1100 ]; then echo "VERDICT $CH VALID"; else echo "VERDICT $CH INVALID"; fi
rm -f /tmp/vs_build.$$
} >"$LOG" 2>&1
tail -1 "$LOG"
