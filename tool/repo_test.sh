#!/bin/sh
# Build /repo/_build (or $1) and run the pinned suite; report pass count and any failure that is not a Live* (network) test.
B="${1:-/repo/_build}"
cmake --build "$B" -j8 >/tmp/repo_build.log 2>&1 || { tail -20 /tmp/repo_build.log; echo BUILD-FAILED; exit 1; }
ctest --test-dir "$B" -j8 --timeout 900 >/tmp/repo_ctest.log 2>&1
L="$B/Testing/Temporary/LastTest.log"
grep -E "^\[  PASSED  \]" "$L"
grep "^\[  FAILED  \]" "$L" | grep -v "Live" | grep -v "tests, listed below" | sort -u | head -20
grep -E "tests passed|tests failed" /tmp/repo_ctest.log
NL=$(grep "^\[  FAILED  \]" "$L" | grep -v "Live" | grep -vc "tests, listed below")
P=$(grep -E "^\[  PASSED  \]" "$L" | grep -o "[0-9]*" | head -1)
echo "non-live-failures=$NL passed=$P"
[ "$NL" = "0" ] && [ "$P" = "1192" ]
