#!/usr/bin/env python3
"""mk_agent_prompt.py <Cxx> <worktree>: prompt for an independent seeding sub-agent (property text + its own scratch worktree only)."""
import json, sys
pid, wt = sys.argv[1], sys.argv[2]
N3 = len(sys.argv) > 3 and sys.argv[3] == "3"
P = None
for l in open('/verif/properties.jsonl'):
    d = json.loads(l)
    if d['id'] == pid:
        P = d
files = ", ".join(P['anchors'].get('files', []))
print(f"""You are helping evaluate a verification effort for the C library c-ares (asynchronous DNS resolver). You work ONLY inside your own scratch git worktree of the library at {wt} (a checkout of the current development commit). Do not read or touch /verif or /repo, and do not look anywhere else for hints; everything you need is in your worktree.

THE PROPERTY (a behavioural property the library is supposed to satisfy):

Title: {P['title']}

Statement: {P['statement']}

Quantified over: {P['quantifier']['text']}

Main files involved: {files}

YOUR TASK: produce {"THREE" if N3 else "TWO"} different, independent, realistic source changes to the library (under src/lib or include) that each BREAK this property while the library still compiles and the existing test suite still passes. Think of a plausible regression a maintainer could introduce by a refactor, an optimisation, a mis-merged patch, or an incomplete bug fix -- not sabotage that any use would expose at once. Each change must need something SPECIFIC to manifest: a particular interleaving, a crash/fault/allocation failure at a particular point, a multi-step sequence of API operations, an unusual input, a rarely used option combination, or two cooperating sites that each look fine alone. Prefer subtle, small changes (1-15 lines). The changes should break the property in different ways / at different sites{" and, where the statement has several clauses or the property spans several files, in different clauses / files" if N3 else ""}. Avoid the single most obvious candidate (deleting the one check everybody would think of first): look at error-handling paths, less-travelled functions in the listed files, helper functions the main path relies on, and clauses of the statement that are easy to overlook.

For each change provide a DEMONSTRATION: a small C (or C++) program or test that uses the library's public API (or, if unavoidable, internal headers from src/lib) and FAILS (non-zero exit / crash / sanitizer report / wrong output it detects itself) when built against the changed library and PASSES (exit 0) against the unchanged library. Demonstrations must run offline; use loopback sockets / local mock servers / custom socket functions (ares_set_socket_functions_ex) / custom allocators (ares_library_init_mem) as needed. test/ contains a gtest-based suite with a mock DNS server you may take inspiration from, but the demonstration should preferably be a stand-alone program with a small build command. Demonstrations should be deterministic and finish within about 30 seconds.

How to build and test (offline sandbox, 16 cores shared with other jobs -- please use at most -j4):
  cd {wt}
  cmake -G Ninja -B _build -S . -DCARES_BUILD_TESTS=ON -DCARES_BUILD_TOOLS=ON -DCMAKE_BUILD_TYPE=RelWithDebInfo >/dev/null
  cmake --build _build -j4
  ctest --test-dir _build -j4 --timeout 900        # ~3-5 minutes; the 'Live*' tests inside arestest need the network and fail in this sandbox with or without your change: ignore exactly those, everything else that passes on the unchanged tree must still pass
Build the unchanged tree first and run the suite once to get your baseline. The library is at _build/lib/libcares.so, public headers in include/ and _build/ (ares_build.h), internal headers in src/lib and src/lib/include (these need -DHAVE_CONFIG_H -DCARES_BUILDING_LIBRARY and -I_build for ares_config.h if you use them). A second build directory (e.g. _build_asan with -DCMAKE_C_FLAGS='-fsanitize=address,undefined -g') is fine if your demonstration needs sanitizers.

DELIVERABLES, all inside {wt}/seed/ (create it):
  seed/change1/patch.diff   -- `git diff` of the change against the checked-out commit (source files only: no build dirs, no seed/ files); must apply with `git apply` on a clean checkout
  seed/change1/demo.c (or demo.cc, plus any helper files) and seed/change1/run.sh -- run.sh takes the path of a c-ares build directory as $1 (e.g. `seed/change1/run.sh {wt}/_build`), compiles the demo against the library in that build dir and runs it; exit 0 = property observed to hold, non-zero = violation observed
  seed/change1/README.md    -- what the change is, why it breaks the property, exactly what is needed for it to manifest, and the commands you ran with their observed results (unchanged tree: suite passes, demo passes; changed tree: suite passes, demo fails)
  seed/change2/...          -- same for the second change{" (and seed/change3/... for the third)" if N3 else ""}
Keep the working tree itself CLEAN at the end (`git checkout -- src include` the source changes -- do NOT use `git stash`, it is shared between worktrees -- so that `git status` shows only untracked seed/ and build dirs); the patches live only in seed/*/patch.diff.

Verify everything yourself before finishing: for each change, on a clean tree: build, run suite (must pass as baseline), run demo (must pass); apply patch, rebuild, run suite (must still pass), run demo (must fail); then revert. If a candidate change makes an existing test fail, discard it and find another. If after serious effort you can only produce fewer valid changes, deliver those and say so. If you notice that the UNCHANGED library already violates the property somewhere, mention it briefly at the end but do not count it as one of your changes. Your final message should briefly list the changes (file/function, what breaks, what is needed to manifest) and the verification results.""")
