"""Structural rules about the index / link / count arithmetic inside the containers (dsa/).  Each is a necessary condition of the ADT
behaviour that is visible in the text of the implementation: algebra on index expressions (linear.py), def-use freshness of a hash
index, paired link stores, agreement between the hash and the equality function of a typed table.  None of them executes anything."""
from lib import *  # noqa
import linear as L

ARR = "src/lib/dsa/ares_array.c"
HT = "src/lib/dsa/ares_htable.c"
SL = "src/lib/dsa/ares_slist.c"


def _fld(e, name):
    e = strip(e)
    return e is not None and e.get("k") == "mem" and e["f"] == name


def _single_defs(f):
    """locals with exactly one defining assignment/initialiser in the function: name -> rhs tree"""
    defs = {}
    for b, i, el in f.elements():
        if el["k"] == "decl":
            for v in el["vars"]:
                if v.get("init") is not None:
                    defs.setdefault(v["n"], []).append(v["init"])
        elif el["k"] == "asg" and is_var(strip(el["e"]["l"])):
            defs.setdefault(strip(el["e"]["l"])["n"], []).append(el["e"].get("r") if el["e"]["op"] == "=" else None)
    params = {p["n"] for p in f.params}
    return {n: v[0] for n, v in defs.items() if len(v) == 1 and v[0] is not None and n not in params}


def _has_fact(mf, b, i, lhs, rhs, ops):
    for c, p in mf.cond_facts_at(b, i):
        op, l, r = norm_cmp(c, p)
        if r is None:
            continue
        if L.text(l) == lhs and L.text(r) == rhs and op in ops:
            return True
        if L.text(r) == lhs and L.text(l) == rhs and SWAP[op] in ops:
            return True
    return False


def _slot_index(x):
    """X in `storage + X`: returns (Y, member_size_atom) with X == Y * member_size, or None"""
    d = L.lin(x)
    if d.get("", 0) != 0:
        return None
    y, ms = {}, None
    for a, c in d.items():
        if a == "":
            continue
        parts = a.split("*")
        m = [p for p in parts if p.endswith("->member_size")]
        if len(m) != 1 or len(parts) != 2:
            return None
        ms = m[0]
        other = [p for p in parts if p != m[0]]
        y[other[0] if other else ""] = c
    return y, ms


def r_arridx(prog, R):
    r = R.rule("R-C19-ARRIDX", "array slots are addressed as storage + (logical index + offset) x member size; opening a gap shifts the tail up by exactly one "
               "slot from the insertion index, closing one shifts it down by exactly one onto the removed index; the shifted length is what lies "
               "behind the source; indexes are bounded by the count first", floor=12, analysis="linear normal form of index expressions + dominating bound facts")
    funcs = [f for f in prog.funcs.values() if f.file == ARR]
    if not r.require(funcs, "ares_array.c not found"):
        return
    phys = {}      # function -> set of parameter names used as physical (already offset) indexes
    n_ptr = 0
    for f in sorted(funcs, key=lambda x: x.key):
        mf = None
        params = {p["n"] for p in f.params}
        for b, i, el in f.elements():
            for nd in walk(el.get("e")) if el.get("e") is not None else []:
                if nd.get("k") != "bin" or nd["op"] != "+" or not _fld(nd["l"], "arr"):
                    continue
                n_ptr += 1
                base = L.text(nd["l"])
                arrv = base[:-len("->arr")]
                k = "fn=%s slot address %s" % (f.name, L.text(nd["r"]))
                si = _slot_index(nd["r"])
                if si is None:
                    r.viol(k, f.name, f.loc(el), "the byte offset added to %s is not (index) x member_size" % base)
                    continue
                y, ms = si
                offa = arrv + "->offset"
                idxs = [a for a in y if a not in ("", offa)]
                if not idxs and y.get(offa, 0) == 1 and y.get("", 0) == 0:
                    r.ok(k, f.loc(el), "first element: offset x member_size")
                    continue
                if len(idxs) != 1 or y[idxs[0]] != 1 or y.get("", 0) != 0:
                    r.viol(k, f.name, f.loc(el), "slot index %s is not a single index (plus the offset)" % L.show(y))
                    continue
                ix = idxs[0]
                if y.get(offa, 0) == 1:
                    # logical index: must be bounded by the count at this point
                    if mf is None:
                        mf = MustFacts(f, track_calls=False)
                    if ix in params:
                        strict = _has_fact(mf, b, i, ix, arrv + "->cnt", ("<",))
                        loose = _has_fact(mf, b, i, ix, arrv + "->cnt", ("<", "<="))
                        grows = any(e2["k"] == "asg" and _fld(e2["e"]["l"], "cnt") and e2["e"]["op"] in ("++", "+=") for _, _, e2 in f.elements())
                        if strict or (grows and loose):
                            r.ok(k, f.loc(el), "logical index + offset, bounded by cnt")
                        else:
                            r.viol(k, f.name, f.loc(el), "element %s of the array is addressed without a dominating test %s %s %s->cnt: a removed or never inserted slot can be handed out" % (ix, ix, "<=" if grows else "<", arrv))
                    else:
                        r.ok(k, f.loc(el), "logical index + offset")
                elif y.get(offa, 0) == 0 and ix in params and f.calls_to("memmove", "memcpy") and not any(p2["n"] in ("idx", "index") for p2 in f.params):
                    phys.setdefault(f.name, set()).add(ix)
                    r.ok(k, f.loc(el), "physical index parameter (callers add the offset; checked at the call sites)")
                else:
                    r.viol(k, f.name, f.loc(el), "slot index %s neither adds %s once nor is a physical-index parameter: elements are addressed at the wrong slot as soon as the array has dropped elements from the front" % (L.show(y), offa))
    r.require(n_ptr >= 4, "fewer than 4 slot address computations found in ares_array.c")
    # the shifting helper(s): physical-index functions
    n_shift = 0
    for hname, pset in sorted(phys.items()):
        h = prog.func(hname, file=ARR)
        pi = sorted(h.param_index(p) for p in pset)
        # which physical parameter feeds memmove's source / destination
        roles = {}
        env = _single_defs(h)
        for b, i, c in h.calls_to("memmove", "memcpy"):
            for role, a in (("dest", c["args"][0]), ("src", c["args"][1])):
                t = env.get(strip(a)["n"]) if is_var(strip(a)) else a
                for nd in walk(t):
                    if nd.get("k") == "bin" and nd["op"] == "+" and _fld(nd["l"], "arr"):
                        si = _slot_index(nd["r"])
                        if si:
                            for a2 in si[0]:
                                if a2 in pset:
                                    roles[role] = a2
            ln = c["args"][2]
            k = "fn=%s shifted length" % hname
            if "src" in roles:
                arrv = [p["n"] for p in h.params][0]
                want = {"%s->member_size*%s->cnt" % (arrv, arrv): 1, "%s->member_size*%s" % (arrv, roles["src"]): -1, "%s->member_size*%s->offset" % (arrv, arrv): 1}
                got = {a: v for a, v in L.lin(ln, env).items() if v != 0}
                # normalise product atom spelling
                norm = lambda d: {"*".join(sorted(a.split("*"))): v for a, v in d.items()}
                if norm(got) == norm(want):
                    r.ok(k, h.loc(c["ln"]), "(cnt - (src - offset)) x member_size")
                else:
                    r.viol(k, hname, h.loc(c["ln"]), "the number of bytes shifted is %s, not (cnt - (%s - offset)) x member_size: elements behind the gap are lost or bytes beyond the array are moved" % (L.show(got), roles["src"]))
        if not r.require("src" in roles and "dest" in roles, "%s: memmove source/destination not traced to its index parameters" % hname):
            continue
        di, si_ = h.param_index(roles["dest"]), h.param_index(roles["src"])
        for f in sorted(funcs, key=lambda x: x.key):
            calls = f.calls_to(hname)
            if not calls:
                continue
            mf = MustFacts(f, track_calls=False)
            arrv = L.text(calls[0][2]["args"][0])
            offa = arrv + "->offset"
            grows = any(e2["k"] == "asg" and _fld(e2["e"]["l"], "cnt") and e2["e"]["op"] in ("++", "+=") for _, _, e2 in f.elements())
            shrinks = any(e2["k"] == "asg" and _fld(e2["e"]["l"], "cnt") and e2["e"]["op"] in ("--", "-=") for _, _, e2 in f.elements())
            idxp = [p["n"] for p in f.params if p["n"] in ("idx", "index")]
            for b, i, c in calls:
                n_shift += 1
                d, s = c["args"][di], c["args"][si_]
                dl, sl = L.lin(d), L.lin(s)
                dd = L.diff(d, s)
                if {a: v for a, v in dl.items() if v} == {} and {a: v for a, v in sl.items() if v} == {offa: 1}:
                    k = "fn=%s compaction to the start resets the offset" % f.name
                    # every path from the call to the exit either leaves through a failure return or stores offset = 0
                    def bar(e2):
                        if e2["k"] == "asg" and _fld(e2["e"]["l"], "offset") and const_val(e2["e"].get("r")) == 0 and e2["e"]["op"] == "=":
                            return True
                        return False
                    fail_rets = set()
                    for rb, ri, rel in f.returns():
                        for c3, p3 in mf.cond_facts_at(rb, ri):
                            op, l3, r3 = norm_cmp(c3, p3)
                            if op == "!=" and r3 is not None and name_of_const(r3) == "ARES_SUCCESS":
                                fail_rets.add((rb.id, ri))
                    def bar2(e2):
                        return bar(e2) or (e2["k"] == "ret" and any(f.blocks[bb].els[ii] is e2 for bb, ii in fail_rets))
                    t = can_reach_exit_avoiding(f, b, i, bar2)
                    if t is None:
                        r.ok(k, f.loc(c["ln"]))
                    else:
                        r.viol(k, f.name, f.loc(c["ln"]), "after moving the elements to the start of the allocation %s is not reset on a path to a success return: every later access adds a stale offset" % offa, trail=trail_lines(f, t))
                    continue
                if grows and idxp:
                    k = "fn=%s opens a one-slot gap at the insertion index" % f.name
                    want_s = {idxp[0]: 1, offa: 1}
                    if dd == {"": 1} and {a: v for a, v in sl.items() if v} == want_s:
                        r.ok(k, f.loc(c["ln"]))
                    else:
                        r.viol(k, f.name, f.loc(c["ln"]), "insertion shifts from %s to %s (difference %s): the tail must move from index+offset to index+offset+1, otherwise elements are overwritten or reordered" % (L.show(sl), L.show(dl), L.show(dd)))
                elif shrinks and idxp:
                    k = "fn=%s closes the gap onto the removed index" % f.name
                    want_d = {idxp[0]: 1, offa: 1}
                    if dd == {"": -1} and {a: v for a, v in dl.items() if v} == want_d:
                        r.ok(k, f.loc(c["ln"]))
                    else:
                        r.viol(k, f.name, f.loc(c["ln"]), "removal shifts from %s to %s (difference %s): the tail must move from index+offset+1 down to index+offset, otherwise a neighbour is lost or duplicated" % (L.show(sl), L.show(dl), L.show(dd)))
                else:
                    r.viol("fn=%s unclassified shift %s<-%s" % (f.name, L.show(dl), L.show(sl)), f.name, f.loc(c["ln"]), "a shift of array elements that is neither a compaction, an insertion gap nor a removal")
    r.require(n_shift >= 4, "fewer than 4 shift call sites found")
    # an insertion that is not an append opens its gap on EVERY path (also on the one that first compacted the array)
    ins = prog.func("ares_array_insert_at", file=ARR)
    idxp = [p["n"] for p in ins.params if p["n"] in ("idx", "index")]
    incs = [(b, i, el) for b, i, el in ins.elements() if el["k"] == "asg" and _fld(el["e"]["l"], "cnt") and el["e"]["op"] in ("++", "+=")]
    if idxp and incs:
        arrv = ins.params[1]["n"] if len(ins.params) > 1 else "arr"
        k = "fn=ares_array_insert_at gap opened on every path unless appending"
        tb, ti, _ = incs[0]

        def is_gap(e2):
            if e2["k"] != "call" or e2["e"].get("callee") not in phys:
                return False
            a = e2["e"].get("args", [])
            return len(a) >= 3 and L.diff(a[1], a[2]) == {"": 1}
        seen, work, bad = set(), [(ins.entry, [ins.entry])], None
        while work and bad is None:
            bid, trail = work.pop()
            blk = ins.blocks[bid]
            stop = False
            for j, e2 in enumerate(blk.els):
                if is_gap(e2):
                    stop = True
                    break
                if bid == tb.id and j == ti:
                    bad = trail
                    stop = True
                    break
            if stop:
                continue
            br = ins.branch(blk)
            for s2 in ins.succ(bid):
                if br and br[1] != br[2]:
                    pol = (br[1] == s2)
                    if any(norm_cmp(c3, p3)[0] == "==" and norm_cmp(c3, p3)[2] is not None and {L.text(norm_cmp(c3, p3)[1]), L.text(norm_cmp(c3, p3)[2])} == {idxp[0], "%s->cnt" % arrv} for c3, p3 in atoms(br[0], pol)):
                        continue          # appending: no gap needed
                if s2 not in seen:
                    seen.add(s2)
                    work.append((s2, trail + [s2]))
        if bad is not None:
            r.viol(k, ins.name, ins.loc(incs[0][2]), "ares_array_insert_at can count a new member in the middle of the array on a path that never shifted the tail up (e.g. the path that first moved the data back to the start of the allocation): the member at the index is overwritten and a stale copy reappears at the end", trail=trail_lines(ins, bad))
        else:
            r.ok(k, ins.loc(incs[0][2]))
    # count bookkeeping: exactly one increment before an insertion reports success, exactly one decrement before a removal does
    for fname, ops, what in (("ares_array_insert_at", ("++",), "incremented"), ("ares_array_claim_at", ("--",), "decremented")):
        f = prog.func(fname, file=ARR)
        k = "fn=%s count %s on every success" % (fname, what)
        isop = lambda e2: e2["k"] == "asg" and _fld(e2["e"]["l"], "cnt") and e2["e"]["op"] in ops
        sites = [(b, i) for b, i, el in f.elements() if isop(el)]
        bad = None
        for rb, ri, rel in f.returns():
            if name_of_const(rel.get("e")) != "ARES_SUCCESS":
                continue
            t = can_reach_from_entry_avoiding(f, rb, ri, isop)
            if t is not None:
                bad = (rel, t)
        twice = any(any(isop(e2) for e2 in _els_after(f, b, i)) for b, i in sites)
        if bad:
            r.viol(k, fname, f.loc(bad[0]), "%s reports success on a path on which arr->cnt was not %s" % (fname, what), trail=trail_lines(f, bad[1]))
        elif twice or len(sites) == 0:
            r.viol(k, fname, f.loc(f.ln), "%s: arr->cnt can be %s %s on one path" % (fname, what, "twice" if twice else "never"))
        else:
            r.ok(k, f.loc(f.ln))


def _els_after(f, b, i):
    for bb, ii in reach_after(f, b.id if isinstance(b, Block) else b, i):
        yield f.blocks[bb].els[ii]


# ------------------------------------------------------------------------------------------------------------------------------
# hash table


def _hash_and(f, e):
    """(hash(key, seed) & mask) with an indirect call through a 'hash' member: (callnode, mask tree) or None"""
    e = strip(e)
    if e is None or e.get("k") != "bin" or e["op"] != "&":
        return None
    for h, m in ((e["l"], e["r"]), (e["r"], e["l"])):
        h = strip(h)
        if h is None or h.get("k") != "call":
            continue
        cc = h
        if h.get("ref"):
            full = f.call_by_id(h.get("id"))
            cc = full[2] if full else h
        fx = cc.get("fnx")
        if fx is not None and "->hash" in L.text(fx):
            return cc, m
    return None


def _is_hash_index(f, e):
    """(hash(key, seed) & (size - 1)): returns the text of the table whose size is used, or None"""
    ha = _hash_and(f, e)
    if ha is None:
        return None
    d = L.lin(ha[1])
    sz = [a for a in d if a.endswith("->size")]
    if len(sz) == 1 and d == {"": -1, sz[0]: 1}:
        return sz[0][:-len("->size")]
    return None


def r_hashidx(prog, R):
    r = R.rule("R-C19-HASHIDX", "a bucket is selected only by hash(key, seed) & (size - 1) computed for the current table size: an index computed before the table "
               "was resized is never used afterwards; the size stays a power of two", floor=10, analysis="def-use freshness of the bucket index across size writers + mask algebra")
    funcs = [f for f in prog.funcs.values() if f.file == HT]
    if not r.require(funcs, "ares_htable.c not found"):
        return
    # functions that can change size or seed
    direct = set()
    for f in funcs:
        for b, i, el in f.elements():
            if el["k"] == "asg" and (_fld(el["e"]["l"], "size") or _fld(el["e"]["l"], "seed")):
                direct.add(f.name)
    resizers = set(direct)
    changed = True
    while changed:
        changed = False
        for f in funcs:
            if f.name in resizers:
                continue
            if any(c.get("callee") in resizers for _, _, c in f.calls()):
                resizers.add(f.name)
                changed = True
    n_use = 0
    for f in sorted(funcs, key=lambda x: x.key):
        # hash index definitions per variable
        defs = {}
        call_by = {c.get("id"): c for _, _, c in f.calls()}
        for b, i, el in f.elements():
            items = []
            if el["k"] == "decl":
                items = [(v["n"], v.get("init")) for v in el["vars"] if v.get("init") is not None]
            elif el["k"] == "asg" and is_var(strip(el["e"]["l"])) and el["e"]["op"] == "=":
                items = [(strip(el["e"]["l"])["n"], el["e"].get("r"))]
            for n, rhs in items:
                if _hash_and(f, rhs) is not None:
                    defs.setdefault(n, []).append((b, i, None))
        # mask shape for every '&' with an indirect hash call
        for b, i, el in f.elements():
            for nd in walk(el.get("e")) if el.get("e") is not None else []:
                if nd.get("k") == "bin" and nd["op"] == "&":
                    ha = _hash_and(f, nd)
                    if ha:
                        k = "fn=%s index mask" % f.name
                        if _is_hash_index(f, nd) is not None:
                            r.ok(k, f.loc(el), nontrivial=False)
                        else:
                            r.viol(k, f.name, f.loc(el), "the hash is reduced with %s instead of (size - 1): with a power-of-two table that either leaves buckets unused or indexes beyond the table" % L.text(ha[1]))
        if not defs:
            continue

        def is_def(e2, n):
            if e2["k"] == "decl":
                return any(v["n"] == n for v in e2["vars"])
            return e2["k"] == "asg" and is_var(strip(e2["e"]["l"]), n)

        def is_resize(e2):
            if e2["k"] == "asg" and (_fld(e2["e"]["l"], "size") or _fld(e2["e"]["l"], "seed")):
                return True
            return e2["k"] == "call" and e2["e"].get("callee") in resizers

        def uses_idx(e2, n):
            if e2["k"] == "decl" or e2.get("e") is None:
                return False
            for nd in walk(e2["e"]):
                if nd.get("k") == "idx" and is_var(strip(nd["i"]), n):
                    return True
                if nd.get("k") == "call" and not nd.get("ref") and any(is_var(strip(a), n) for a in nd.get("args", []) if a):
                    return True
            return False

        verdict = {}
        for n, dl in sorted(defs.items()):
            for (db, di, tbl) in dl:
                # forward search from the definition: (block, idx, stale)
                seen = set()
                work = [(db.id, di + 1, False)]
                while work:
                    bid, st, stale = work.pop()
                    blk = f.blocks[bid]
                    stop = False
                    for j in range(st, len(blk.els)):
                        e2 = blk.els[j]
                        if uses_idx(e2, n):
                            n_use += 1
                            k = "fn=%s use of %s after its definition at line %s" % (f.name, n, "%s")
                            kk = "fn=%s bucket index %s fresh at %s" % (f.name, n, render(e2.get("e"))[:60])
                            verdict[kk] = (verdict.get(kk, (False,))[0] or stale, f.loc(e2), n)
                        if is_def(e2, n):
                            stop = True
                            break
                        if is_resize(e2):
                            stale = True
                    if stop:
                        continue
                    for s2 in f.succ(bid):
                        if (s2, stale) not in seen:
                            seen.add((s2, stale))
                            work.append((s2, 0, stale))
        for kk, (stale, loc, n) in sorted(verdict.items()):
            if stale:
                r.viol(kk, f.name, loc, "the bucket index %s was computed before the table was resized (or re-seeded) and is used afterwards: the entry is filed in, or looked for in, the wrong bucket of the grown table" % n)
            else:
                r.ok(kk, loc)
    r.require(n_use >= 6, "fewer than 6 uses of a hash bucket index found")
    # size writers: power of two
    for f in sorted(funcs, key=lambda x: x.key):
        env = None
        for b, i, el in f.elements():
            if el["k"] == "asg" and _fld(el["e"]["l"], "size"):
                e = el["e"]
                k = "fn=%s size store %s" % (f.name, render(e)[:50])
                okv = False
                cvr = const_val(e.get("r"))
                if e["op"] == "<<=" and cvr is not None and cvr >= 1:
                    okv = True
                elif e["op"] == "*=" and cvr is not None and cvr > 1 and (cvr & (cvr - 1)) == 0:
                    okv = True
                elif e["op"] == "=":
                    cv = const_val(e.get("r"))
                    if cv is not None and cv > 0 and (cv & (cv - 1)) == 0:
                        okv = True
                    elif is_var(strip(e.get("r"))):
                        env = env or _single_defs(f)
                        src = env.get(strip(e["r"])["n"])
                        okv = src is not None and _fld(src, "size")
                if okv:
                    r.ok(k, f.loc(el), nontrivial=False)
                else:
                    r.viol(k, f.name, f.loc(el), "the table size is set to something that is not visibly a power of two (constant power of two, doubling, or the saved previous size): the index mask size-1 then skips buckets")


def r_hcount(prog, R):
    r = R.rule("R-C19-HCOUNT", "inserting a key that is present replaces its value in place (no second entry, count unchanged); a new key is linked and counted once; "
               "a successful removal unlinks, destroys and uncounts once; lookups and removals search the bucket the key hashes to", floor=8, analysis="must-pass-through / avoidance per success return")
    f = prog.func("ares_htable_insert", file=HT)
    isinc = lambda e2: e2["k"] == "asg" and _fld(e2["e"]["l"], "num_keys") and e2["e"]["op"] in ("++", "+=")
    isdec = lambda e2: e2["k"] == "asg" and _fld(e2["e"]["l"], "num_keys") and e2["e"]["op"] in ("--", "-=")
    iscall = lambda *names: (lambda e2: e2["k"] == "call" and e2["e"].get("callee") in names)
    rep = f.calls_to("ares_llist_node_replace")
    ins = [(b, i, c) for b, i, c in f.calls() if (c.get("callee") or "").startswith("ares_llist_insert_")]
    finds = f.calls_to("ares_htable_find")
    if not r.require(ins and finds, "ares_htable_insert: find / insert calls not found"):
        return
    mf = MustFacts(f, track_calls=True)
    if not rep:
        r.viol("insert: existing key replaced in place", f.name, f.loc(f.ln), "ares_htable_insert never replaces the value of a key that is already present: a second entry is linked, the count drifts and after a removal the older value reappears")
    # replace only for a found node, found with the same key
    for b, i, c in rep:
        node = strip(c["args"][0])
        k = "insert: existing key replaced in place"
        holder_ok = False
        for fb, fi, fc in finds:
            h = _holder(f, fb, fi, fc)
            if h and is_var(node, h):
                holder_ok = True
        nonnull = any(norm_cmp(c3, p3)[0] in ("!=", "truth") and is_var(strip(norm_cmp(c3, p3)[1]), node.get("n")) and (norm_cmp(c3, p3)[2] is None or is_null(norm_cmp(c3, p3)[2])) for c3, p3 in mf.cond_facts_at(b, i))
        after_inc = any(isinc(e2) for e2 in _els_after(f, b, i))
        after_ins = any(e2["k"] == "call" and (e2["e"].get("callee") or "").startswith("ares_llist_insert_") for e2 in _els_after(f, b, i))
        if holder_ok and nonnull and not after_inc and not after_ins:
            r.ok(k, f.loc(c["ln"]))
        else:
            why = []
            if not holder_ok or not nonnull:
                why.append("the replaced node is not the non-NULL result of the key search")
            if after_inc:
                why.append("the key count is incremented although no key was added")
            if after_ins:
                why.append("a second entry for the same key is linked as well")
            r.viol(k, f.name, f.loc(c["ln"]), "; ".join(why))
    # every TRUE return: replaced, or (inserted and counted)
    for rb, ri, rel in f.returns():
        if name_of_const(rel.get("e")) != "ARES_TRUE":
            continue
        k = "insert: success return at +%d stored the value" % (rel["ln"] - f.ln)
        k = "insert: success return stored the value (%s)" % ("replace arm" if any(rb.id == b.id for b, _, _ in rep) else "new-key arm")
        t = can_reach_from_entry_avoiding(f, rb, ri, lambda e2: iscall("ares_llist_node_replace")(e2) or (e2["k"] == "call" and (e2["e"].get("callee") or "").startswith("ares_llist_insert_")))
        if t is not None:
            r.viol(k, f.name, f.loc(rel), "ares_htable_insert reports success on a path that neither replaced nor linked the value", trail=trail_lines(f, t))
            continue
        r.ok(k, f.loc(rel))
    for b, i, c in ins:
        k = "insert: new key counted once"
        t = can_reach_exit_avoiding(f, b, i, lambda e2: isinc(e2) or (e2["k"] == "ret" and name_of_const(e2.get("e")) == "ARES_FALSE"))
        incs = [e2 for e2 in _els_after(f, b, i) if isinc(e2)]
        if t is not None:
            r.viol(k, f.name, f.loc(c["ln"]), "a new key is linked but num_keys is not incremented on a path to success: the load factor is underestimated and removal underflows the count", trail=trail_lines(f, t))
        elif len(incs) != 1:
            r.viol(k, f.name, f.loc(c["ln"]), "num_keys is incremented %d times after linking one key" % len(incs))
        else:
            r.ok(k, f.loc(c["ln"]))
        # a key not found before the insertion: the search must precede on every path
        k2 = "insert: new key linked only after the search found nothing"
        holders = [h for h in (_holder(f, fb, fi, fc) for fb, fi, fc in finds) if h]
        notfound = any(_has_null_fact(mf, b, i, h, True) for h in holders)
        if mf.passed_call(b, i, "ares_htable_find") and notfound:
            r.ok(k2, f.loc(c["ln"]))
        else:
            r.viol(k2, f.name, f.loc(c["ln"]), "a value is linked without a preceding search that found no entry for its key: a duplicate entry for a live key makes lookups return the older value after the newer one is removed")
    # search calls use the index of the very key searched for
    for g in sorted([x for x in prog.funcs.values() if x.file == HT], key=lambda x: x.key):
        for b, i, c in g.calls_to("ares_htable_find"):
            k = "fn=%s searches the bucket of the key it looks for" % g.name
            idxa, keya = strip(c["args"][1]), strip(c["args"][2])
            okv = False
            if is_var(idxa):
                for b2, i2, el in g.elements():
                    rhs = None
                    if el["k"] == "asg" and is_var(strip(el["e"]["l"]), idxa["n"]) and el["e"]["op"] == "=":
                        rhs = el["e"].get("r")
                    if el["k"] == "decl":
                        for v in el["vars"]:
                            if v["n"] == idxa["n"] and v.get("init") is not None and _hash_and(g, v["init"]) is not None:
                                rhs = v["init"]
                    ha = _hash_and(g, rhs) if rhs is not None else None
                    if ha is None:
                        continue
                    if ha[0].get("args") and L.text(ha[0]["args"][0]) == L.text(keya):
                        okv = True
            if okv:
                r.ok(k, g.loc(c["ln"]))
            else:
                r.viol(k, g.name, g.loc(c["ln"]), "the bucket searched is not selected by the hash of the key being searched for (%s)" % L.text(keya))
    # removal
    g = prog.func("ares_htable_remove", file=HT)
    for rb, ri, rel in g.returns():
        if name_of_const(rel.get("e")) != "ARES_TRUE":
            continue
        for what, pred, msg in (("uncounts", isdec, "without decrementing num_keys: the table believes it is fuller than it is and the count drifts"),
                                ("destroys the node", iscall("ares_llist_node_destroy"), "without unlinking and destroying the entry: the key stays live")):
            k = "remove: success %s" % what
            t = can_reach_from_entry_avoiding(g, rb, ri, pred)
            if t is not None:
                r.viol(k, g.name, g.loc(rel), "ares_htable_remove reports success " + msg, trail=trail_lines(g, t))
            else:
                r.ok(k, g.loc(rel))
    decs = [(b, i) for b, i, el in g.elements() if isdec(el)]
    k = "remove: key uncounted once"
    if len(decs) == 1 and not any(isdec(e2) for e2 in _els_after(g, decs[0][0], decs[0][1])):
        r.ok(k, g.loc(g.ln))
    else:
        r.viol(k, g.name, g.loc(g.ln), "num_keys is decremented %d times for one removed key" % len(decs))
    # rehash: every node taken from an old bucket is moved into buckets[idx] of the new array with idx from its own key
    e = prog.func("ares_htable_expand", file=HT)
    n_mv = 0
    for b, i, c in e.calls():
        cal = c.get("callee") or ""
        if "mvparent" in cal:
            n_mv += 1
            k = "expand: node moved to the bucket of its own key"
            dst = strip(c["args"][1])
            okv = dst is not None and dst.get("k") == "idx" and is_var(strip(dst["i"]))
            if okv:
                r.ok(k, e.loc(c["ln"]))
            else:
                r.viol(k, e.name, e.loc(c["ln"]), "a rehashed entry is not moved to new_buckets[index of its key]")
    r.require(n_mv >= 1, "ares_htable_expand: no node move found")


def _holder(f, b, i, c):
    """variable the result of call c is assigned to (the next element in the block)"""
    blk = b
    for j in range(i + 1, len(blk.els)):
        el = blk.els[j]
        if el["k"] == "asg" and el["e"]["op"] == "=":
            rr = strip(el["e"].get("r"))
            if rr is not None and rr.get("k") == "call" and rr.get("id") == c.get("id") and is_var(strip(el["e"]["l"])):
                return strip(el["e"]["l"])["n"]
        if el["k"] == "decl":
            for v in el["vars"]:
                rr = strip(v.get("init")) if v.get("init") is not None else None
                if rr is not None and rr.get("k") == "call" and rr.get("id") == c.get("id"):
                    return v["n"]
    return None


def _hash_kind(prog, f):
    """classify a hash callback of a typed table"""
    for b, i, c in f.calls():
        cal = c.get("callee") or ""
        if cal.endswith("FNV1a_casecmp"):
            return "case-insensitive string"
        if cal.endswith("FNV1a"):
            a0 = strip(c["args"][0])
            key = f.params[0]["n"]
            env = _single_defs(f)
            alias = {key} | {n for n, t in env.items() if is_var(strip(t), key)}
            ln = strip(c["args"][1])
            if a0 is not None and a0.get("k") == "un" and a0["op"] == "&" and is_var(strip(a0["e"])) and strip(a0["e"])["n"] in alias:
                return "pointer identity"
            if ln is not None and ln.get("k") == "sizeof" and is_var(a0) and a0["n"] in alias:
                of = strip(ln.get("of")) if ln.get("of") is not None else None
                if of is not None and of.get("k") == "un" and of["op"] == "*":
                    return "pointed-to value"
                return "bytes(%s)" % render(ln)
            if ln is not None and ln.get("k") == "call" and "strlen" in (ln.get("callee") or render(ln)):
                return "case-sensitive string"
            return "bytes(%s)" % render(ln)
    return None


def _eq_kind(prog, f):
    p = [x["n"] for x in f.params]
    for b, i, c in f.calls():
        cal = c.get("callee") or ""
        if cal in ("ares_strcaseeq", "strcasecmp", "ares_strcasecmp"):
            return "case-insensitive string"
        if cal in ("ares_streq", "strcmp"):
            return "case-sensitive string"
        if cal in ("memcmp",):
            return "pointed-to value"
    env = _single_defs(f)
    for b in f.blocks.values():
        br = f.branch(b)
        if not br:
            continue
        op, l, rr = norm_cmp(br[0], True)
        if op not in ("==", "!=") or rr is None:
            continue
        ls, rs = strip(l), strip(rr)
        if is_var(ls) and is_var(rs) and {ls["n"], rs["n"]} == set(p[:2]):
            return "pointer identity"
        if ls.get("k") == "un" and ls["op"] == "*" and rs.get("k") == "un" and rs["op"] == "*":
            return "pointed-to value"
    return None


def r_hasheq(prog, R):
    r = R.rule("R-C19-HASHEQ", "in every typed table the hash callback and the key-equality callback identify keys the same way (keys that compare equal hash "
               "equal), and the bucket-key callback returns the kind of key both expect", floor=6, analysis="A-TAB sibling agreement of callbacks registered together")
    n = 0
    for f in sorted(prog.funcs.values(), key=lambda x: x.key):
        if not f.file.startswith("src/lib/dsa/ares_htable_"):
            continue
        for b, i, c in f.calls_to("ares_htable_create"):
            n += 1
            names = [strip(a).get("n") if strip(a) is not None else None for a in c["args"]]
            k = "table %s hash/equality agree" % f.file.split("/")[-1].replace(".c", "")
            try:
                hf, bk, eq = (prog.func(names[0], file=f.file), prog.func(names[1], file=f.file), prog.func(names[3], file=f.file))
            except Exception:
                r.broke("%s: callbacks of ares_htable_create not resolved" % f.file)
                continue
            hk, ek = _hash_kind(prog, hf), _eq_kind(prog, eq)
            # bucket key: returns &bucket->key (pointer to value) or bucket->key (the pointer / string itself)
            bkk = None
            for rb, ri, rel in bk.returns():
                e = strip(rel.get("e"))
                if e is not None and e.get("k") == "un" and e["op"] == "&":
                    bkk = "address of the stored key"
                elif e is not None:
                    bkk = "the stored key"
            problems = []
            if hk is None or ek is None:
                r.broke("%s: hash kind %s / equality kind %s not classified" % (f.file, hk, ek))
                continue
            if hk != ek:
                problems.append("keys are hashed by %s but compared by %s: two keys that compare equal can land in different buckets, so a live key is not found (or is stored twice)" % (hk, ek))
            if (hk == "pointed-to value") != (bkk == "address of the stored key"):
                problems.append("bucket_key returns %s while the hash works on the %s" % (bkk, hk))
            if problems:
                r.viol(k, f.name, f.loc(c["ln"]), "; ".join(problems))
            else:
                r.ok(k, f.loc(c["ln"]), "%s / %s" % (hk, bkk))
    r.require(n >= 6, "fewer than 6 typed tables found")


# ------------------------------------------------------------------------------------------------------------------------------
# skip list


def r_slinks(prog, R):
    r = R.rule("R-C19-SLINKS", "skip list: a node is linked from both neighbours (or head / tail) on each of its levels, unlinked the same way, and every scan "
               "moves forward exactly while the probe sorts after the element it looks at", floor=10, analysis="paired link stores per loop body + comparator-direction table")
    push = prog.func("ares_slist_node_push", file=SL)
    pop = prog.func("ares_slist_node_pop", file=SL)
    node = push.params[1]["n"]
    lvl = None
    # the level variable: index of node->next[...] stores
    stores = {}
    for b, i, el in push.elements():
        if el["k"] == "asg" and el["e"]["op"] == "=":
            stores.setdefault(L.text(el["e"]["l"]), []).append((b, i, el))
            l = strip(el["e"]["l"])
            if l.get("k") == "idx" and _fld(l["b"], "next") and is_var(strip(strip(l["b"])["b"]), node) and is_var(strip(l["i"])):
                lvl = strip(l["i"])["n"]
    if not r.require(lvl is not None, "ares_slist_node_push: level variable not identified"):
        return
    nx, pv = "%s->next[%s]" % (node, lvl), "%s->prev[%s]" % (node, lvl)
    # arms: each store to node->next[i] belongs to an arm; in the same block there must be node->prev[i] and the inbound forward link
    arms = stores.get(nx, [])
    if not r.require(len(arms) >= 2, "ares_slist_node_push: head / chain arms not found"):
        return
    for b, i, el in arms:
        blk_stores = {L.text(e2["e"]["l"]): L.text(e2["e"].get("r")) for e2 in b.els if e2["k"] == "asg" and e2["e"]["op"] == "="}
        src = blk_stores.get(nx)
        prevv = blk_stores.get(pv)
        head_arm = src is not None and "head" in src
        k = "push: %s arm links the node from its predecessor" % ("head" if head_arm else "chain")
        problems = []
        if prevv is None:
            problems.append("%s is not set" % pv)
        elif head_arm:
            if prevv not in ("NULL", "0", "((void*)0)") and not is_null_text(prevv):
                problems.append("%s = %s for a node placed at the head" % (pv, prevv))
            inbound = [t for t, v in blk_stores.items() if "head[" in t and v == node]
            if not inbound or inbound[0] != src:
                problems.append("the head of this level is not set to the new node (it was read from %s)" % src)
        else:
            left = prevv
            if src != "%s->next[%s]" % (left, lvl):
                problems.append("the node's successor is %s, not its predecessor's old successor %s->next[%s]" % (src, left, lvl))
            if blk_stores.get("%s->next[%s]" % (left, lvl)) != node:
                problems.append("%s->next[%s] is not set to the new node" % (left, lvl))
        if problems:
            r.viol(k, push.name, push.loc(el), "; ".join(problems) + ": forward and backward traversal of this level disagree")
        else:
            r.ok(k, push.loc(el))
    # successor's back link and tail
    k = "push: successor points back at the node, tail updated on level 0"
    back = stores.get("%s->prev[%s]" % (nx, lvl), [])
    tail = [s for t, ss in stores.items() if t.endswith("->tail") for s in ss]
    mfp = MustFacts(push, track_calls=False)
    okb = any(L.text(el["e"].get("r")) == node and _has_null_fact(mfp, b, i, nx, False) for b, i, el in back)
    okt = any(L.text(el["e"].get("r")) == node and _has_null_fact(mfp, b, i, nx, True) and _has_const_fact(mfp, b, i, lvl, 0) for b, i, el in tail)
    # both must be reached from every arm: the test on node->next[i] follows the arms unconditionally
    if okb and okt:
        r.ok(k, push.loc(push.ln))
    else:
        r.viol(k, push.name, push.loc(push.ln), ("the successor's prev link is not set to the new node when there is a successor" if not okb else "list->tail is not set to the new node when it has no successor on level 0") + ": backward traversal / last() miss the node")
    # every level below node->levels is linked: the only skip in the loop is `i >= node->levels`
    k = "push: every level of the node is linked"
    skip_ok = False
    for b in push.blocks.values():
        br = push.branch(b)
        if br:
            op, l, rr = norm_cmp(br[0], True)
            if rr is not None and L.text(l) == lvl and L.text(rr) == "%s->levels" % node and op == ">=":
                skip_ok = True
            if rr is not None and L.text(l) == lvl and L.text(rr) == "%s->levels" % node and op in (">", "<=", "=="):
                skip_ok = None
    if skip_ok:
        r.ok(k, push.loc(push.ln))
    else:
        r.viol(k, push.name, push.loc(push.ln), "the levels a node is linked on are not exactly those below node->levels (test `%s >= %s->levels` not found as written)" % (lvl, node))
    # pop: symmetric unlink
    pn = pop.params[0]["n"]
    pst = {}
    for b, i, el in pop.elements():
        if el["k"] == "asg" and el["e"]["op"] == "=":
            pst.setdefault(L.text(el["e"]["l"]), []).append((b, i, el))
    plv = None
    for t in pst:
        if t.startswith("%s->next[" % pn) and "->prev[" in t:
            plv = t.split("[")[1].split("]")[0]
    if not r.require(plv is not None, "ares_slist_node_pop: level variable not identified"):
        return
    pnx, ppv = "%s->next[%s]" % (pn, plv), "%s->prev[%s]" % (pn, plv)
    mf = MustFacts(pop, track_calls=False)
    want = [
        ("pop: successor's back link bypasses the node", "%s->prev[%s]" % (pnx, plv), ppv, (pnx, False)),
        ("pop: predecessor's forward link bypasses the node", "%s->next[%s]" % (ppv, plv), pnx, (ppv, False)),
    ]
    for k, lhs, rhs, (gv, isnull) in want:
        hit = [(b, i, el) for b, i, el in pst.get(lhs, []) if L.text(el["e"].get("r")) == rhs and _has_null_fact(mf, b, i, gv, isnull)]
        if hit:
            r.ok(k, pop.loc(hit[0][2]))
        else:
            r.viol(k, pop.name, pop.loc(pop.ln), "%s = %s (when %s is not NULL) not found: the removed node stays reachable from a neighbour" % (lhs, rhs, gv))
    k = "pop: head of the level moves to the successor when the node was first"
    hit = [(b, i, el) for t, ss in pst.items() if "head[" in t for b, i, el in ss if L.text(el["e"].get("r")) == pnx and _has_null_fact(mf, b, i, ppv, True)]
    (r.ok(k, pop.loc(hit[0][2])) if hit else r.viol(k, pop.name, pop.loc(pop.ln), "list->head[level] = %s (when %s is NULL) not found: the removed node stays the head of a level" % (pnx, ppv)))
    k = "pop: tail moves to the predecessor when the node was last"
    hit = [(b, i, el) for t, ss in pst.items() if t.endswith("->tail") for b, i, el in ss if L.text(el["e"].get("r")) in ("%s->prev[0]" % pn, ppv) and _has_null_fact(mf, b, i, pnx, True) and _has_const_fact(mf, b, i, plv, 0)]
    (r.ok(k, pop.loc(hit[0][2])) if hit else r.viol(k, pop.name, pop.loc(pop.ln), "list->tail = %s->prev[0] (when the node has no successor on level 0) not found: last() returns a removed node" % pn))
    # comparator direction table
    n_cmp = 0
    for f in sorted([x for x in prog.funcs.values() if x.file == SL], key=lambda x: x.key):
        for b in f.blocks.values():
            br = f.branch(b)
            if not br:
                continue
            for c, p in atoms(br[0], True):
                op, l, rr = norm_cmp(c, p)
                ls = strip(l)
                cc = None
                if ls is not None and ls.get("k") == "call":
                    cc = f.call_by_id(ls.get("id"))[2] if ls.get("ref") else ls
                elif is_var(ls):
                    # rv = list->cmp(...)
                    for b2, i2, el in f.elements():
                        if el["k"] == "asg" and is_var(strip(el["e"]["l"]), ls["n"]) and strip(el["e"].get("r")) is not None and strip(el["e"]["r"]).get("k") == "call":
                            cr = strip(el["e"]["r"])
                            cc = f.call_by_id(cr.get("id"))[2] if cr.get("ref") else cr
                if cc is None or cc.get("callee") or not cc.get("fnx") or not _fld(cc["fnx"] if cc["fnx"].get("k") != "un" else cc["fnx"]["e"], "cmp"):
                    continue
                if rr is None or const_val(rr) != 0 or op not in (">", "<", ">=", "<="):
                    continue
                ts = f.blocks.get(br[1])
                adv = None
                a0, a1 = L.text(cc["args"][0]), L.text(cc["args"][1])
                advv = None
                if adv is None and op in (">", "<", ">=", "<="):
                    # a test that is a loop condition: the body (true edge, through empty blocks) advances
                    blk2 = f.blocks.get(br[1])
                    while blk2 is not None and not blk2.els and len([x for x in blk2.succs if x is not None]) == 1:
                        blk2 = f.blocks.get([x for x in blk2.succs if x is not None][0])
                    ts = blk2
                if ts is not None:
                    for e2 in ts.els:
                        if e2["k"] == "asg" and e2["e"]["op"] == "=" and is_var(strip(e2["e"]["l"])):
                            rt = L.text(e2["e"].get("r"))
                            v = strip(e2["e"]["l"])["n"]
                            if rt.startswith(v + "->next[") or "head[" in rt:
                                adv, advv = "forward", v
                            elif rt.startswith(v + "->prev["):
                                adv, advv = "backward", v
                if adv is None:
                    continue
                is_elem = lambda t: t.startswith(advv + "->") or "head[" in t
                if is_elem(a0) == is_elem(a1):
                    continue
                n_cmp += 1
                k = "fn=%s scan %s on cmp(%s, %s) %s 0" % (f.name, adv, a0, a1, op)
                sign = {">": 1, ">=": 1, "<": -1, "<=": -1}[op]
                if is_elem(a0):
                    sign = -sign      # cmp(element, probe) > 0  <=>  probe sorts before the element
                good = (adv == "forward" and sign > 0) or (adv == "backward" and sign < 0)
                loc = f.loc(b.term.get("ln", f.ln)) if b.term else f.loc(f.ln)
                if good:
                    r.ok(k, loc)
                else:
                    r.viol(k, f.name, loc, "the scan moves %s when cmp(%s, %s) %s 0: in an ascending list the cursor moves forward only while the probe sorts after the element it looks at (backward only while before); the list is no longer kept / searched in sorted order" % (adv, a0, a1, op))
    r.require(n_cmp >= 3, "fewer than 3 comparator-directed scans found in ares_slist.c (found %d)" % n_cmp)


def is_null_text(t):
    return t in ("NULL", "0", "((void *)0)", "((void*)0)", "(void *)0")


def _has_null_fact(mf, b, i, txt, isnull):
    for c, p in mf.cond_facts_at(b, i):
        op, l, r = norm_cmp(c, p)
        if L.text(l) != txt:
            continue
        if r is None:
            if (op == "truth") == (not isnull):
                return True
        elif is_null(r):
            if (op == "==") == isnull and op in ("==", "!="):
                return True
    return False


def _has_const_fact(mf, b, i, txt, val):
    for c, p in mf.cond_facts_at(b, i):
        op, l, r = norm_cmp(c, p)
        if r is not None and L.text(l) == txt and const_val(r) == val and op == "==":
            return True
    return False


def r_append_finish(prog, R, rid):
    """the two-phase append (start hands out room, the caller writes, finish accounts): finish accounts every length start can hand out"""
    r = R.rule(rid, "ares_buf_append_finish() accounts exactly the bytes the caller wrote into the room ares_buf_append_start() handed out: it adds the length on every "
               "path with a buffer (no other guard), and start never offers more than allocation - data - 1", floor=2, analysis="exit vocabulary of the accounting function + linear form of the offered length")
    fin = prog.func("ares_buf_append_finish", file="src/lib/str/ares_buf.c")
    buf = fin.params[0]["n"]
    mf = MustFacts(fin, track_calls=False)
    adds = [(b, i, el) for b, i, el in fin.elements() if el["k"] == "asg" and _fld(el["e"]["l"], "data_len") and el["e"]["op"] == "+=" and is_var(strip(el["e"].get("r")), fin.params[1]["n"])]
    k = "append_finish adds the length whenever it has a buffer"
    if not adds:
        r.viol(k, fin.name, fin.loc(fin.ln), "ares_buf_append_finish does not add '%s' to data_len" % fin.params[1]["n"])
    else:
        ab, ai, ael = adds[0]
        bad = None
        seen, work = set(), [(fin.entry, [fin.entry])]
        while work and bad is None:
            bid, trail = work.pop()
            blk = fin.blocks[bid]
            if any(e2 is ael for e2 in blk.els):
                continue
            br = fin.branch(blk)
            for s2 in fin.succ(bid):
                if br and br[1] != br[2]:
                    pol = (br[1] == s2)
                    if any(is_var(strip(norm_cmp(c3, p3)[1]), buf) and ((norm_cmp(c3, p3)[0] == "==" and norm_cmp(c3, p3)[2] is not None and is_null(norm_cmp(c3, p3)[2])) or norm_cmp(c3, p3)[0] == "false") for c3, p3 in atoms(br[0], pol)):
                        continue         # no buffer: nothing to account
                if s2 == fin.exit:
                    bad = trail
                elif s2 not in seen:
                    seen.add(s2)
                    work.append((s2, trail + [s2]))
        if bad is not None:
            r.viol(k, fin.name, fin.loc(ael), "ares_buf_append_finish can return without accounting the bytes the caller wrote (a further guard on the length): a read that fills exactly the room that was handed out is silently dropped, the stream loses those bytes and every later frame is misaligned", trail=trail_lines(fin, bad))
        else:
            r.ok(k, fin.loc(ael))
    st = prog.func("ares_buf_append_start", file="src/lib/str/ares_buf.c")
    k = "append_start offers allocation - data - 1"
    okv = False
    for b, i, el in st.elements():
        if el["k"] == "asg" and el["e"]["op"] == "=":
            l = strip(el["e"]["l"])
            if l is not None and l.get("k") == "un" and l["op"] == "*" and is_var(strip(l["e"]), st.params[1]["n"]):
                d = L.lin(el["e"].get("r"))
                b0 = st.params[0]["n"]
                if {a: v for a, v in d.items() if v} == {"%s->alloc_buf_len" % b0: 1, "%s->data_len" % b0: -1, "": -1}:
                    okv = True
    if okv:
        r.ok(k, st.loc(st.ln))
    else:
        r.viol(k, st.name, st.loc(st.ln), "the room reported by ares_buf_append_start is not alloc_buf_len - data_len - 1: the caller may write past the allocation (or the NUL slot)")
