"""Linear normal form of integer index expressions taken from the extracted trees.

lin(e) -> {atom_text: coefficient, "": constant}.  '+', '-', unary '-', multiplication by a constant and explicit casts are
interpreted; every other sub-expression (member access, call, product of two non-constants ...) is an opaque atom identified by its
canonical text WITHOUT macro folding.  Used for rules of the form "the destination index is exactly one more than the source index":
an algebraic statement about the program text, not an execution of it.  Wrap-around is not modelled (callers say so)."""
from core import strip, const_val


def text(e):
    """canonical text that ignores macro provenance and casts"""
    e = strip(e)
    if e is None:
        return "<none>"
    k = e.get("k")
    if k in ("var", "fn", "enum"):
        return e["n"]
    if k == "int":
        return str(e.get("v"))
    if k == "mem":
        return text(e["b"]) + ("->" if e["arrow"] else ".") + e["f"]
    if k == "un":
        return e["op"] + "(" + text(e["e"]) + ")"
    if k == "bin":
        return "(" + text(e["l"]) + e["op"] + text(e["r"]) + ")"
    if k == "idx":
        return text(e["b"]) + "[" + text(e["i"]) + "]"
    if k == "cond":
        return "(" + text(e["c"]) + "?" + text(e["t"]) + ":" + text(e["f"]) + ")"
    if k == "call":
        name = e.get("callee") or ("(*" + (text(e["fnx"]) if e.get("fnx") else "ind") + ")")
        if e.get("ref"):
            return name + "#%s" % e.get("id")
        return name + "(" + ",".join(text(a) for a in e.get("args", [])) + ")"
    if k == "sizeof":
        return "sizeof(" + (text(e["of"]) if e.get("of") else e.get("oft", "?")) + ")"
    return "<%s>" % e.get("cls", k)


def _add(a, b, s=1):
    out = dict(a)
    for k, v in b.items():
        out[k] = out.get(k, 0) + s * v
        if out[k] == 0 and k != "":
            del out[k]
    out.setdefault("", 0)
    return out


def _scale(a, c):
    return {k: v * c for k, v in a.items() if v * c != 0 or k == ""}


def lin(e, env=None):
    """env: optional {variable name: tree} substituted for plain variables (single reaching definitions supplied by the caller)"""
    e = strip(e)
    if e is None:
        return {"": 0, "<none>": 1}
    k = e.get("k")
    cv = const_val(e)
    if cv is not None and isinstance(cv, int):
        return {"": cv}
    if k == "var" and env and e["n"] in env:
        return lin(env[e["n"]], {n: t for n, t in env.items() if n != e["n"]})
    if k == "bin" and e["op"] in ("+", "-"):
        return _add(lin(e["l"], env), lin(e["r"], env), 1 if e["op"] == "+" else -1)
    if k == "un" and e["op"] == "-":
        return _scale(lin(e["e"], env), -1)
    if k == "un" and e["op"] == "+":
        return lin(e["e"], env)
    if k == "bin" and e["op"] == "*":
        l, r = lin(e["l"], env), lin(e["r"], env)
        if set(l) == {""}:
            return _scale(r, l[""]) if l[""] != 0 else {"": 0}
        if set(r) == {""}:
            return _scale(l, r[""]) if r[""] != 0 else {"": 0}
        # product of two non-constant terms: distribute when one side is a single atom so that (a+b)*m == a*m + b*m compare equal
        if len([x for x in r if x != "" or r[x]]) == 1 and r.get("", 0) == 0:
            (ra, rc), = [(x, v) for x, v in r.items() if x != ""]
            out = {"": 0}
            for x, v in l.items():
                if v == 0:
                    continue
                name = ra if x == "" else "*".join(sorted([x, ra]))
                out[name] = out.get(name, 0) + v * rc
            return out
        if len([x for x in l if x != "" or l[x]]) == 1 and l.get("", 0) == 0:
            return lin({"k": "bin", "op": "*", "l": e["r"], "r": e["l"]}, env)
    return {"": 0, text(e): 1}


def diff(a, b, env=None):
    """lin(a) - lin(b) with zero entries removed"""
    d = _add(lin(a, env), lin(b, env), -1)
    return {k: v for k, v in d.items() if v != 0}


def equal(a, b, env=None):
    return diff(a, b, env) == {}


def show(d):
    if not d:
        return "0"
    parts = []
    for k in sorted(d, key=lambda x: (x == "", x)):
        v = d[k]
        parts.append(("%+d" % v) if k == "" else ("%+d*%s" % (v, k) if abs(v) != 1 else ("+" if v > 0 else "-") + k))
    return " ".join(parts)
