"""M1/M2: call graph with slot-resolved indirect calls and the MAY_COMPLETE effect.

MAY_COMPLETE(f): executing f may run a user completion callback (one of the five request callback
types), during which the application may start new requests or call ares_cancel().
"""
from lib import *  # noqa

COMPLETION_TYPES = ("ares_callback", "ares_callback_dnsrec", "ares_host_callback", "ares_nameinfo_callback", "ares_addrinfo_callback")

# generic container / buffer code: their indirect calls go through per-instance destructor/comparator slots
# and are resolved per container instance below, not by type
GENERIC_FILES = ("src/lib/dsa/", "src/lib/str/", "src/lib/util/")

DESTROY_PRIMS = {
    "ares_slist_node_destroy", "ares_slist_destroy", "ares_llist_node_destroy", "ares_llist_destroy", "ares_llist_clear",
    "ares_htable_szvp_remove", "ares_htable_szvp_destroy", "ares_htable_asvp_remove", "ares_htable_asvp_destroy",
    "ares_htable_strvp_remove", "ares_htable_strvp_destroy", "ares_htable_strvp_insert", "ares_htable_szvp_insert",
    "ares_htable_asvp_insert", "ares_array_destroy", "ares_array_remove_at", "ares_array_remove_first", "ares_array_remove_last",
    "ares_htable_vpvp_remove", "ares_htable_vpvp_destroy", "ares_htable_dict_destroy", "ares_htable_vpstr_destroy",
}

# frozen: a call has the effect only when its precondition can hold (one line of reason each)
EFFECT_PRECONDITIONS = {
    # callee: (description, predicate(facts) -> True when the effect is excluded at this site)
    "ares_close_connection": "completes callbacks only through ares_requeue_queries(), i.e. only if conn->queries_to_conn is non-empty",
}


class Effects:
    def __init__(self, prog):
        self.prog = prog
        self.container_destructors = {}   # (record, field) -> [Func]
        self._find_container_instances()
        self.direct = {}
        self.why = {}
        self._compute()

    # ---- container instances: X = *_create(..., destructor) ----
    def _find_container_instances(self):
        prog = self.prog
        for f in prog.funcs.values():
            for b, i, el in f.elements():
                if el["k"] != "asg" or el["e"]["op"] != "=":
                    continue
                rhs = strip(el["e"].get("r"))
                if rhs is None or rhs.get("k") != "call" or not (rhs.get("callee") or "").endswith("_create"):
                    continue
                lhs = strip(el["e"]["l"])
                if lhs.get("k") != "mem":
                    continue
                full = f.call_by_id(rhs["id"])
                if not full:
                    continue
                fns = []
                for a in full[2].get("args", []):
                    a2 = strip(a)
                    if a2 is not None and a2.get("k") == "fn":
                        t = prog.by_name.get(a2["n"])
                        if t:
                            tt = [x for x in t if f.tu in x.tus] or t
                            fns.append(tt[0])
                if fns:
                    self.container_destructors.setdefault((lhs["rec"], lhs["f"]), []).extend(fns)

    def is_completion_call(self, c):
        if c.get("callee"):
            return False
        tw = c.get("fntyw", "")
        return any(tw == t or tw.startswith(t + " ") for t in COMPLETION_TYPES)

    def _compute(self):
        prog = self.prog
        may = {}
        why = {}
        for f in prog.funcs.values():
            for b, i, c in f.calls():
                if self.is_completion_call(c):
                    may[f.key] = True
                    why[f.key] = "invokes a completion callback at %s" % f.loc(c["ln"])
                    break
        changed = True
        while changed:
            changed = False
            for f in prog.funcs.values():
                if may.get(f.key):
                    continue
                if any(f.file.startswith(g) for g in GENERIC_FILES):
                    continue
                for b, i, c in f.calls():
                    t = prog.resolve(f, c)
                    if t is not None and may.get(t.key):
                        may[f.key] = True
                        why[f.key] = "calls %s at %s" % (t.name, f.loc(c["ln"]))
                        changed = True
                        break
                    if c.get("callee") in DESTROY_PRIMS and self._destroys_effectful(f, c, may):
                        may[f.key] = True
                        why[f.key] = "destroys an element of a container whose destructor may complete requests, at %s" % f.loc(c["ln"])
                        changed = True
                        break
        self.may = may
        self.why = why

    def _destroys_effectful(self, f, c, may):
        """does this container-destroy primitive act on a container instance whose destructor MAY_COMPLETE?"""
        fields = self._container_fields_of_call(f, c)
        for key in fields:
            for d in self.container_destructors.get(key, []):
                if may.get(d.key):
                    return True
        return False

    def _container_fields_of_call(self, f, c):
        """(record, field) container instances an argument of c refers to, directly or via a node variable."""
        out = set()
        for a in c.get("args", []):
            for n in walk(a):
                if n.get("k") == "mem":
                    out.add((n["rec"], n["f"]))
                elif n.get("k") == "var" and n.get("vk") in ("local", "param"):
                    out |= self._var_container_sources(f, n["n"])
        return out

    def _var_container_sources(self, f, name, depth=0):
        """container fields that appear in the calls a node variable was assigned from"""
        out = set()
        if depth > 2:
            return out
        for b, i, el in f.elements():
            rhs = None
            if el["k"] == "asg" and path(el["e"]["l"]) == name and el["e"]["op"] == "=":
                rhs = el["e"].get("r")
            elif el["k"] == "decl":
                for v in el["vars"]:
                    if v["n"] == name and v.get("init") is not None:
                        rhs = v["init"]
            if rhs is None:
                continue
            r0 = strip(rhs)
            if r0 is not None and r0.get("k") == "mem" and r0.get("rec"):
                out.add((r0["rec"], r0["f"]))     # a local alias of the container itself (list_copy = channel->all_queries)
            for r2 in walk(rhs):
                if r2.get("k") == "call" and r2.get("id") is not None:
                    full = f.call_by_id(r2["id"])
                    if full:
                        for a in full[2].get("args", []):
                            for n in walk(a):
                                if n.get("k") == "mem":
                                    out.add((n["rec"], n["f"]))
                                elif n.get("k") == "var" and n["n"] != name:
                                    out |= self._var_container_sources(f, n["n"], depth + 1)
                elif r2.get("k") == "var" and r2["n"] != name and r2.get("vk") in ("local", "param") and r2 is not strip(rhs):
                    pass
        return out

    # ---- queries ----
    def call_may_complete(self, f, c):
        """does executing call node c (inside f) possibly run a user completion callback?"""
        if self.is_completion_call(c):
            return True
        t = self.prog.resolve(f, c)
        if t is not None:
            return bool(self.may.get(t.key))
        if c.get("callee") in DESTROY_PRIMS:
            return self._destroys_effectful(f, c, self.may)
        return False

    def func_may_complete(self, f):
        return bool(self.may.get(f.key))
