"""Exact evaluation of an extracted expression tree over a finite input domain.

Used for table-shaped facts only: a pure integer expression over one or two small inputs (a byte, the 32 single-bit
values of a word) is evaluated for every element of that domain with C semantics (integer promotion, truncation on
casts and on the declared type of the expression).  The program is not run; the expression tree comes from the
extractor.  Unknown constructs raise Unknown so that a rule reports 'not recognised' instead of guessing."""
from lib import *  # noqa


class Unknown(Exception):
    pass


def _wrap(v, ty):
    ty = (ty or "").replace("const ", "").replace("volatile ", "").strip()
    b = type_bits(ty)
    if b is None:
        return v
    v &= (1 << b) - 1
    if not ty.startswith("unsigned") and v >= (1 << (b - 1)):
        v -= (1 << b)
    return v


def ev(e, env):
    """env: {var name: int}"""
    if e is None:
        raise Unknown("empty")
    k = e.get("k")
    if k == "int":
        if "v" in e:
            return e["v"]
        if "vs" in e:               # constants beyond 2^63 are carried as text (SIZE_MAX)
            return int(e["vs"])
        raise Unknown("integer constant without a value")
    if k == "enum":
        return e["v"]
    if k == "sizeof" and e.get("v") is not None:
        return e["v"]
    if k == "var":
        if e["n"] in env:
            if isinstance(env[e["n"]], (bytes, bytearray)):
                raise Unknown("string used as a number")
            return _wrap(env[e["n"]], e.get("ty"))
        raise Unknown("free variable %s" % e["n"])
    if k == "cast":
        return _wrap(ev(e["e"], env), e.get("to") or e.get("ty"))
    if k == "idx":
        b0 = strip(e["b"])
        if b0 is not None and b0.get("k") == "var" and isinstance(env.get(b0["n"]), (bytes, bytearray)):
            ix = ev(e["i"], env)
            buf = env[b0["n"]]
            if 0 <= ix < len(buf):
                return buf[ix]
            if ix == len(buf):
                return 0
            raise Unknown("index %d outside the modelled string" % ix)
        raise Unknown("indexing of something that is not a modelled string")
    if k == "un":
        v = ev(e["e"], env)
        if e["op"] == "-":
            return _wrap(-v, e.get("ty"))
        if e["op"] == "~":
            return _wrap(~v, e.get("ty"))
        if e["op"] == "!":
            return 0 if v else 1
        if e["op"] == "+":
            return v
        raise Unknown("unary %s" % e["op"])
    if k == "bin":
        op = e["op"]
        a = ev(e["l"], env)
        if op == "&&":
            return 1 if (a and ev(e["r"], env)) else 0
        if op == "||":
            return 1 if (a or ev(e["r"], env)) else 0
        b = ev(e["r"], env)
        ty = e.get("ty")
        if op == "+":
            return _wrap(a + b, ty)
        if op == "-":
            return _wrap(a - b, ty)
        if op == "*":
            return _wrap(a * b, ty)
        if op == "/":
            if b == 0:
                raise Unknown("division by zero")
            q = abs(a) // abs(b)
            return _wrap(q if (a >= 0) == (b >= 0) else -q, ty)
        if op == "%":
            if b == 0:
                raise Unknown("modulo by zero")
            q = abs(a) % abs(b)
            return _wrap(q if a >= 0 else -q, ty)
        if op == "<<":
            return _wrap(a << b, ty)
        if op == ">>":
            return _wrap(a >> b, ty)
        if op == "&":
            return _wrap(a & b, ty)
        if op == "|":
            return _wrap(a | b, ty)
        if op == "^":
            return _wrap(a ^ b, ty)
        if op in ("==", "!=", "<", "<=", ">", ">="):
            return 1 if {"==": a == b, "!=": a != b, "<": a < b, "<=": a <= b, ">": a > b, ">=": a >= b}[op] else 0
        raise Unknown("binary %s" % op)
    if k == "cond":
        return ev(e["t"], env) if ev(e["c"], env) else ev(e["f"], env)
    if k == "call" and e.get("callee") and (e["callee"] + "()") in env:
        # the caller of ev() supplies the result of a named callee as an input of the finite domain
        return _wrap(env[e["callee"] + "()"], e.get("ty"))
    raise Unknown("node %s" % k)


def bitmap(e, var, width=32):
    """for an expression that is a composition of shifts/masks/ors of `var`: the image of every single input bit, and of 0.
    Returns (zero_image, [image of bit i for i in range(width)])"""
    z = ev(e, {var: 0})
    return z, [ev(e, {var: 1 << i}) for i in range(width)]


def _leafify(e):
    """member accesses / dereferences become variables named by their canonical text, so that ev() can be used on conditions over fields"""
    if e is None or not isinstance(e, dict):
        return e
    k = e.get("k")
    if k == "mem" or (k == "un" and e.get("op") == "*"):
        return {"k": "var", "n": render(strip(e)), "ty": e.get("ty")}
    out = dict(e)
    for key in ("e", "l", "r", "c", "t", "f", "b", "i"):
        if isinstance(out.get(key), dict):
            out[key] = _leafify(out[key])
    return out


def run_cfg(func, env, start=None, max_steps=64, stop_at=None, start_idx=0, out=None):
    """see _run_cfg; `start_idx` skips the first elements of the start block, `out` (a dict) receives the environment at the point
    where the walk ended."""
    env = dict(env)
    try:
        return _run_cfg(func, env, start, max_steps, stop_at, start_idx)
    finally:
        if out is not None:
            out.clear()
            out.update(env)


def _run_cfg(func, env, start=None, max_steps=64, stop_at=None, start_idx=0):
    """follow the CFG of a side-effect-free fragment from block `start` (default: entry) with every branch condition decided by `env`
    (names: variables and canonical member texts).  Stops at the first return (-> ('ret', element)) or at the first condition that
    mentions something outside env or contains a call (-> ('open', block id)).  Assignments of constants to variables in env are
    interpreted; any other element that writes a name in env raises Unknown."""
    bid = func.entry if start is None else start
    steps = 0
    while steps < max_steps:
        steps += 1
        blk = func.blocks[bid]
        for ei, el in enumerate(blk.els):
            if steps == 1 and ei < start_idx:
                continue
            if stop_at and (bid, ei) in stop_at:
                return ("stop", (bid, ei))
            if el["k"] == "ret":
                return ("ret", el)
            if el["k"] == "decl":
                for v in el["vars"]:
                    if v["n"] in env and v.get("init") is not None:
                        try:
                            env[v["n"]] = ev(_leafify(v["init"]), env)
                        except Unknown:
                            raise Unknown("initialiser of %s not interpretable" % v["n"])
            if el["k"] == "asg":
                tgt = render(strip(el["e"]["l"]))
                if tgt in env:
                    if el["e"]["op"] in ("++", "--"):
                        env[tgt] = env[tgt] + (1 if el["e"]["op"] == "++" else -1)
                        continue
                    if el["e"]["op"] == "=":
                        try:
                            env[tgt] = ev(_leafify(el["e"].get("r")), env)
                        except Unknown:
                            raise Unknown("assignment to %s not interpretable" % tgt)
                    elif el["e"]["op"] in ("+=", "-=", "*=", "|=", "&=", "<<=", ">>=") and not isinstance(env[tgt], (bytes, bytearray)):
                        try:
                            rv = ev(_leafify(el["e"].get("r")), env)
                        except Unknown:
                            raise Unknown("assignment to %s not interpretable" % tgt)
                        a, o = env[tgt], el["e"]["op"][:-1]
                        env[tgt] = _wrap({"+": a + rv, "-": a - rv, "*": a * rv, "|": a | rv, "&": a & rv, "<<": a << rv, ">>": a >> rv}[o], el["e"].get("ty"))
                    else:
                        raise Unknown("compound assignment to %s" % tgt)
        sc = func.switch_cases(blk)
        if sc is not None:
            try:
                v = ev(_leafify(strip(blk.term["switch"])), env)
                target, dflt = None, None
                for s_, vals in sc:
                    if isinstance(vals, list):
                        lo, hi = ev(vals[0], env), ev(vals[-1], env)
                        if lo <= v <= hi:
                            target = s_
                    else:
                        dflt = s_
            except Unknown:
                return ("open", bid)
            bid = target if target is not None else dflt
            if bid is None:
                return ("open", blk.id)
            continue
        br = func.branch(blk)
        if br:
            try:
                v = ev(_leafify(strip(br[0])), env)
            except Unknown:
                return ("open", bid)
            bid = br[1] if v else br[2]
            if bid is None:
                return ("open", blk.id)
            continue
        nxt = [x for x in blk.succs if x is not None]
        if len(nxt) != 1:
            return ("open", bid)
        bid = nxt[0]
    raise Unknown("fragment does not terminate within %d steps" % max_steps)
