"""Exact evaluation of an extracted expression tree over a finite input domain.

Used for table-shaped facts only: a pure integer expression over one or two small inputs (a byte, the 32 single-bit
values of a word) is evaluated for every element of that domain with C semantics (integer promotion, truncation on
casts and on the declared type of the expression).  The program is not run; the expression tree comes from the
extractor.  Unknown constructs raise Unknown so that a rule reports 'not recognised' instead of guessing."""
from lib import *  # noqa


class Unknown(Exception):
    pass


def _wrap(v, ty):
    ty = (ty or "").replace("const ", "").replace("volatile ", "").strip()
    b = type_bits(ty)
    if b is None:
        return v
    v &= (1 << b) - 1
    if not ty.startswith("unsigned") and v >= (1 << (b - 1)):
        v -= (1 << b)
    return v


def ev(e, env):
    """env: {var name: int}"""
    if e is None:
        raise Unknown("empty")
    k = e.get("k")
    if k == "int":
        return e["v"]
    if k == "enum":
        return e["v"]
    if k == "sizeof" and e.get("v") is not None:
        return e["v"]
    if k == "var":
        if e["n"] in env:
            return _wrap(env[e["n"]], e.get("ty"))
        raise Unknown("free variable %s" % e["n"])
    if k == "cast":
        return _wrap(ev(e["e"], env), e.get("to") or e.get("ty"))
    if k == "un":
        v = ev(e["e"], env)
        if e["op"] == "-":
            return _wrap(-v, e.get("ty"))
        if e["op"] == "~":
            return _wrap(~v, e.get("ty"))
        if e["op"] == "!":
            return 0 if v else 1
        if e["op"] == "+":
            return v
        raise Unknown("unary %s" % e["op"])
    if k == "bin":
        op = e["op"]
        a = ev(e["l"], env)
        if op == "&&":
            return 1 if (a and ev(e["r"], env)) else 0
        if op == "||":
            return 1 if (a or ev(e["r"], env)) else 0
        b = ev(e["r"], env)
        ty = e.get("ty")
        if op == "+":
            return _wrap(a + b, ty)
        if op == "-":
            return _wrap(a - b, ty)
        if op == "*":
            return _wrap(a * b, ty)
        if op == "/":
            if b == 0:
                raise Unknown("division by zero")
            q = abs(a) // abs(b)
            return _wrap(q if (a >= 0) == (b >= 0) else -q, ty)
        if op == "%":
            if b == 0:
                raise Unknown("modulo by zero")
            q = abs(a) % abs(b)
            return _wrap(q if a >= 0 else -q, ty)
        if op == "<<":
            return _wrap(a << b, ty)
        if op == ">>":
            return _wrap(a >> b, ty)
        if op == "&":
            return _wrap(a & b, ty)
        if op == "|":
            return _wrap(a | b, ty)
        if op == "^":
            return _wrap(a ^ b, ty)
        if op in ("==", "!=", "<", "<=", ">", ">="):
            return 1 if {"==": a == b, "!=": a != b, "<": a < b, "<=": a <= b, ">": a > b, ">=": a >= b}[op] else 0
        raise Unknown("binary %s" % op)
    if k == "cond":
        return ev(e["t"], env) if ev(e["c"], env) else ev(e["f"], env)
    raise Unknown("node %s" % k)


def bitmap(e, var, width=32):
    """for an expression that is a composition of shifts/masks/ors of `var`: the image of every single input bit, and of 0.
    Returns (zero_image, [image of bit i for i in range(width)])"""
    z = ev(e, {var: 0})
    return z, [ev(e, {var: 1 << i}) for i in range(width)]
