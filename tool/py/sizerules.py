"""ELEMSIZE: where a block of memory is sized as  n * sizeof(X)  (allocation, memcpy/memmove/memset), X is the element type of the destination.
The classic slip -- sizeof(pointer) where sizeof(*pointer) was meant -- copies or allocates a fraction of the array and leaves the rest
uninitialised (or writes past the end when the mistaken type is the larger one).  Decided on types as the compiler resolved them; byte
destinations (char/unsigned char/void) are skipped because there sizeof legitimately names the source object."""
from lib import *  # noqa

ALLOC = ("ares_malloc", "ares_malloc_zero", "ares_realloc", "ares_realloc_zero")
COPY = ("memcpy", "memmove", "memset")
BYTE = ("char", "unsigned char", "signed char", "void", "uint8_t")
# pairs of different spelling and identical layout, confirmed by reading
SAME = {frozenset(("struct in6_addr", "unsigned char[16]")), frozenset(("struct ares_in6_addr", "unsigned char[16]")), frozenset(("struct in6_addr", "struct ares_in6_addr"))}


def _norm(t):
    return (t or "").replace("const ", "").replace("volatile ", "").strip()


def _elem(t):
    """element type a pointer / array-pointer / array destination holds; (elem, whole) -- `whole` set when the destination is an object taken as one"""
    t = _norm(t)
    if "(*)" in t:
        return None, t.replace("(*)", "").replace("  ", " ").replace(" [", "[").strip()
    if t.endswith("*"):
        return t[:-1].strip(), None
    if t.endswith("]"):
        return t[:t.index("[")].strip(), t
    return None, None


def _sizeofs(e):
    return [x for x in walk(e) if isinstance(x, dict) and x.get("k") == "sizeof"]


def _resolve(f, e):
    e = strip(e)
    if e is None or e.get("k") != "call":
        return None
    return f.call_by_id(e["id"])[2] if e.get("ref") else e


def elemsize_rule(prog, R, rid, files=None, floor=20):
    r = R.rule(rid, "a block sized n * sizeof(X) is sized in units of the destination's element type: X is what the destination pointer points to (allocation results, memcpy/memmove/memset "
               "destinations), never the pointer itself or an unrelated type", floor=floor, analysis="type agreement of sizeof operand and destination element (types as resolved by the compiler)")
    n = 0
    for f in sorted(prog.funcs.values(), key=lambda x: x.key):
        if not f.file.startswith("src/lib/") or (files is not None and f.file not in files):
            continue
        sites = []
        for b, i, el in f.elements():
            if el["k"] == "asg" and el["e"]["op"] == "=":
                c = _resolve(f, el["e"].get("r"))
                if c is not None and c.get("callee") in ALLOC:
                    sites.append((el, strip(el["e"]["l"]).get("ty"), c["args"][-1] if c["callee"] != "ares_realloc" else c["args"][1], c["callee"], render(strip(el["e"]["l"]))))
            if el["k"] == "decl":
                for v in el["vars"]:
                    c = _resolve(f, v.get("init"))
                    if c is not None and c.get("callee") in ALLOC:
                        sites.append((el, v.get("ty"), c["args"][-1] if c["callee"] != "ares_realloc" else c["args"][1], c["callee"], v["n"]))
        for b, i, c in f.calls():
            if c.get("callee") in COPY and len(c.get("args", [])) == 3:
                d = strip(c["args"][0])
                sites.append((c, d.get("ty") if d is not None else None, c["args"][2], c["callee"], render(d)))
        for el, dty, szarg, what, dtxt in sites:
            elem, whole = _elem(dty)
            for so in _sizeofs(szarg):
                ts = _norm(so.get("oft") or (so.get("of") or {}).get("ty"))
                if not ts:
                    continue
                if (elem in BYTE or elem is None) and whole is None:
                    continue
                if whole is not None and whole.split("[")[0].strip() in BYTE and elem in BYTE + (None,):
                    continue
                n += 1
                k = "fn=%s %s %s sized by sizeof(%s)" % (f.name, what, dtxt[:40], ts)
                ok = ts == elem or ts == whole or frozenset((ts, elem or whole)) in SAME or (whole is not None and frozenset((ts, whole)) in SAME)
                if ok:
                    r.ok(k, f.loc(el.get("ln", f.ln)))
                else:
                    r.viol(k, f.name, f.loc(el.get("ln", f.ln)), "%s on '%s' (elements of type '%s') is sized in units of sizeof(%s): %s" % (
                        what, dtxt, elem or whole, ts, "only part of the array is covered, the rest keeps whatever the allocator returned" if ts.endswith("*") and not (elem or "").endswith("*")
                        else "the size does not match the destination's element type"))
    r.info["sized_blocks"] = n
