"""A-OWN: heap ownership analysis (leak / double release / use after release / unchecked allocation).

Per function: disjunctive forward dataflow (ValueSets for status enums + a typestate per tracked pointer
local) with inter-procedural *outcome summaries* inferred bottom-up:
   for each function G: a set of outcome groups
       (rets, consumed, produced, ret_owned)
   rets      : frozenset of returned enum names / 'NULL' / 'NN' / None(void/unknown)
   consumed  : frozenset of parameter indexes whose pointee the callee released or captured
   produced  : frozenset of parameter indexes (T **out) through which the callee handed out an owned object
   ret_owned : the returned pointer carries ownership
Base facts (frozen, confirmed by reading): BASE_ALLOC / BASE_FREE / TABLE_SUMMARIES.
"""
from lib import *  # noqa

BASE_ALLOC = {"ares_malloc", "ares_malloc_zero", "ares_realloc", "ares_realloc_zero", "ares_strdup", "ares_malloc_data"}
BASE_FREE = {"ares_free", "ares_free_data", "ares_free_string", "ares_free_hostent", "ares_freeaddrinfo"}
# functions whose ownership behaviour is not visible to the intra-procedural inference (they hand out an interior
# allocation of the object they consume): (consumed params, returns owned)
TABLE_SUMMARIES = {
    "ares_buf_finish_str": ({0}, True),    # frees the ares_buf_t shell, returns its data block
    "ares_buf_finish_bin": ({0}, True),
    "ares_array_finish": ({0}, True),
    "ares_realloc": ({0}, True),
    "ares_realloc_zero": ({0}, True),
    "ares_hosts_entry_destroy": ({0}, False),   # reference counted: the caller's reference is always given up
    "ares_hosts_file_add": ({1}, False),        # "entry is always invalidated by this function, even on error" (merged or ref-counted into two tables)
}
# owning fields the inference cannot see (one line of reason each)
EXTRA_OWNING = {
    ("ares_txt_ext", "next"): "released through the layout-compatible ares_txt_reply arm of ares_free_data",
    # container link fields: a container owns its nodes; they are released through accessor functions
    # (ares_llist_node_first() etc.), which the per-function inference does not see through
    ("ares_llist", "head"): "list owns its nodes", ("ares_llist", "tail"): "list owns its nodes",
    ("ares_llist_node", "next"): "list owns its nodes", ("ares_llist_node", "prev"): "list owns its nodes",
    ("ares_slist", "head"): "skip list owns its nodes", ("ares_slist", "tail"): "skip list owns its nodes",
    ("ares_slist_node", "next"): "skip list owns its nodes", ("ares_slist_node", "prev"): "skip list owns its nodes",
    ("ares_htable", "buckets"): "hash table owns its bucket lists",
}
# containers that copy *ptr (an element that is itself a pointer): on success the pointed-to pointer's ownership moves
SINK_BY_ADDR = {"ares_array_insertdata_at": 2, "ares_array_insertdata_last": 1, "ares_array_insertdata_first": 1}
# allocators whose result must be NULL-checked before use (others may legitimately pair NULL with a zero count)
NULLCHECK_ALLOCATORS = {"ares_malloc", "ares_malloc_zero", "ares_realloc", "ares_realloc_zero", "ares_strdup", "ares_malloc_data",
                        "ares_buf_create", "ares_array_create", "ares_llist_create", "ares_slist_create", "ares_htable_create",
                        "ares_dns_multistring_create"}
# pointer states
U, N, O, A, M, R, B, BN, UN, MN = "U", "N", "O", "A", "M", "R", "B", "BN", "UN", "MN"
# U unknown/unowned, N null, O owned (non-null), A owned-or-null (allocation not yet checked),
# M moved (ownership transferred), R released, B borrowed parameter (BN: known non-null), UN unowned known non-null


def is_ptr(ty):
    return ty.endswith("*") and "(*)" not in ty


class Outcome:
    __slots__ = ("rets", "consumed", "produced", "ret_owned")

    def __init__(self, rets, consumed, produced, ret_owned):
        self.rets, self.consumed, self.produced, self.ret_owned = rets, consumed, produced, ret_owned

    def key(self):
        return (self.consumed, self.produced, self.ret_owned)


class Own:
    def __init__(self, prog, exempt=None):
        self.prog = prog
        self.memo = {}
        self.active = set()
        self.findings = {}      # func key -> list of findings
        self.stats = {"functions": 0, "alloc_sites": 0, "states": 0, "gave_up": 0}
        self.exempt = exempt or {}
        self._owning = None
        self.gave_up = []
        self.alloc_sites = set()
        self.exit_info = {}
        self.trace = None

    # ------------------------------------------------------------------
    def owning_fields(self):
        """(record, field) pairs through which an object is released somewhere in the library: a store into such a
        field transfers ownership; a store into any other field (parent/back pointers, borrowed references) does not."""
        if self._owning is not None:
            return self._owning
        own_f = set()
        for f in self.prog.funcs.values():
            srcs = {}      # local -> set of ('v', name) | ('f', rec, field) appearing in values assigned to it
            for b, i, el in f.elements():
                pairs = []
                if el["k"] == "asg" and el["e"]["op"] == "=" and path(el["e"]["l"]):
                    pairs.append((path(el["e"]["l"]), el["e"]["r"]))
                elif el["k"] == "decl":
                    for v in el["vars"]:
                        if v.get("init") is not None:
                            pairs.append((v["n"], v["init"]))
                for tgt, rhs in pairs:
                    st_ = srcs.setdefault(tgt, set())
                    top = strip(rhs)
                    for n in walk(rhs):
                        if n.get("k") == "mem":
                            st_.add(("f", n["rec"], n["f"]))
                            if n is top:
                                break
                        elif n.get("k") == "var" and n.get("vk") in ("local", "param"):
                            st_.add(("v", n["n"]))
            for b, i, c in f.calls():
                cal = c.get("callee")
                releasing = cal in BASE_FREE or (cal or "").endswith(("_destroy", "_free", "_free_cb", "_destroy_cb")) or not cal \
                    or cal in TABLE_SUMMARIES
                if not releasing:
                    continue
                for a in c.get("args", []):
                    a2 = strip(a)
                    if a2 is None:
                        continue
                    while a2.get("k") == "idx" or (a2.get("k") == "un" and a2["op"] == "*"):
                        a2 = strip(a2["b"] if a2.get("k") == "idx" else a2["e"])
                    if a2.get("k") == "mem":
                        own_f.add((a2["rec"], a2["f"]))
                    elif a2.get("k") == "var":
                        seen, work = set(), [a2["n"]]
                        while work:
                            v = work.pop()
                            if v in seen:
                                continue
                            seen.add(v)
                            for it in srcs.get(v, ()):
                                if it[0] == "f":
                                    own_f.add((it[1], it[2]))
                                else:
                                    work.append(it[1])
        own_f |= set(EXTRA_OWNING)
        self._owning = own_f
        return own_f

    # ------------------------------------------------------------------
    def summary(self, g):
        """list of (rets frozenset|None, consumed frozenset, produced frozenset, ret_owned bool)"""
        if g.key in self.memo:
            return self.memo[g.key]
        if g.name in BASE_ALLOC and g.name not in TABLE_SUMMARIES:
            self.memo[g.key] = [(None, frozenset(), frozenset(), True, frozenset())]
            return self.memo[g.key]
        if g.name in TABLE_SUMMARIES:
            cons, ro = TABLE_SUMMARIES[g.name]
            self.memo[g.key] = [(None, frozenset(cons), frozenset(), ro, frozenset())]
            self._analyse(g)      # still check its body
            self.memo[g.key] = [(None, frozenset(cons), frozenset(), ro, frozenset())]
            return self.memo[g.key]
        if g.name in BASE_FREE:
            self.memo[g.key] = [(None, frozenset([0]), frozenset(), False, frozenset())]
            return self.memo[g.key]
        if g.key in self.active:
            # recursive call: assume it disposes of every non-const pointer argument it is given (verified by the
            # non-recursive paths of the same function)
            idxs = frozenset(k for k, p_ in enumerate(g.params) if is_ptr(p_["ty"]) and not p_["ty"].startswith("const "))
            return [(None, idxs, frozenset(), False, frozenset())]
        self.active.add(g.key)
        try:
            res = self._analyse(g)
        except AnalysisBroken:
            self.stats["gave_up"] += 1
            self.gave_up.append(g.name)
            # state cap exceeded: fall back to the naming convention for releasers, no effect otherwise
            if g.name.endswith(("_destroy", "_free")) or g.name in ("ares_destroy",):
                res = [(None, frozenset([0]), frozenset(), False, frozenset())]
            else:
                res = [(None, frozenset(), frozenset(), False, frozenset())]
        finally:
            self.active.discard(g.key)
        self.memo[g.key] = res
        return res

    def call_summary(self, f, c):
        name = c.get("callee")
        if name in BASE_ALLOC and name not in TABLE_SUMMARIES:
            return [(None, frozenset(), frozenset(), True, frozenset())]
        if name in TABLE_SUMMARIES:
            cons, ro = TABLE_SUMMARIES[name]
            return [(None, frozenset(cons), frozenset(), ro, frozenset())]
        if name in BASE_FREE:
            return [(None, frozenset([0]), frozenset(), False, frozenset())]
        t = self.prog.resolve(f, c)
        if t is None:
            return None
        return self.summary(t)

    # ------------------------------------------------------------------
    def _analyse(self, f):
        prog = self.prog
        self.stats["functions"] += 1
        ptr_locals = {v["n"] for v in f.vars.values() if is_ptr(v["ty"]) and v["kind"] in ("local", "param")}
        params = [p["n"] for p in f.params]
        param_idx = {p["n"]: k for k, p in enumerate(f.params)}
        pp_params = {p["n"] for p in f.params if p["ty"].replace(" ", "").endswith("**")}
        stored_through = set()
        for b_, i_, el_ in f.elements():
            if el_["k"] == "asg":
                l_ = strip(el_["e"]["l"])
                if l_.get("k") == "un" and l_["op"] == "*" and path(l_["e"]) in pp_params:
                    stored_through.add(path(l_["e"]))
            elif el_["k"] == "call":
                for a_ in el_["e"].get("args", []):
                    if path(a_) in pp_params and (el_["e"].get("callee") or "") not in BASE_FREE and not (el_["e"].get("callee") or "").endswith(("_free", "_destroy", "free_array")):
                        stored_through.add(path(a_))
        out_params = {n for n in pp_params if n in stored_through}
        nonconst_ptr_params = {p["n"] for p in f.params if is_ptr(p["ty"]) and not p["ty"].startswith("const ") and p["n"] not in out_params}
        # variables whose address is taken somewhere other than as an out-argument of a call are not tracked
        escaped = set()
        for b, i, tree in all_exprs_with_points(f):
            top = strip(tree)
            okargs = set()
            if top is not None and top.get("k") == "call" and not top.get("ref") and (top.get("callee") in SINK_BY_ADDR or self.prog.resolve(f, top) is not None):
                okargs = {id(strip(a)) for a in top.get("args", [])}
            for n in walk(tree):
                if n.get("k") == "un" and n["op"] == "&" and id(n) not in okargs:
                    p = path(n["e"])
                    if p in ptr_locals:
                        escaped.add(("addr", p))
        findings = []
        fkey = f.key
        owning_f = self.owning_fields()
        created_here = set()
        alloc_src = {}
        for b_, i_, el_ in f.elements():
            pr_ = []
            if el_["k"] == "asg" and el_["e"]["op"] == "=":
                pr_.append((path(el_["e"]["l"]), el_["e"].get("r")))
            elif el_["k"] == "decl":
                pr_ += [(v_["n"], v_.get("init")) for v_ in el_["vars"]]
            for nm_, rh_ in pr_:
                r2_ = strip(rh_) if rh_ is not None else None
                if nm_ and r2_ is not None and r2_.get("k") == "call":
                    alloc_src[nm_] = r2_.get("callee")
                    if r2_.get("callee") in BASE_ALLOC:
                        created_here.add(nm_)

        def resolve(ps, name):
            d = dict(ps)
            hops = 0
            while isinstance(d.get(name), str) and d[name].startswith("=") and hops < 6:
                name = d[name][1:]
                hops += 1
            return name

        def st_get(ps, name):
            name = resolve(ps, name)
            for n, s in ps:
                if n == name:
                    return s
            if name in nonconst_ptr_params:
                return B
            return U

        def st_set(ps, name, s, raw=False):
            d = dict(ps)
            if not raw:
                name = resolve(ps, name)
            d[name] = s
            return tuple(sorted(d.items()))

        def aliases_of(ps, owner):
            return [n for n, s in ps if isinstance(s, str) and s == "=" + owner]

        def children(ps, name):
            owner = resolve(ps, name)
            fam = [owner] + aliases_of(ps, owner)
            out = []
            for n, s in ps:
                for m in fam:
                    if n.startswith(m + "->") or n.startswith(m + "."):
                        out.append(n)
                        break
            return out

        def report(kind, var, el, msg):
            findings.append({"kind": kind, "var": var, "ln": el.get("ln") if isinstance(el, dict) else None, "msg": msg, "func": f.name, "file": f.file})

        def release(ps, name, el, how):
            s = st_get(ps, name)
            if s == R:
                report("double-release", name, el, "'%s' released twice on this path (%s)" % (name, how))
            elif s in (M, MN):
                report("release-after-move", name, el, "'%s' released by %s after its ownership was transferred" % (name, how))
            for ch in children(ps, name):
                raw = dict(ps).get(ch)
                if isinstance(raw, str) and raw.startswith("="):
                    if how != "ares_free":
                        ps = st_set(ps, raw[1:], R)
                    ps = st_set(ps, ch, U, raw=True)
                    continue
                if st_get(ps, ch) in (O, A) and how == "ares_free":
                    report("leak", ch, el, "'%s' is still owned when its parent '%s' is released with plain ares_free" % (ch, name))
                ps = st_set(ps, ch, R, raw=True)
            if s in (O, A, B, BN, U, UN, R, M, MN):
                ps = st_set(ps, name, R)
            return ps

        def move(ps, name, why):
            s = st_get(ps, name)
            if s in (O, A, B, BN):
                chs = children(ps, name)
                ps = st_set(ps, name, MN if s in (O, BN) else M)
                for ch in chs:
                    raw = dict(ps).get(ch)
                    if isinstance(raw, str) and raw.startswith("="):
                        tgt = raw[1:]
                        if st_get(ps, tgt) in (B, BN, O, A):
                            ps = st_set(ps, tgt, MN if st_get(ps, tgt) in (O, BN) else M)
                        ps = st_set(ps, ch, U, raw=True)
                    else:
                        ps = st_set(ps, ch, M, raw=True)
            return ps

        def tracked_path(e):
            e2 = strip(e)
            p = path(e2)
            if p is None:
                return None
            if p in ptr_locals:
                return p
            if e2.get("k") == "mem" and e2.get("arrow") and strip(e2["b"]).get("k") == "var" and strip(e2["b"])["n"] in ptr_locals and is_ptr(e2.get("ty", "")):
                return p
            return None

        def rhs_alloc(ps, f_, rhs, pend):
            """(state, consumed-effects-already-applied?) for an rvalue: 'A' if it yields a fresh owned pointer"""
            r_ = strip(rhs)
            if r_ is None:
                return U
            if is_null(r_):
                return N
            if r_.get("k") == "call":
                if pend is not None and pend[0] == r_.get("id"):
                    return pend[2]
                return U
            p = tracked_path(r_)
            if p is not None:
                return "alias:" + p
            return U

        def deref_checks(ps, el):
            trees = []
            if el["k"] == "decl":
                trees = [v["init"] for v in el["vars"] if v.get("init") is not None]
            elif el.get("e") is not None:
                trees = [el["e"]]
            for t in trees:
                for n in walk(t):
                    base = None
                    if n.get("k") == "mem" and n.get("arrow"):
                        base = n["b"]
                    elif n.get("k") == "un" and n["op"] == "*":
                        base = n["e"]
                    elif n.get("k") == "idx":
                        base = n["b"]
                    if base is None:
                        continue
                    p_ = path(strip(base))
                    if p_ in ptr_locals:
                        s_ = st_get(ps, p_)
                        if s_ == A and alloc_src.get(p_) in NULLCHECK_ALLOCATORS:
                            report("null-deref", p_, el, "'%s' is dereferenced before the allocation result was checked for NULL" % p_)
                        elif s_ == R:
                            report("use-after-release", p_, el, "'%s' is dereferenced after it was released" % p_)

        def on_el(extra, blk, i, el, get):
            ps, pend, dfl, pubs = extra
            deref_checks(ps, el)
            k = el["k"]
            if k == "decl":
                for v in el["vars"]:
                    if v["n"] in ptr_locals:
                        s = rhs_alloc(ps, f, v.get("init"), pend) if v.get("init") is not None else U
                        ps = assign(ps, v["n"], s, el, v.get("init"))
                return [(ps, pend, dfl, pubs)]
            if k == "ret":
                return [(ps, pend, dfl, pubs)]
            if k == "asg":
                e = el["e"]
                if e["op"] != "=":
                    return [(ps, pend, dfl, pubs)]
                lhs = strip(e["l"])
                lp = tracked_path(lhs)
                rp = tracked_path(e["r"])
                if lp is not None and lp in ptr_locals:
                    pubs = frozenset(x for x in pubs if x[1] != lp)      # the name no longer denotes that object
                # references to a locally created object published into longer-lived objects
                if lhs.get("k") == "mem" and lhs.get("arrow"):
                    lkey = render(lhs)
                    pubs = frozenset(x for x in pubs if x[0] != lkey)
                    bvar = root_var(lhs)
                    if rp is not None and rp in ptr_locals and rp in created_here and bvar is not None and bvar["n"] != rp \
                            and st_get(ps, bvar["n"]) not in (O, A) and st_get(ps, rp) in (O, A, MN, M):
                        pubs = pubs | {(lkey, resolve(ps, rp))}
                # store of a tracked pointer into memory that outlives the variable: capture
                if lp is None or (lhs.get("k") == "mem" and strip(lhs["b"]).get("k") == "var" and st_get(ps, strip(lhs["b"])["n"]) not in (O, A)):
                    if rp is not None and not (lp is not None and lp in ptr_locals):
                        tgt_local_struct = lhs.get("k") == "mem" and not lhs.get("arrow") and strip(lhs["b"]).get("k") == "var"
                        # which field is written?  (through index / deref wrappers)
                        t2 = lhs
                        while t2.get("k") == "idx" or (t2.get("k") == "un" and t2["op"] == "*"):
                            t2 = strip(t2["b"] if t2.get("k") == "idx" else t2["e"])
                        owning = True
                        if t2.get("k") == "mem":
                            owning = (t2["rec"], t2["f"]) in owning_f
                        if not tgt_local_struct and owning:
                            s = st_get(ps, rp)
                            if s == R:
                                report("use-after-release", rp, el, "'%s' stored after it was released" % rp)
                            ps = move(ps, rp, "stored")
                        return [(ps, pend, dfl, pubs)]
                if lp is not None:
                    if lp not in ptr_locals:
                        # field of a local pointer: tracked only while the parent object is owned by this function
                        base = strip(lhs["b"])["n"]
                        if st_get(ps, base) not in (O, A):
                            if rp is not None and (lhs["rec"], lhs["f"]) in owning_f:
                                ps = move(ps, rp, "stored")
                            if dict(ps).get(lp) is not None:
                                ps = st_set(ps, lp, N if is_null(e["r"]) else U, raw=True)
                            return [(ps, pend, dfl, pubs)]
                        if rp is not None and (lhs["rec"], lhs["f"]) not in owning_f:
                            return [(ps, pend, dfl, pubs)]      # non-owning reference inside an owned object
                    s = rhs_alloc(ps, f, e["r"], pend)
                    ps = assign(ps, lp, s, el, e["r"])
                return [(ps, pend, dfl, pubs)]
            if k != "call":
                return [(ps, pend, dfl, pubs)]
            c = el["e"]
            args = c.get("args", [])
            # use-after-release of arguments
            for a in args:
                p = tracked_path(a)
                if p is not None and st_get(ps, p) == R and c.get("callee") not in BASE_FREE:
                    report("use-after-release", p, el, "'%s' passed to %s after it was released" % (p, c.get("callee") or "a function pointer"))
            def _isfn(a):
                a2 = strip(a)
                return a2 is not None and (a2.get("k") == "fn" or "(*)" in (a2.get("ty") or ""))
            for kx, a in enumerate(args):
                # (callback, arg) convention / payload followed by its destructor: the pointer is owned by the
                # callee's machinery from here on
                p = tracked_path(a)
                if p is not None and st_get(ps, p) in (O, A, B, BN):
                    if kx > 0 and _isfn(args[kx - 1]):
                        ps = move(ps, p, "callback context")
            if c.get("callee") in SINK_BY_ADDR:
                kx = SINK_BY_ADDR[c["callee"]]
                a2 = strip(args[kx]) if kx < len(args) else None
                p = tracked_path(a2["e"]) if a2 is not None and a2.get("k") == "un" and a2["op"] == "&" else None
                if p is not None:
                    ok = move(ps, p, c["callee"])
                    return [(ok, (c.get("id"), frozenset(["ARES_SUCCESS"]), U), dfl, pubs),
                            (ps, (c.get("id"), frozenset(["ARES_ENOMEM", "ARES_EFORMERR"]), U), dfl, pubs)]
            if not c.get("callee") and args:
                # invoking a callback with its context argument: the handler disposes of the context
                fx = strip(c.get("fnx"))
                p0 = tracked_path(args[0])
                tw = c.get("fntyw", "")
                is_completion = any(tw == t or tw.startswith(t + " ") for t in ("ares_callback", "ares_callback_dnsrec", "ares_host_callback",
                                                                              "ares_nameinfo_callback", "ares_addrinfo_callback"))
                if is_completion and p0 is not None and st_get(ps, p0) in (O, A, B, BN) and strip(args[0]).get("ty") == "void *":
                    ps = move(ps, p0, "callback")
                if is_completion and len(args) >= 2:
                    # the result object handed to the user's completion callback (last argument: addrinfo / hostent / record) is the user's
                    pl = tracked_path(args[-1])
                    if pl is not None and st_get(ps, pl) in (O, A, B, BN) and (strip(args[-1]).get("ty") or "").rstrip().endswith("*") \
                            and "ares_addrinfo" in (strip(args[-1]).get("ty") or ""):
                        ps = move(ps, pl, "completion callback result")
                return [(ps, pend, dfl, pubs)]
            summ = self.call_summary(f, c)
            if summ is None:
                # unknown callee: out-args become unknown
                for a in args:
                    a2 = strip(a)
                    if a2 is not None and a2.get("k") == "un" and a2["op"] == "&":
                        p = tracked_path(a2["e"])
                        if p is not None and st_get(ps, p) not in (O, A):
                            ps = st_set(ps, p, U)
                return [(ps, pend, dfl, pubs)]
            # group outcomes by effect
            groups = {}
            for (rets, cons, prod, ro, nullp) in summ:
                gk = (cons, prod, ro, nullp)
                groups.setdefault(gk, set())
                if rets is None:
                    groups[gk] = None
                elif groups[gk] is not None:
                    groups[gk] |= set(rets)
            out = []
            for (cons, prod, ro, nullp), rets in groups.items():
                ps2 = ps
                # this outcome exists only when the arguments in nullp were NULL
                feasible = True
                for kx in nullp:
                    if kx < len(args):
                        a2 = strip(args[kx])
                        if a2 is not None and (a2.get("k") in ("str", "fn") or (a2.get("k") == "un" and a2["op"] == "&")):
                            feasible = False
                        p = tracked_path(args[kx])
                        if p is not None:
                            sx = st_get(ps2, p)
                            if sx in (O, BN, UN, MN):
                                feasible = False
                            elif sx in (A, U, B):
                                ps2 = st_set(ps2, p, N)
                if not feasible:
                    continue
                for kx in cons:
                    if kx < len(args):
                        p = tracked_path(args[kx])
                        if p is not None:
                            if c.get("callee") in BASE_FREE or (c.get("callee") or "").endswith(("_destroy", "_free")):
                                for (lk, pv) in pubs:
                                    if pv == resolve(ps2, p):
                                        report("dangling-reference", p, el, "'%s' is released while '%s' still points to it" % (p, lk))
                                ps2 = release(ps2, p, el, c.get("callee"))
                            else:
                                s = st_get(ps2, p)
                                if s == R:
                                    pass
                                ps2 = move(ps2, p, c.get("callee"))
                for kx in range(len(args)):
                    a2 = strip(args[kx])
                    if a2 is not None and a2.get("k") == "un" and a2["op"] == "&":
                        p = tracked_path(a2["e"])
                        if p is None:
                            continue
                        if p not in ptr_locals:
                            bse = p.split("->")[0].split(".")[0]
                            if st_get(ps2, bse) not in (O, A):
                                continue      # produced straight into a field of an object this function does not own
                        if kx in prod:
                            ps2 = st_set(ps2, p, O)
                        else:
                            # callee leaves the out-variable NULL/untouched: if it was owned it stays owned
                            if st_get(ps2, p) not in (O, A, N, R, M):
                                ps2 = st_set(ps2, p, N if False else U)
                rstate = U
                if ro:
                    rstate = A
                if rets is not None and rets == {"NULL"}:
                    rstate = N
                elif rets is not None and rets == {"NN"}:
                    rstate = O if ro else UN
                retset = frozenset(rets) if rets is not None else None
                out.append((ps2, (c.get("id"), retset, rstate), dfl, pubs))
            return out

        def assign(ps, name, s, el, rhs):
            old = st_get(ps, name)
            # overwriting a name: if it is the owner of a live object and other names alias it, one of them takes over
            d0 = dict(ps)
            raw_old = d0.get(name)
            if isinstance(raw_old, str) and raw_old.startswith("="):
                ps = st_set(ps, name, U, raw=True)      # an alias is simply re-pointed
                old = U
            elif old in (O, A, B, BN, U, UN, MN, M, R):
                al = aliases_of(ps, name)
                if al:
                    heir = al[0]
                    ps = st_set(ps, heir, old, raw=True)
                    for a2 in al[1:]:
                        ps = st_set(ps, a2, "=" + heir, raw=True)
                    ps = st_set(ps, name, U, raw=True)
                    old = U
            if isinstance(s, str) and s.startswith("alias:"):
                src = s[6:]
                if resolve(ps, src) == name:
                    return ps
                ss = st_get(ps, src)
                if old in (O,) and ss != old:
                    report("leak", name, el, "'%s' overwritten while it still owns an object" % name)
                for ch in children(ps, name):
                    ps = st_set(ps, ch, U)
                if ss in (O, A, B, BN) and name in ptr_locals:
                    ps = st_set(ps, name, "=" + resolve(ps, src), raw=True)     # second name for the same object
                elif ss in (O, A):
                    ps = st_set(ps, name, ss)
                    ps = st_set(ps, src, U)
                elif name not in ptr_locals and ss in (B, BN):
                    # a borrowed parameter stored into a field of an object this function owns: it shares the fate of
                    # that object (captured if the object is handed on, given back if the object is simply freed)
                    ps = st_set(ps, name, "=" + resolve(ps, src), raw=True)
                else:
                    ps = st_set(ps, name, {B: U, BN: UN, M: U, R: U}.get(ss, ss))
                return ps
            if s in (A, O):
                self.alloc_sites.add((f.key, el.get("ln")))
            if old == O and s != O:
                # realloc idiom `p = realloc(p, n)` consumes p in the call already (state M), so old==O means a real overwrite
                report("leak", name, el, "'%s' overwritten while it still owns an object" % name)
            if old == A and s in (A, O):
                report("leak", name, el, "'%s' overwritten while it may still own an object" % name)
            for ch in children(ps, name):
                ps = st_set(ps, ch, U)
            return st_set(ps, name, s)

        all_ptr_params = {p["n"] for p in f.params if "*" in p["ty"]}

        def on_edge(extra, blk, cond, pol, get):
            ps, pend, dfl, pubs = extra
            for cc, p in atoms(cond, pol):
                op0, l0, r0 = norm_cmp(cc, p)
                if is_var(l0) and strip(l0)["n"] in all_ptr_params and ((op0 == "==" and r0 is not None and is_null(r0)) or op0 == "false"):
                    dfl = True       # this path exists only for a NULL pointer argument (defensive / optional-output path)
                op, l, rr = norm_cmp(cc, p)
                ls = strip(l)
                name = None
                if ls is not None and ls.get("k") == "asg" and ls["op"] == "=":
                    name = tracked_path(ls["l"])
                else:
                    name = tracked_path(l) if l is not None else None
                if name is None:
                    # condition directly on a call result that returns an owned pointer: `if (f() == NULL)`
                    continue
                isnull = (op == "==" and rr is not None and is_null(rr)) or op == "false"
                nonnull = (op == "!=" and rr is not None and is_null(rr)) or op == "truth"
                s = st_get(ps, name)
                if isnull:
                    if s in (O, BN, UN, MN):
                        return None
                    if s in (A, U, B):
                        ps = st_set(ps, name, N)
                        for ch in children(ps, name):
                            ps = st_set(ps, ch, U)
                elif nonnull:
                    if s == N:
                        return None
                    if s == A:
                        ps = st_set(ps, name, O)
                    elif s == B:
                        ps = st_set(ps, name, BN)
                    elif s == U:
                        ps = st_set(ps, name, UN)
            return (ps, pend, dfl, pubs)

        def call_value(extra, callnode):
            if extra is None:
                return None
            pend = extra[1]
            if pend is not None and pend[0] == callnode.get("id") and pend[1] is not None:
                return pend[1]
            return None

        init_ps = tuple(sorted((n, N if False else U) for n in []))
        vs = ValueSets(prog, f, summaries=Summaries(prog), on_el=on_el, on_edge=on_edge, init_extra=(init_ps, None, False, frozenset()), cap=12000, call_value=call_value)
        self.stats["states"] += sum(len(v) for v in vs.at.values())
        if self.trace and self.trace[0] == f.name:
            last = None
            for bid in f.rpo():
                blk = f.blocks[bid]
                for i in range(len(blk.els) + 1):
                    sts = vs.states_at(bid, i)
                    cur = sorted({str(dict(st[1][0]).get(self.trace[1], "-")) for st in sts})
                    if cur != last:
                        ln = blk.els[i]["ln"] if i < len(blk.els) else (blk.term["ln"] if blk.term else "-")
                        txt = blk.els[i]["t"][:70] if i < len(blk.els) else "<term>"
                        print("   trace %s B%d[%d] L%s %s  before: %s" % (self.trace[1], bid, i, ln, cur, txt))
                        last = cur
        # ---- exits: leaks + summary ----
        outcomes = {}
        is_enum = prog.enums.get(f.ret) is not None
        for b, i, el in f.exits():
            for st in vs.states_at(b, i):
                ps, pend, dfl, pubs = st[1]
                ret_owned = False
                rets = None
                ps_exit = ps
                if el is not None and el.get("e") is not None:
                    rp = tracked_path(el["e"])
                    r_ = strip(el["e"])
                    if rp is not None and st_get(ps, rp) in (O, A):
                        ret_owned = True
                        rets = frozenset(["NN"]) if st_get(ps, rp) == O else frozenset(["NULL", "NN"])
                        ps_exit = move(ps, rp, "returned")
                    elif r_.get("k") == "call" and pend is not None and pend[0] == r_.get("id"):
                        ret_owned = pend[2] in (A, O)
                        rets = pend[1]
                        if rets is None and ret_owned:
                            rets = frozenset(["NULL", "NN"])
                        if pend[2] == N:
                            rets = frozenset(["NULL"])
                        elif pend[2] in (O, UN):
                            rets = frozenset(["NN"])
                    elif is_null(r_) or (rp is not None and st_get(ps, rp) == N):
                        rets = frozenset(["NULL"])
                    elif rp is not None and st_get(ps, rp) in (BN, UN, MN):
                        rets = frozenset(["NN"])
                    elif is_enum:
                        rs = vs.eval(el["e"], st[0])
                        rets = rs
                    if rp is not None and st_get(ps, rp) == R:
                        report("use-after-release", rp, el, "'%s' returned after it was released" % rp)
                for n, s in ps_exit:
                    if isinstance(s, str) and s.startswith("="):
                        continue
                    if s in (O, A) and ("addr", n.split("->")[0].split(".")[0]) not in escaped:
                        if s == A and not self._alloc_checked_needed(n):
                            pass
                        where = el if el is not None else {"ln": f.endln}
                        report("leak-defensive" if dfl else "leak", n, where, "'%s' is still owned when the function returns%s%s" % (
                            n, (" " + render(el["e"])) if el is not None and el.get("e") is not None else "",
                            " (only on a path where a pointer argument is NULL)" if dfl else ""))
                cons = frozenset(param_idx[n] for n, s in ps_exit if n in param_idx and s in (R, M, MN))
                nullp = frozenset(param_idx[n] for n, s in ps_exit if n in param_idx and s == N)
                if nullp & cons:
                    nullp = nullp - cons
                prod = frozenset()
                self.exit_info.setdefault(fkey, []).append((el.get("ln") if el is not None else None, cons, nullp, dfl))
                key = (cons, prod, ret_owned, nullp)
                if rets is None:
                    outcomes[key] = None
                elif outcomes.get(key, set()) is not None:
                    outcomes.setdefault(key, set())
                    outcomes[key] |= set(rets)
        # produced out-params: `*out = <owned>` stores, attributed per exit by a separate cheap pass
        prod_by_ret = self._produced(f, vs, out_params, param_idx, tracked_path, st_get)
        res = []
        for (cons, prod, ro, nullp), rets in outcomes.items():
            if prod_by_ret:
                # split by whether the returned status is one on which something was produced
                for pk, pr in prod_by_ret.items():
                    if rets is None:
                        res.append((None, cons, frozenset(pk), ro, nullp))
                    else:
                        hit = frozenset(rets) & pr
                        miss = frozenset(rets) - pr
                        if hit:
                            res.append((hit, cons, frozenset(pk), ro, nullp))
                        if miss:
                            res.append((miss, cons, frozenset(), ro, nullp))
            else:
                res.append((frozenset(rets) if rets is not None else None, cons, prod, ro, nullp))
        if not res:
            res = [(None, frozenset(), frozenset(), False, frozenset())]
        # dedupe findings
        seen = set()
        uniq = []
        for x in findings:
            k2 = (x["kind"], x["var"], x["ln"])
            if k2 not in seen:
                seen.add(k2)
                uniq.append(x)
        self.findings[fkey] = uniq
        return res

    def _alloc_checked_needed(self, n):
        return True

    def _produced(self, f, vs, out_params, param_idx, tracked_path, st_get):
        """{frozenset(param idxs): frozenset(return values)} : on which returned values `*out` holds an owned object"""
        if not out_params:
            return {}
        stores = []
        for b, i, el in f.elements():
            if el["k"] == "asg" and el["e"]["op"] == "=":
                l = strip(el["e"]["l"])
                if l.get("k") == "un" and l["op"] == "*" and path(l["e"]) in out_params:
                    stores.append((b, i, el, path(l["e"])))
        if not stores:
            # out-param passed down to a callee that produces: `return g(out)` style
            return self._produced_via_callee(f, out_params, param_idx)
        result = {}
        is_enum = self.prog.enums.get(f.ret) is not None
        for b, i, el, pn in stores:
            owned_src = False
            rp = tracked_path(el["e"]["r"])
            r_ = strip(el["e"]["r"])
            for st in vs.states_at(b, i):
                ps, pend, _d, _pb = st[1]
                if rp is not None and st_get(ps, rp) in (O, A):
                    owned_src = True
                if r_.get("k") == "call" and pend is not None and pend[0] == r_.get("id") and pend[2] in (A, O):
                    owned_src = True
            if not owned_src:
                continue
            # return values reachable after this store (without a later NULL store)
            rets = set()
            for rb, ri, rel in f.exits():
                if (rb.id, ri) in reach_after(f, b.id, i) or (rb.id == b.id):
                    for st in vs.states_at(rb, ri):
                        if is_enum and rel is not None and rel.get("e") is not None:
                            rs = vs.eval(rel["e"], st[0])
                            if rs:
                                rets |= set(rs)
            # objects are handed out on success; on a failure value the out-parameter still holds the object only when some
            # path from the store to a return of that value neither clears `*out` nor releases it
            key = frozenset([param_idx[pn]])
            succ = {x for x in rets if x in ("ARES_SUCCESS", "ARES_TRUE")}
            keep = set(succ) if succ else set(rets)
            if succ and is_enum:
                keep |= self._still_set_on_failure(f, vs, b, i, pn) - succ
            result[key] = frozenset(keep) | result.get(key, frozenset())
        return result

    def _still_set_on_failure(self, f, vs, sb, si, pn):
        """return values of the exits that can be reached, on some path through the store (sb,si) of `*pn`, without `*pn` being
        cleared, released or handed on afterwards and without taking an edge on which `*pn` is NULL (path-sensitive in the status)"""
        from lib import ValueSets, Summaries
        if not hasattr(self, "_plain_summ"):
            self._plain_summ = Summaries(self.prog)
        store_el = f.blocks[sb.id].els[si]

        def clears(el):
            if el["k"] == "asg":
                l = strip(el["e"]["l"])
                if l is not None and l.get("k") == "un" and l["op"] == "*" and path(l["e"]) == pn:
                    return True
            if el["k"] == "call":
                summ = None
                for kx, a in enumerate(el["e"].get("args", [])):
                    a2 = strip(a)
                    if a2 is not None and a2.get("k") == "un" and a2["op"] == "*" and path(a2["e"]) == pn:
                        cal = el["e"].get("callee") or ""
                        if cal in BASE_FREE or "destroy" in cal or cal.endswith("_free") or "free_" in cal:
                            return True
                        if summ is None:
                            summ = self.call_summary(f, el["e"]) or []
                        if any(kx in cons for (_r, cons, _p, _ro, _np) in summ):
                            return True
            return False

        def on_el(extra, blk, i, el, get):
            if el is store_el:
                return ["H"]
            if extra == "H" and clears(el):
                return [""]
            return [extra]

        def on_edge(extra, blk, cond, pol, get):
            if extra != "H":
                return extra
            for c3, p3 in atoms(cond, pol):
                op, l3, r3 = norm_cmp(c3, p3)
                l4 = strip(l3)
                if l4 is not None and l4.get("k") == "un" and l4["op"] == "*" and path(l4["e"]) == pn:
                    if (op == "==" and r3 is not None and is_null(r3)) or op == "false":
                        return ""
                if l4 is not None and l4.get("k") == "var" and l4["n"] == pn:
                    if (op == "==" and r3 is not None and is_null(r3)) or op == "false":
                        return None      # `out` itself NULL after `*out` was stored: infeasible
            return extra
        def call_value(extra, e):
            c = e
            if c.get("ref"):
                x = f.call_by_id(c["id"])
                c = x[2] if x else c
            if c.get("callee") == "ares_buf_consume" and self._consume_cannot_fail(f, c):
                return frozenset(["ARES_SUCCESS"])
            return None
        try:
            v2 = ValueSets(self.prog, f, summaries=self._plain_summ, on_el=on_el, on_edge=on_edge, init_extra="", cap=4096, call_value=call_value)
        except AnalysisBroken:
            return set()
        out = set()
        for rb, ri, rel in f.returns():
            for st in v2.states_at(rb, ri):
                if st[1] != "H":
                    continue
                rs = v2.eval(rel.get("e"), st[0]) if rel.get("e") is not None else None
                if rs:
                    out |= set(rs)
        return out

    def _consume_cannot_fail(self, f, c):
        """`ares_buf_consume(buf, n)` cannot fail when the function returned early unless `remaining >= n`, with `remaining` obtained from
        ares_buf_fetch/ares_buf_peek(buf, &remaining) and neither changed since (idiom of the fetch_*_dup helpers)"""
        args = c.get("args", [])
        if len(args) < 2:
            return False
        bufn, lenn = path(args[0]), path(args[1])
        if bufn is None or lenn is None:
            return False
        remn = None
        for b, i, el in f.elements():
            cn = None
            if el["k"] == "decl":
                for v in el["vars"]:
                    e = strip(v.get("init")) if v.get("init") is not None else None
                    if e is not None and e.get("k") == "call":
                        cn = e
            elif el["k"] == "asg":
                e = strip(el["e"].get("r"))
                if e is not None and e.get("k") == "call":
                    cn = e
            if cn is None:
                continue
            if cn.get("ref"):
                x = f.call_by_id(cn["id"])
                cn = x[2] if x else cn
            if cn.get("callee") in ("ares_buf_fetch", "ares_buf_peek") and path(call_arg(cn, 0)) == bufn:
                a1 = strip(call_arg(cn, 1))
                if a1 is not None and a1.get("k") == "un" and a1["op"] == "&":
                    remn = path(a1["e"])
        if remn is None:
            return False
        # an early return under `remaining < n`
        for b in f.blocks.values():
            br = f.branch(b)
            if not br:
                continue
            for c3, p3 in atoms(br[0], False):
                op, l3, r3 = norm_cmp(c3, p3)
                if r3 is not None and path(l3) == remn and path(r3) == lenn and op == ">=":
                    ts = f.blocks.get(br[1])
                    if ts is not None and any(el["k"] == "ret" for el in ts.els):
                        # neither variable is assigned anywhere else
                        writes = [el for _, _, el in f.elements() if el["k"] == "asg" and path(el["e"]["l"]) in (remn, lenn)]
                        if not writes:
                            return True
        return False

    def _produced_via_callee(self, f, out_params, param_idx):
        res = {}
        for b, i, c in f.calls():
            summ = self.call_summary(f, c)
            if not summ:
                continue
            for kx, a in enumerate(c.get("args", [])):
                pa = path(a)
                if pa in out_params:
                    for (rets, cons, prod, ro, nullp) in summ:
                        if kx in prod:
                            key = frozenset([param_idx[pa]])
                            res[key] = frozenset(x for x in (rets or []) if x in ("ARES_SUCCESS", "ARES_TRUE")) or frozenset(rets or [])
        return res

    # ------------------------------------------------------------------
    def run_files(self, files):
        out = []
        for f in sorted(self.prog.funcs.values(), key=lambda x: x.key):
            if files is None or f.file in files or any(f.file.endswith(x) for x in files):
                self.summary(f)
                out.extend(self.findings.get(f.key, []))
        return out


    def contract_findings(self):
        """functions declared (TABLE_SUMMARIES) to always consume a parameter must release/hand on that parameter on every
        path on which it is non-NULL; returns list of findings located in the callee"""
        out = []
        for name, (cons, ro) in list(TABLE_SUMMARIES.items()):
            if name in BASE_ALLOC or name in ("ares_hosts_entry_destroy", "ares_hosts_file_add"):
                continue
            fs = self.prog.by_name.get(name, [])
            for f in fs:
                saved = self.memo.pop(f.key, None)
                real = None
                try:
                    # analyse the body without the declared summary
                    del_entry = TABLE_SUMMARIES.pop(name)
                    try:
                        self.memo.pop(f.key, None)
                        self.exit_info.pop(f.key, None)
                        real = self._analyse(f)
                    finally:
                        TABLE_SUMMARIES[name] = del_entry
                finally:
                    if saved is not None:
                        self.memo[f.key] = saved
                for k in cons:
                    sites = {ln for (ln, c2, nullp, dfl) in self.exit_info.get(f.key, []) if k not in c2 and k not in nullp and not dfl}
                    if sites:
                        out.append({"kind": "contract", "func": f.name, "file": f.file, "ln": min(x for x in sites if x) if any(sites) else f.ln,
                                    "var": "%s nonreleasing-returns=%d" % (f.params[k]["n"], len(sites)),
                                    "msg": "%s is documented/used as always consuming '%s' but %d return site(s) leave it unreleased although it is non-NULL" % (
                                        name, f.params[k]["n"], len(sites))})
        seen = set()
        res = []
        for x in out:
            k2 = (x["func"], x["var"])
            if k2 not in seen:
                seen.add(k2)
                res.append(x)
        return res
