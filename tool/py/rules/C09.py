"""C09 — server selection follows the documented failover policy."""
from lib import *  # noqa

TECHNIQUE = ("sort-key mutation typestate (every write of a key field of a linked server is followed by re-insertion), comparator-shape table, "
             "selection-source census in ares_send_query, 'best class' counting shape, health-update-before-retry dominance, probe isolation checks"
             ", dataflow of the configuration position counter, argument provenance of end_query for the probe flag")
LEVEL_TEXT = ("static: decides on every path that (a) the server order is never stale: each write to consec_failures/idx of a linked server is followed "
              "by ares_slist_node_reinsert before the list order is read, the comparator orders by (consec_failures, idx) ascending, and a server-list "
              "update always walks the new list re-assigning positions; (b) an attempt without a requested server goes to the list head or to an "
              "index drawn within the leading run of equal failure counts; (c) every failure/timeout path bumps the failure count before the retry "
              "decision and only a gated answer restores a server; (d) probes are separate requests with no cache, no retries and an internal "
              "callback, sent only after the user's query was enqueued. Does not decide distributional claims or behaviour over histories.")
# fifth-round additions
TECHNIQUE += "; " + "must-pass-through (claim before the indirect destructor call) in the skip list's node_destroy"
LEVEL_TEXT += " " + '(UNLINKFIRST) a server is off channel->servers before its destructor re-sends its in-flight queries.'
# seventh/eighth-round addition
TECHNIQUE += "; " + 'argument census of every handle_conn_error call (failure status => critical)'
LEVEL_TEXT += " " + '(HEALTH, eighth round) every connection-level error that carries a failure status demotes the server, whatever the transport.'
LEVEL_NOTE = "trusts clang CFG + extractor and the skip list's correctness (C19)"
DESIGN_REF = "DESIGN.md §6/C09"
EXPLANATION = LEVEL_TEXT
NOT_DECIDED = "uniformity of the random choice; selection over success/failure histories as a runtime sequence"

KEY_FIELDS = ("consec_failures", "idx")


def r_key(prog, R):
    r = R.rule("R-C09-KEY", "sort key of a linked server never goes stale; comparator = (consec_failures, idx) ascending", floor=8, analysis="A-TS + comparator shape")
    writers = {}
    for fld in KEY_FIELDS:
        for f, b, i, el, n, w in field_accesses(prog, "ares_server", fld):
            if not w:
                continue
            writers.setdefault(f.key, []).append((f, b, i, el, fld))
    r.require(len(writers) >= 3, "fewer writers of the server sort key than confirmed by hand: %s" % sorted(writers))
    for key, ws in sorted(writers.items()):
        for f, b, i, el, fld in ws:
            k2 = "fn=%s write=%s" % (f.name, fld)
            if f.name in ("ares_server_create",):
                # unlinked object: inserted after initialisation
                ins = f.calls_to("ares_slist_insert")
                if ins and (ins[0][0].id, ins[0][1]) in reach_after(f, b.id, i):
                    r.ok(k2 + " (before first insert)", f.loc(el))
                else:
                    r.viol(k2, f.name, f.loc(el), "key written after the server was inserted, without re-insertion")
                continue
            t = can_reach_exit_avoiding(f, b, i, lambda e2: is_call_el(e2, "ares_slist_node_reinsert"))
            if t is not None:
                r.viol(k2, f.name, f.loc(el), "server->%s changed on a path that never re-inserts the node: the list is no longer sorted and selection reads a stale order" % fld,
                       trail=trail_lines(f, t))
            else:
                # and nothing reads the order in between
                r.ok(k2, f.loc(el))
    # comparator shape
    cmp_ = prog.func("server_sort_cb")
    seq = []
    for bid in cmp_.rpo():
        br = cmp_.branch(bid)
        if not br:
            continue
        c = strip(br[0])
        if c.get("k") == "bin" and c["op"] in ("<", ">") and strip(c["l"]).get("k") == "mem" and strip(c["r"]).get("k") == "mem":
            fl, fr = strip(c["l"])["f"], strip(c["r"])["f"]
            bl, brn = path(strip(c["l"])["b"]), path(strip(c["r"])["b"])
            tb = cmp_.blocks[br[1]]
            rv = [const_val(el.get("e")) for el in tb.els if el["k"] == "ret"]
            seq.append((fl, fr, c["op"], bl, brn, rv[0] if rv else None))
    want = [("consec_failures", "<", -1), ("consec_failures", ">", 1), ("idx", "<", -1), ("idx", ">", 1)]
    got = [(a, op, rv) for (a, b2, op, bl, brn, rv) in seq if a == b2]
    bases_ok = all(bl == "s1" and brn == "s2" for (_, _, _, bl, brn, _) in seq) or len({(bl, brn) for (_, _, _, bl, brn, _) in seq}) == 1
    if got == want and bases_ok:
        r.ok("comparator=(consec_failures asc, idx asc)", cmp_.loc(cmp_.ln))
    else:
        r.viol("comparator=(consec_failures asc, idx asc)", cmp_.name, cmp_.loc(cmp_.ln), "server_sort_cb compares %s; expected consec_failures then idx, each ascending" % got)
    # the list is created with this comparator
    ok = False
    for f in prog.funcs.values():
        for b, i, el in f.elements():
            if el["k"] == "asg" and is_field(el["e"]["l"], "servers", "ares_channeldata") and is_call_to(el["e"].get("r"), "ares_slist_create"):
                full = f.call_by_id(strip(el["e"]["r"])["id"])
                if full and any(strip(a).get("k") == "fn" and strip(a)["n"] == "server_sort_cb" for a in full[2].get("args", [])):
                    ok = True
    if ok:
        r.ok("channel->servers sorted by server_sort_cb", cmp_.loc(cmp_.ln))
    else:
        r.viol("channel->servers sorted by server_sort_cb", "ares_init_options", cmp_.loc(cmp_.ln), "channel->servers is not created with server_sort_cb")
    # ares_servers_update: success only after walking the new list and removing stale servers
    u = prog.func("ares_servers_update")
    walk_new = [x for x in u.calls_to("ares_llist_node_first") if is_var(call_arg(x[2], 0), u.params[1]["n"])]
    r.require(len(walk_new) == 1, "ares_servers_update: walk over the new server list not found")
    need = [("walks-new-list", lambda e2: is_call_el(e2, "ares_llist_node_first") and is_var(call_arg(e2["e"], 0), u.params[1]["n"])),
            ("removes-stale", lambda e2: is_call_el(e2, "ares_servers_remove_stale"))]
    def on_el(extra, blk, i, el, get):
        for nm, pred in need:
            if pred(el):
                extra = extra | {nm}
        return [extra]
    vs = ValueSets(prog, u, names={"status"}, on_el=on_el, init_extra=frozenset(), cap=4096)
    for nm, pred in need:
        bad = None
        for b, i, el in u.returns():
            for st in vs.states_at(b, i):
                rs = vs.eval(el.get("e"), st[0])
                if (rs is None or "ARES_SUCCESS" in rs) and nm not in st[1]:
                    bad = el
        if bad is not None:
            r.viol("update:%s" % nm, u.name, u.loc(bad), "ares_servers_update can return success without this step: positions (idx) of a re-ordered list are never re-assigned / stale servers stay")
        else:
            r.ok("update:%s" % nm, u.loc(u.ln))
    # inside the walk: an existing server gets its new idx and is re-inserted
    okidx = any(el["k"] == "asg" and is_field(el["e"]["l"], "idx", "ares_server") and is_var(el["e"].get("r"), "idx") for _, _, el in u.elements())
    if okidx:
        r.ok("update:existing-server-gets-new-idx", u.loc(u.ln))
    else:
        r.viol("update:existing-server-gets-new-idx", u.name, u.loc(u.ln), "existing servers no longer receive their position in the new configuration")


def r_pick(prog, R):
    r = R.rule("R-C09-PICK", "an attempt goes to the requested server, the list head, or a random member of the best class", floor=6, analysis="dataflow census + shape")
    f = prog.func("ares_send_query")
    srcs = []
    for b, i, el in f.elements():
        if el["k"] == "asg" and is_var(el["e"]["l"], "server") and el["e"]["op"] == "=":
            srcs.append((b, i, el, render(strip(el["e"]["r"])).split("#")[0]))
    allowed = {"requested_server", "ares_random_server", "ares_slist_first_val"}
    for b, i, el, s in srcs:
        key = "server-source=%s" % s
        if s in allowed:
            r.ok(key, f.loc(el))
        else:
            r.viol(key, f.name, f.loc(el), "server for an attempt chosen from '%s'" % s)
    r.require({s for _, _, _, s in srcs} == allowed, "ares_send_query: selection sources changed: %s" % sorted({s for _, _, _, s in srcs}))
    mf = MustFacts(f)
    for b, i, el, s in srcs:
        facts = mf.cond_facts_at(b, i)
        if s == "ares_random_server":
            if any(p and is_field(c, "rotate", "ares_channeldata") for c, p in facts):
                r.ok("random-only-with-rotate", f.loc(el))
            else:
                r.viol("random-only-with-rotate", f.name, f.loc(el), "random selection not conditional on channel->rotate")
        if s == "ares_slist_first_val":
            full = f.call_by_id(strip(el["e"]["r"])["id"])
            if full and is_field(call_arg(full[2], 0), "servers", "ares_channeldata"):
                r.ok("head-of-channel->servers", f.loc(el))
            else:
                r.viol("head-of-channel->servers", f.name, f.loc(el), "first server not taken from channel->servers")
    # count_highest_prio_servers: leading run of equal consec_failures
    c = prog.func("count_highest_prio_servers")
    prev = None
    for b, i, el in c.elements():
        if el["k"] == "asg" and el["e"]["op"] == "=" and is_field(el["e"].get("r"), "consec_failures", "ares_server") and is_var(el["e"]["l"]):
            prev = strip(el["e"]["l"])["n"]
    shape = False
    if prev:
        for bid in c.rpo():
            br = c.branch(bid)
            if br:
                c0 = strip(br[0])
                if c0.get("k") == "bin" and c0["op"] in ("<", "!=", ">") and {path(c0["l"]), path(c0["r"])} == {prev, "server->consec_failures"}:
                    tb = c.blocks[br[1]]
                    if tb.term and tb.term["cls"] == "BreakStmt" or (not tb.els and len(c.succ(br[1])) == 1):
                        shape = True
    if shape:
        r.ok("best-class=leading-run-of-equal-failures", c.loc(c.ln))
    else:
        r.viol("best-class=leading-run-of-equal-failures", c.name, c.loc(c.ln), "the count no longer stops where consec_failures changes relative to the previous server: servers outside the least-failed class can be chosen")
    cw = [(b, i, el) for b, i, el in c.elements() if (el["k"] == "asg" and is_var(el["e"]["l"], "cnt")) or (el["k"] == "decl" and any(v["n"] == "cnt" for v in el["vars"]))]
    bad = [el for b, i, el in cw if el["k"] == "asg" and el["e"]["op"] not in ("++", "+=")]
    if bad:
        r.viol("best-class-count-only-increments", c.name, c.loc(bad[0]), "cnt is assigned '%s': the count is no longer the size of the leading run" % bad[0]["t"])
    else:
        r.ok("best-class-count-only-increments", c.loc(c.ln))
    # ares_random_server indexes within that count
    rs = prog.func("ares_random_server")
    okmod = False
    for b, i, el in rs.elements():
        if el["k"] == "asg" and is_var(el["e"]["l"], "idx"):
            rr = strip(el["e"].get("r"))
            if rr is not None and rr.get("k") == "bin" and rr["op"] == "%" and is_var(rr["r"], "num_servers"):
                okmod = True
    src_ok = any(el["k"] == "decl" and any(v["n"] == "num_servers" and is_call_to(v.get("init"), "count_highest_prio_servers") for v in el["vars"]) for _, _, el in rs.elements())
    if okmod and src_ok:
        r.ok("random-index<best-class-size", rs.loc(rs.ln))
    else:
        r.viol("random-index<best-class-size", rs.name, rs.loc(rs.ln), "random index is not reduced modulo count_highest_prio_servers()")


def r_health(prog, R):
    r = R.rule("R-C09-HEALTH", "failures demote before the retry decision; only a gated answer restores a server", floor=6, analysis="A-DOM must-pass")
    # every ares_requeue_query call with a failure status is preceded by server_increment_failures (directly or via handle_conn_error critical)
    def bump(el):
        if is_call_el(el, "server_increment_failures"):
            return True
        if is_call_el(el, "handle_conn_error") and name_of_const(call_arg(el["e"], 1)) == "ARES_TRUE":
            return True
        return False
    for cf, b, i, c in prog.callers_of("ares_requeue_query"):
        st = name_of_const(call_arg(c, 2))
        key = "requeue@%s#%d" % (cf.name, sorted(x[2]["id"] for x in cf.calls_to("ares_requeue_query")).index(c["id"]))
        if cf.name == "ares_requeue_queries":
            # connection closing: the caller (handle_conn_error) bumped when critical; requeue_status SUCCESS = cleanup
            r.ok(key + " (connection close: demotion decided by handle_conn_error's critical flag)", cf.loc(c["ln"]), nontrivial=False)
            continue
        if st == "ARES_SUCCESS":
            r.ok(key + " (status SUCCESS: protocol resend)", cf.loc(c["ln"]), nontrivial=False)
            continue
        t = can_reach_from_entry_avoiding(cf, b, i, bump)
        if t is not None:
            r.viol(key, cf.name, cf.loc(c["ln"]), "query re-sent after a failure on a path that did not demote the failing server first", trail=trail_lines(cf, t))
        else:
            r.ok(key, cf.loc(c["ln"]))
    # a connection-level failure (read / write / connect error, any transport) is a failure of that server: handle_conn_error is told so unless the reason is local (status SUCCESS: out of memory)
    nh = 0
    for cf, b, i, c in prog.callers_of("handle_conn_error"):
        st = name_of_const(call_arg(c, 2))
        crit = name_of_const(call_arg(c, 1))
        nh += 1
        key = "conn-error@%s#%d demotes the server" % (cf.name, sorted(x[2]["id"] for x in cf.calls_to("handle_conn_error")).index(c["id"]))
        if st == "ARES_SUCCESS":
            r.ok(key + " (local reason, status SUCCESS)", cf.loc(c["ln"]), nontrivial=False)
        elif crit == "ARES_TRUE":
            r.ok(key, cf.loc(c["ln"]))
        else:
            r.viol(key, cf.name, cf.loc(c["ln"]), "handle_conn_error(.., %s, %s): a socket error reported for this server closes the connection and re-sends its requests without counting a failure "
                   "for some connections -- the server keeps its place at the head of the list and the re-sent requests go straight back to it" % (render(call_arg(c, 1)), render(call_arg(c, 2))))
    r.require(nh >= 5, "fewer handle_conn_error call sites than confirmed by hand (%d)" % nh)
    # server_increment_failures really increments and re-sorts
    inc = prog.func("server_increment_failures")
    if any(el["k"] == "asg" and is_field(el["e"]["l"], "consec_failures") and el["e"]["op"] in ("++", "+=") for _, _, el in inc.elements()):
        r.ok("increment++", inc.loc(inc.ln))
    else:
        r.viol("increment++", inc.name, inc.loc(inc.ln), "server_increment_failures no longer increments consec_failures")
    # server_set_good: one caller (process_answer), resets to 0
    cs = prog.callers_of("server_set_good")
    for cf, b, i, c in cs:
        if cf.name != "process_answer":
            r.viol("set_good-caller=%s" % cf.name, cf.name, cf.loc(c["ln"]), "server restored to full priority outside the gated answer path")
        else:
            r.ok("set_good-caller=%s" % cf.name, cf.loc(c["ln"]))
    sg = prog.func("server_set_good")
    if any(el["k"] == "asg" and is_field(el["e"]["l"], "consec_failures") and const_val(el["e"].get("r")) == 0 for _, _, el in sg.elements()):
        r.ok("set_good resets to 0", sg.loc(sg.ln))
    else:
        r.viol("set_good resets to 0", sg.name, sg.loc(sg.ln), "a success no longer restores the server to zero failures")
    # timeouts demote: process_timeouts
    pt = prog.func("process_timeouts")
    rq = pt.calls_to("ares_requeue_query")
    if rq and can_reach_from_entry_avoiding(pt, rq[0][0], rq[0][1], bump) is None:
        r.ok("timeout demotes", pt.loc(rq[0][2]["ln"]))
    else:
        r.viol("timeout demotes", pt.name, pt.loc(pt.ln), "a timed-out attempt does not demote its server")


def r_probe(prog, R):
    r = R.rule("R-C09-PROBE", "failed servers are re-tried only by separate, cache-less, retry-less probe copies after the user's query was enqueued", floor=5, analysis="A-WMC + A-DOM")
    p = prog.func("ares_probe_failed_server")
    qp = [x for x in p.params if "ares_query" in x["ty"]]
    if qp and qp[0]["ty"].startswith("const "):
        r.ok("probe takes const query", p.loc(p.ln))
    else:
        r.viol("probe takes const query", p.name, p.loc(p.ln), "the probe can modify the user's query")
    sn = p.calls_to("ares_send_nolock")
    if not r.require(len(sn) == 1, "probe send not found"):
        return
    c = sn[0][2]
    fl = const_names(call_arg(c, 2))
    if {"ARES_SEND_FLAG_NOCACHE", "ARES_SEND_FLAG_NORETRY"} <= fl:
        r.ok("probe flags NOCACHE|NORETRY", p.loc(c["ln"]))
    else:
        r.viol("probe flags NOCACHE|NORETRY", p.name, p.loc(c["ln"]), "probe sent with flags %s" % sorted(fl))
    cb = strip(call_arg(c, 4))
    if cb is not None and cb.get("k") == "fn" and cb["n"] == "server_probe_cb":
        r.ok("probe callback internal", p.loc(c["ln"]))
    else:
        r.viol("probe callback internal", p.name, p.loc(c["ln"]), "probe completes through %s (the user's callback must never see probe results)" % render(cb))
    if is_var(call_arg(c, 1), "probe_server"):
        r.ok("probe directed at the failed server", p.loc(c["ln"]))
    else:
        r.viol("probe directed at the failed server", p.name, p.loc(c["ln"]), "probe not pinned to the selected failed server")
    cbf = prog.func("server_probe_cb")
    if not cbf.calls():
        r.ok("probe callback does nothing", cbf.loc(cbf.ln))
    else:
        r.viol("probe callback does nothing", cbf.name, cbf.loc(cbf.ln), "server_probe_cb has effects")
    # called only at the end of ares_send_query, after the enqueue
    for cf, b, i, cc in prog.callers_of("ares_probe_failed_server"):
        if cf.name != "ares_send_query":
            r.viol("probe-caller=%s" % cf.name, cf.name, cf.loc(cc["ln"]), "probe started outside ares_send_query")
            continue
        def enq(el):
            return el["k"] == "asg" and is_field(el["e"]["l"], "conn", "ares_query") and not is_null(el["e"].get("r"))
        if can_reach_from_entry_avoiding(cf, b, i, enq) is None:
            r.ok("probe-after-enqueue", cf.loc(cc["ln"]))
        else:
            r.viol("probe-after-enqueue", cf.name, cf.loc(cc["ln"]), "probe can be sent before the user's query is enqueued (it could delay or re-order it)")
        us = uses_after(cf, b, i, lambda n: n.get("k") == "var" and n["n"] == "query")
        if us:
            r.viol("query-untouched-after-probe", cf.name, cf.loc(cc["ln"]), "the user's query is touched after the probe was started")
        else:
            r.ok("query-untouched-after-probe", cf.loc(cc["ln"]))
    # probe_pending set before, cleared in end_query
    okset = any(el["k"] == "asg" and is_field(el["e"]["l"], "probe_pending") and name_of_const(el["e"].get("r")) == "ARES_TRUE" for _, _, el in p.elements())
    eq = prog.func("end_query")
    okclr = any(el["k"] == "asg" and is_field(el["e"]["l"], "probe_pending") and name_of_const(el["e"].get("r")) == "ARES_FALSE" for _, _, el in eq.elements())
    if okset and okclr:
        r.ok("probe_pending set/cleared", p.loc(p.ln))
    else:
        r.viol("probe_pending set/cleared", p.name, p.loc(p.ln), "probe_pending bookkeeping broken (set=%s cleared=%s): servers are probed repeatedly or never again" % (okset, okclr))


def r_probeflag(prog, R):
    r = R.rule("R-C09-PROBEFLAG", "a server's probe_pending flag is cleared whenever the probing query ends: end_query is told the server of the attempt unless none was chosen", floor=4, analysis="argument provenance at every end_query call")
    eq = prog.func("end_query")
    clr = [el for _, _, el in eq.elements() if el["k"] == "asg" and is_field(el["e"]["l"], "probe_pending") and name_of_const(el["e"].get("r")) == "ARES_FALSE"]
    if clr:
        r.ok("end_query clears probe_pending", eq.loc(clr[0]))
    else:
        r.viol("end_query clears probe_pending", eq.name, eq.loc(eq.ln), "end_query no longer clears server->probe_pending")
    n = 0
    for f in sorted(prog.funcs.values(), key=lambda x: x.key):
        mf = None
        for b, i, c in f.calls_to("end_query"):
            n += 1
            a = strip(call_arg(c, 1))
            k = "fn=%s end_query(server=%s)" % (f.name, render(a))
            if a is not None and not is_null(a) and const_val(a) is None:
                r.ok(k, f.loc(c["ln"]))
                continue
            # a literal NULL is fine only where no server was ever chosen for the query
            if mf is None:
                mf = MustFacts(f, track_calls=False)
            nosrv = any(norm_cmp(c3, p3)[0] in ("==", "false") and is_var(strip(norm_cmp(c3, p3)[1]), "server") for c3, p3 in mf.cond_facts_at(b, i))
            if nosrv:
                r.ok(k + " (no server chosen)", f.loc(c["ln"]))
            else:
                r.viol(k, f.name, f.loc(c["ln"]), "%s ends a query without telling end_query which server the attempt was on: if the query was a probe of a failed server, probe_pending stays set and that server is never probed again" % f.name)
    r.require(n >= 4, "fewer end_query call sites than confirmed by hand (%d)" % n)
    # the flag never outlives a probe that could not be sent: the result of the send is tested and the flag lowered on failure
    pf = prog.func("ares_probe_failed_server")
    sets = [(b, i, el) for b, i, el in pf.elements() if el["k"] == "asg" and is_field(el["e"]["l"], "probe_pending") and name_of_const(el["e"].get("r")) == "ARES_TRUE"]
    lowers = [(b, i, el) for b, i, el in pf.elements() if el["k"] == "asg" and is_field(el["e"]["l"], "probe_pending") and name_of_const(el["e"].get("r")) == "ARES_FALSE"]
    gs = call_result_branches(pf, "ares_send_nolock")
    okp = False
    if sets and lowers and gs:
        g = gs[0]
        fail_edge = g["true"] if (g["op"] == "!=" and name_of_const(g["rhs"]) == "ARES_SUCCESS") else (g["false"] if (g["op"] == "==" and name_of_const(g["rhs"]) == "ARES_SUCCESS") else None)
        okp = fail_edge is not None and lowers[0][0].id == fail_edge
    if okp:
        r.ok("probe_pending lowered when the probe could not be sent", pf.loc(lowers[0][2]))
    else:
        r.viol("probe_pending lowered when the probe could not be sent", pf.name, pf.loc(pf.ln), "ares_probe_failed_server raises probe_pending and does not lower it when ares_send_nolock fails: no query ever ends for that probe, so the server is never probed again")


def r_position(prog, R):
    r = R.rule("R-C09-POSITION", "configuration order is the tie-break: a new server gets the position it has in the list being applied, the same counter that renumbers kept servers; every failure re-arms the retry delay", floor=4, analysis="dataflow of the position counter + exact guard")
    up = prog.func("ares_servers_update")
    sc = prog.func("ares_server_create")
    # counter: the variable stored into server->idx for kept servers in ares_servers_update
    kept = [el for _, _, el in up.elements() if el["k"] == "asg" and is_field(el["e"]["l"], "idx", "ares_server") and is_var(strip(el["e"].get("r")))]
    if not r.require(kept, "ares_servers_update: renumbering of kept servers not found"):
        return
    ctr = strip(kept[0]["e"]["r"])["n"]
    incs = [el for _, _, el in up.elements() if el["k"] == "asg" and is_var(strip(el["e"]["l"]), ctr) and el["e"]["op"] in ("++", "+=")]
    if len(incs) == 1:
        r.ok("position counter advances once per applied entry", up.loc(incs[0]))
    else:
        r.viol("position counter advances once per applied entry", up.name, up.loc(up.ln), "the position counter '%s' is advanced %d times per iteration" % (ctr, len(incs)))
    cs = up.calls_to("ares_server_create")
    passed = None
    for b, i, c in cs:
        for k, a in enumerate(c.get("args", [])):
            if is_var(strip(a), ctr):
                passed = k
    if passed is None:
        r.viol("new server is created with its list position", up.name, up.loc(cs[0][2]["ln"] if cs else up.ln), "ares_servers_update does not hand the position counter '%s' to ares_server_create: a server added by a live edit is not ordered by its place in the new configuration" % ctr)
    else:
        r.ok("new server is created with its list position", up.loc(cs[0][2]["ln"]))
        pn = sc.params[passed]["n"] if passed < len(sc.params) else None
        st = [el for _, _, el in sc.elements() if el["k"] == "asg" and is_field(el["e"]["l"], "idx", "ares_server")]
        if st and pn and is_var(strip(st[0]["e"].get("r")), pn) and len(st) == 1:
            r.ok("server->idx = the position handed in", sc.loc(st[0]))
        else:
            r.viol("server->idx = the position handed in", sc.name, sc.loc(st[0] if st else sc.ln), "ares_server_create sets server->idx to '%s' instead of the position it was given" % (render(st[0]["e"].get("r")) if st else "?"))
    # every failure re-arms next_retry_time = now + retry_delay
    fi = prog.func("server_increment_failures")
    st = [(b, i, el) for b, i, el in fi.elements() if el["k"] == "asg" and is_field(el["e"]["l"], "next_retry_time", "ares_server")]
    if not r.require(st, "server_increment_failures: next_retry_time store not found"):
        return
    mf = MustFacts(fi, track_calls=False)
    b, i, el = st[0]
    extra = [("" if p3 else "!") + render(c3) for c3, p3 in mf.cond_facts_at(b, i) if not (is_var(strip(norm_cmp(c3, p3)[1]), "node"))]
    if extra:
        r.viol("every failure re-arms the retry delay", fi.name, fi.loc(el), "next_retry_time is only set when %s: a server that keeps failing is probed again before retry_delay has passed since its latest failure" % extra)
    elif not (mf.passed_call(b, i, "ares_tvnow") if False else any(c.get("callee") == "timeadd" for _, _, c in fi.calls())):
        r.viol("every failure re-arms the retry delay", fi.name, fi.loc(el), "next_retry_time no longer computed as now + retry_delay")
    else:
        r.ok("every failure re-arms the retry delay", fi.loc(el))
    inc = [(b2, i2, e2) for b2, i2, e2 in fi.elements() if e2["k"] == "asg" and is_field(e2["e"]["l"], "consec_failures", "ares_server")]
    if inc:
        extra = [("" if p3 else "!") + render(c3) for c3, p3 in mf.cond_facts_at(inc[0][0], inc[0][1]) if not (is_var(strip(norm_cmp(c3, p3)[1]), "node"))]
        if extra:
            r.viol("every failure is counted", fi.name, fi.loc(inc[0][2]), "consec_failures only incremented when %s" % extra)
        else:
            r.ok("every failure is counted", fi.loc(inc[0][2]))


def run(prog, R, tier):
    R.assume("the skip list keeps its order given a correct comparator and reinsert calls (C19)")
    r_key(prog, R)
    r_pick(prog, R)
    r_health(prog, R)
    r_probe(prog, R)
    r_position(prog, R)
    r_probeflag(prog, R)
    # a server is off channel->servers before its destructor re-sends its in-flight queries (the re-send picks from that list)
    import C19
    C19.r_unlinkfirst(prog, R, rid="R-C09-UNLINKFIRST", fams=("ares_slist",))
