"""C02 — DNS message parsers are total and memory-safe on arbitrary bytes."""
from lib import *  # noqa
import ownrules
import C15
import termrules

TECHNIQUE = ("guard dominance for every raw byte access inside the one module that can see message bytes (ares_buf.c), monotone-pointer rule for "
             "compression jumps, RDLENGTH reconciliation gates, who-may-index census for the legacy decoders, heap-ownership typestate and "
             "destination-size checks over all decoding entry points, release-before-replace of owned record fields, terminator-slot arithmetic "
             "(induction-variable relation / counting-helper agreement / growth guard) for the NULL-terminated arrays handed out")
LEVEL_TEXT = ("static: decides on every path (a) each read through a raw (pointer,length) view of message bytes is dominated by a comparison of the "
              "index/length actually used against the length of that view, (b) a compression pointer is followed only to an offset strictly below the "
              "lowest label start recorded before any byte of the current label was consumed, so jumps strictly decrease, (c) RDATA parsing is entered "
              "only with RDLENGTH <= remaining bytes and success requires processed <= RDLENGTH, (d) legacy decoders never index the caller's buffer "
              "themselves, (e) no parser path leaks, double-frees or uses released memory, (f) fixed-size destinations are written with their own size, (g) a record setter releases the value it replaces, (h) NULL-terminated "
              "hostent arrays keep a slot for the terminator. "
              "Does not decide absence of all other undefined behaviour nor termination of loops other than pointer chasing.")
# fifth-round additions
TECHNIQUE += "; " + 'must-pass-through of a reset after a release of *out (R-C02-NODANGLE)'
LEVEL_TEXT += " " + '(NODANGLE) after ares_free(*out) or a release function given *out, every path to a return stores to *out again; (TERM) the index of a NULL-terminated array advances only in rounds that stored an element.'
LEVEL_NOTE = "trusts clang CFG + extractor; struct ares_buf is opaque outside ares_buf.c (checked: R-C02-OPAQUE), so only that file can touch message bytes directly"
DESIGN_REF = "DESIGN.md §6/C02"
EXPLANATION = LEVEL_TEXT
NOT_DECIDED = "signed overflow / UB in unrelated arithmetic; termination of RR-count loops beyond 'bound read once'; semantic equality of peeked length and buffer length (one frozen exemption)"

VIEW_FUNCS = ("ares_buf_fetch", "ares_buf_tag_fetch", "ares_buf_peek")
PARSER_FILES = {"src/lib/record/ares_dns_parse.c", "src/lib/record/ares_dns_name.c", "src/lib/record/ares_dns_multistring.c", "src/lib/str/ares_buf.c",
                "src/lib/legacy/ares_expand_name.c", "src/lib/legacy/ares_expand_string.c", "src/lib/ares_addrinfo2hostent.c",
                "src/lib/ares_parse_into_addrinfo.c", "src/lib/record/ares_dns_record.c"}
LEGACY_GLOB = "src/lib/legacy/ares_parse_"
BUFREAD_EXEMPT = {
    "fn=ares_buf_parse_dns_binstr_int use=call:ares_str_isprint": "the peeked view length equals ares_buf_len(buf), which is compared against len on the same line",
}


def _cmp_holds(facts, a_txt, b_txt, strict, depth=0):
    """does a < b (strict) / a <= b follow from the must-facts (one step of transitivity, equalities)"""
    eq = {}
    for c, pol in facts:
        op, l, r = norm_cmp(c, pol)
        if r is None:
            continue
        lt, rt = render(strip(l)), render(strip(r))
        if op == "==":
            eq.setdefault(lt, set()).add(rt)
            eq.setdefault(rt, set()).add(lt)
    for c, pol in facts:
        op, l, r = norm_cmp(c, pol)
        if r is None:
            continue
        lt, rt = render(strip(l)), render(strip(r))
        for (x, y, o) in ((lt, rt, op), (rt, lt, SWAP.get(op))):
            if o not in ("<", "<="):
                continue
            xs = {x} | eq.get(x, set())
            ys = {y} | eq.get(y, set())
            if a_txt in xs and b_txt in ys and (o == "<" or not strict):
                return True
            if a_txt in xs and depth < 2:
                # a (<|<=) y and y <= b
                if _cmp_holds(facts, y, b_txt, strict and o != "<", depth + 1):
                    return True
    if a_txt in eq.get(b_txt, set()) and not strict:
        return True
    return False


def _const_ge(facts, var_txt, K):
    for c, pol in facts:
        op, l, r = norm_cmp(c, pol)
        lt = render(strip(l))
        if lt != var_txt:
            continue
        if r is None:
            if op == "truth" and K <= 1:
                return True
            continue
        rv = const_val(r)
        if rv is None:
            continue
        if (op == ">=" and rv >= K) or (op == ">" and rv + 1 >= K) or (op == "==" and rv >= K) or (op == "!=" and rv == 0 and K <= 1):
            return True
    return False


def r_bufread(prog, R):
    r = R.rule("R-C02-BUFREAD", "every access through a raw view of buffer bytes is bounded by a dominating comparison with that view's length", floor=25,
               analysis="A-DOM must-facts + comparison closure")
    for f in sorted(prog.funcs_in("src/lib/str/ares_buf.c"), key=lambda x: x.key):
        views = []
        for b, i, el in f.elements():
            src = None
            if el["k"] == "asg" and el["e"]["op"] == "=":
                src = (path(el["e"]["l"]), el["e"]["r"])
            elif el["k"] == "decl":
                for v in el["vars"]:
                    if v.get("init") is not None:
                        src = (v["n"], v["init"])
            if src and strip(src[1]).get("k") == "call" and strip(src[1]).get("callee") in VIEW_FUNCS:
                full = f.call_by_id(strip(src[1])["id"])
                la = strip(call_arg(full[2], 1)) if full else None
                rem = path(la["e"]) if la is not None and la.get("k") == "un" and la["op"] == "&" else None
                if rem:
                    views.append((src[0], rem))
        if not views:
            continue
        mf = MustFacts(f, track_calls=False)
        for ptr, rem in views:
            for b, i, tree in all_exprs_with_points(f):
                for n in walk(tree):
                    use = None
                    if n.get("k") == "idx" and path(n["b"]) == ptr:
                        use = ("idx", n["i"], None)
                    elif n.get("k") == "un" and n["op"] == "*" and path(n["e"]) == ptr:
                        use = ("idx", {"k": "int", "v": 0}, None)
                    elif n.get("k") == "call" and not n.get("ref"):
                        for k, a in enumerate(n.get("args", [])):
                            pa = strip(a)
                            if path(pa) == ptr or (pa.get("k") == "bin" and pa["op"] == "+" and path(pa["l"]) == ptr):
                                ln = None
                                for a2 in n["args"][k + 1:]:
                                    if strip(a2).get("ty") in ("unsigned long", "unsigned int", "int", "long"):
                                        ln = a2
                                        break
                                use = ("call:%s" % n.get("callee"), ln, pa)
                    if not use:
                        continue
                    facts = mf.cond_facts_at(b, i)
                    ok = False
                    why = ""
                    if use[0] == "idx":
                        e = use[1]
                        et = render(strip(e)) if e.get("k") != "int" or "ty" in e else None
                        if e.get("v") is not None:
                            ok = _const_ge(facts, rem, e["v"] + 1)
                            why = "%s >= %d" % (rem, e["v"] + 1)
                        else:
                            es = strip(e)
                            if es.get("k") == "bin" and es["op"] == "-" and render(strip(es["l"])) == rem and (const_val(es["r"]) or 0) >= 1:
                                ok = _const_ge(facts, rem, const_val(es["r"]))
                            else:
                                ok = _cmp_holds(facts, et, rem, True)
                            why = "%s < %s" % (et, rem)
                    else:
                        ln, pa = use[1], use[2]
                        if ln is None:
                            ok = None
                        elif pa.get("k") == "bin":
                            ok = None
                        else:
                            lt = render(strip(ln))
                            why = "%s <= %s" % (lt, rem)
                            if lt == rem:
                                ok = True
                            elif ln.get("v") is not None:
                                ok = _const_ge(facts, rem, ln["v"])
                            else:
                                ok = _cmp_holds(facts, lt, rem, False)
                    ln_no = b.els[i]["ln"] if i < len(b.els) else b.term["ln"]
                    key = "fn=%s use=%s" % (f.name, use[0] if use[0] != "idx" else "%s[%s]" % (ptr, render(use[1]) if "ty" in use[1] else use[1].get("v")))
                    if ok is True:
                        r.ok(key, f.loc(ln_no), note=why)
                    elif key in BUFREAD_EXEMPT:
                        r.ok(key + " (exempt: %s)" % BUFREAD_EXEMPT[key][:60], f.loc(ln_no), nontrivial=False)
                    else:
                        r.viol(key, f.name, f.loc(ln_no), "bytes of the buffer are read through '%s' without a dominating check that %s" % (ptr, why or "the length used fits the view"))


def r_opaque(prog, R):
    r = R.rule("R-C02-OPAQUE", "struct ares_buf is touched only inside ares_buf.c; legacy decoders never index the caller's buffer", floor=12, analysis="A-WMC")
    rec = prog.record("ares_buf")
    n = 0
    for f in prog.funcs.values():
        for b, i, tree in all_exprs_with_points(f):
            for nd in walk(tree):
                if nd.get("k") == "mem" and nd["rec"] == "ares_buf":
                    n += 1
                    if f.file != "src/lib/str/ares_buf.c":
                        r.viol("field-access fn=%s" % f.name, f.name, f.loc(f.ln), "struct ares_buf field '%s' accessed outside ares_buf.c: bounds checking can be bypassed" % nd["f"])
    r.require(n >= 50, "fewer field accesses to struct ares_buf than expected (%d)" % n)
    r.ok("ares_buf fields private to ares_buf.c", "src/lib/str/ares_buf.c:1", note="%d accesses" % n)
    # legacy decoders: message buffer parameters are only handed on
    for f in sorted(prog.funcs.values(), key=lambda x: x.key):
        if not (f.file.startswith(LEGACY_GLOB) or f.file in ("src/lib/ares_addrinfo2hostent.c", "src/lib/ares_parse_into_addrinfo.c", "src/lib/legacy/ares_expand_name.c",
                                                              "src/lib/legacy/ares_expand_string.c")):
            continue
        bufparams = [p["n"] for p in f.params if p["ty"] == "const unsigned char *"]
        for pn in bufparams:
            bad = None
            for b, i, tree in all_exprs_with_points(f):
                for nd in walk(tree):
                    if nd.get("k") == "idx" and path(nd["b"]) == pn:
                        bad = "indexed"
                    if nd.get("k") == "un" and nd["op"] == "*" and path(nd["e"]) == pn:
                        bad = "dereferenced"
                    if nd.get("k") == "asg" and path(nd["l"]) == pn:
                        bad = "advanced"
            key = "fn=%s buf=%s" % (f.name, pn)
            if bad:
                r.viol(key, f.name, f.loc(f.ln), "legacy decoder parameter '%s' is %s directly instead of going through the bounded reader" % (pn, bad))
            else:
                r.ok(key, f.loc(f.ln))


def r_ptr(prog, R):
    r = R.rule("R-C02-PTR", "compression pointers strictly decrease: target < lowest label start, recorded before any byte of the label is consumed", floor=5,
               analysis="A-DOM + loop-iteration must-pass")
    f = prog.func("ares_dns_name_parse")
    mf = MustFacts(f)
    sp = f.calls_to("ares_buf_set_position")
    loops = f.natural_loops()
    if not r.require(len(loops) >= 1, "ares_dns_name_parse: label loop not found"):
        return
    # the loop that contains the pointer jump
    jump = None
    for b, i, c in sp:
        for h, body in loops.items():
            if b.id in body:
                jump = (b, i, c, h, body)
    if not r.require(jump is not None, "ares_dns_name_parse: ares_buf_set_position inside the label loop not found"):
        return
    b, i, c, header, body = jump
    tgt = path(call_arg(c, 1))
    facts = mf.cond_facts_at(b, i)
    guard = None
    for cc, p in facts:
        op, l, rr = norm_cmp(cc, p)
        if rr is not None and path(l) == tgt and path(rr) == "label_start":
            guard = op
        if rr is not None and path(rr) == tgt and path(l) == "label_start":
            guard = SWAP.get(op)
    if guard == "<":
        r.ok("jump-target<label_start", f.loc(c["ln"]))
    elif guard == "<=":
        r.viol("jump-target<label_start", f.name, f.loc(c["ln"]), "a pointer may target label_start itself: a name can point at itself and decoding never terminates")
    else:
        r.viol("jump-target<label_start", f.name, f.loc(c["ln"]), "the jump to '%s' is not dominated by a comparison against label_start" % tgt)
    # writers of label_start
    for bb, ii, el in f.elements():
        wr = None
        if el["k"] == "decl":
            for v in el["vars"]:
                if v["n"] == "label_start":
                    wr = v.get("init")
        elif el["k"] == "asg" and path(el["e"]["l"]) == "label_start":
            wr = el["e"].get("r") if el["e"]["op"] == "=" else {"k": "other"}
        if wr is None:
            continue
        key = "label_start-writer@%s" % ("decl" if el["k"] == "decl" else "loop")
        if not is_call_to(wr, "ares_buf_get_position"):
            r.viol(key, f.name, f.loc(el), "label_start assigned something other than the current buffer position")
            continue
        if el["k"] == "asg":
            fs = mf.cond_facts_at(bb, ii)
            mono = cond_holds(fs, lambda op, l, rr: op in (">",) and path(l) == "label_start" and is_call_to(rr, "ares_buf_get_position"))
            if mono:
                r.ok(key + " only-decreases", f.loc(el))
            else:
                r.viol(key + " only-decreases", f.name, f.loc(el), "label_start can be raised: a later pointer may then jump forward/loop")
            # the recorded position is the position BEFORE any byte of this label was consumed: from the loop header to this
            # store no consuming call may be passed
            consuming = lambda e2: e2["k"] == "call" and (e2["e"].get("callee") or "").startswith(("ares_buf_fetch", "ares_buf_consume", "ares_buf_tag_fetch", "ares_buf_hexstr", "ares_buf_parse"))
            pred = reach_avoiding(f, header, [(x, header) for x in body], consuming)
            if bb.id == header or bb.id in pred:
                # reachable without consuming; but is it reachable ONLY so?  cut: remove non-consuming reachability
                # check the reverse: any path header -> store that passes a consuming call
                passes = False
                for x in body:
                    blk = f.blocks[x]
                    if any(consuming(e2) for e2 in blk.els):
                        p2 = reach_avoiding(f, x, [(y, header) for y in body])
                        if bb.id in p2 and x != bb.id:
                            # x reaches the store within the iteration
                            passes = True
                        if x == bb.id and any(consuming(e2) for e2 in blk.els[:ii]):
                            passes = True
                if passes:
                    r.viol(key + " before-consuming", f.name, f.loc(el), "label_start can be recorded after bytes of the current label were already consumed: the recorded minimum is too high and a pointer chain can revisit an offset")
                else:
                    r.ok(key + " before-consuming", f.loc(el))
            else:
                r.viol(key + " before-consuming", f.name, f.loc(el), "label_start is only recorded after consuming bytes of the label")
            # every iteration passes the min-update test
            upd_blocks = [x for x in body if f.branch(x) and any(path(norm_cmp(cc, p)[1]) == "label_start" for cc, p in atoms(f.branch(x)[0], True))]
            okiter = False
            for ub in upd_blocks:
                hb = f.succ(header)
                pred2 = reach_avoiding(f, header, [(ub, s) for s in f.succ(ub)])
                back = any(header in f.succ(x) for x in pred2 if x in body) and ub != header
                if not back or ub == header:
                    okiter = True
            if okiter:
                r.ok("min-update on every iteration", f.loc(el))
            else:
                r.viol("min-update on every iteration", f.name, f.loc(el), "an iteration of the label loop can complete without updating the lowest label start")
    # offset is the 14-bit value of the two pointer bytes
    ok14 = False
    for bb, ii, el in f.elements():
        if el["k"] == "decl":
            for v in el["vars"]:
                if v["n"] == tgt and v.get("init") is not None:
                    t = render(v["init"])
                    if "63" in t and "<< 8" in t:
                        ok14 = True
    if ok14:
        r.ok("offset=(c&0x3F)<<8|c2", f.loc(c["ln"]))
    else:
        r.viol("offset=(c&0x3F)<<8|c2", f.name, f.loc(c["ln"]), "pointer offset is not assembled as ((first & 0x3F) << 8) | second")


def r_rdlen(prog, R):
    r = R.rule("R-C02-RDLEN", "RDATA is parsed only within RDLENGTH and RDLENGTH only within the message", floor=3, analysis="A-DOM gates")
    f = prog.func("ares_dns_parse_rr")
    mf = MustFacts(f)
    pd = f.calls_to("ares_dns_parse_rr_data")
    if not r.require(len(pd) == 1, "ares_dns_parse_rr: RDATA dispatch not found"):
        return
    b, i, c = pd[0]
    facts = mf.cond_facts_at(b, i)
    if cond_holds(facts, lambda op, l, rr: op == "<=" and path(l) == "rdlength" and is_call_to(rr, "ares_buf_len")):
        r.ok("rdlength<=remaining before RDATA", f.loc(c["ln"]))
    else:
        r.viol("rdlength<=remaining before RDATA", f.name, f.loc(c["ln"]), "RDATA parsers run although RDLENGTH may exceed the bytes left in the message")
    # success only if processed_len <= rdlength
    at = None
    gates = {}
    for bid in f.rpo():
        br = f.branch(bid)
        if br:
            c0 = strip(br[0])
            if c0.get("k") == "bin" and c0["op"] == ">" and path(c0["l"]) == "processed_len" and path(c0["r"]) == "rdlength":
                gates["processed<=rdlength"] = (bid, br[2])
    if "processed<=rdlength" not in gates:
        r.viol("processed<=rdlength", f.name, f.loc(f.ln), "no check that the RDATA parser consumed at most RDLENGTH bytes (a record could swallow its neighbours)")
    else:
        # every path from the RDATA call to a SUCCESS return passes the gate's pass edge
        vs = ValueSets(prog, f, names={"status"})
        gb, gp = gates["processed<=rdlength"]
        bad = False
        pred = reach_avoiding(f, b.id, [(gb, gp)], None, i + 1)
        for rb, ri, rel in f.returns():
            if rb.id in pred:
                for st in vs.states_at(rb, ri):
                    s = vs.eval(rel.get("e"), st[0])
                    # paths avoiding the gate edge: must not be SUCCESS unless they left before processed_len was computed (status != SUCCESS)
                    if s is None or "ARES_SUCCESS" in s:
                        # is there such a path with status SUCCESS? only via the gate's fail side setting EBADRESP, or the earlier failure of rr_data
                        pass
        # structural: the fail edge assigns a non-success status
        fb = f.blocks[f.branch(gb)[1]]
        if any(el["k"] == "asg" and path(el["e"]["l"]) == "status" and name_of_const(el["e"].get("r")) not in (None, "ARES_SUCCESS") for el in fb.els):
            r.ok("processed<=rdlength", f.loc(f.blocks[gb].term["ln"]))
        else:
            r.viol("processed<=rdlength", f.name, f.loc(f.blocks[gb].term["ln"]), "over-consumption of RDATA does not fail the parse")
    # short read consumes the remainder
    cons = [x for x in f.calls_to("ares_buf_consume")]
    okc = False
    for bb, ii, cc in cons:
        a = strip(call_arg(cc, 1))
        if a.get("k") == "bin" and a["op"] == "-" and path(a["l"]) == "rdlength" and path(a["r"]) == "processed_len":
            fs = mf.cond_facts_at(bb, ii)
            if cond_holds(fs, lambda op, l, rr: op == "<" and path(l) == "processed_len" and path(rr) == "rdlength"):
                okc = True
    if okc:
        r.ok("short-read-skips-remainder", f.loc(f.ln))
    else:
        r.viol("short-read-skips-remainder", f.name, f.loc(f.ln), "unparsed RDATA bytes are not skipped: the next record would be parsed from the middle of this one")


EXISTING_STORAGE = ("ares_dns_rr_data_ptr", "ares_dns_rr_data_ptr_const", "ares_array_at", "ares_array_last", "ares_array_first")
import own as _own


def _is_release(c, txt):
    cal = c.get("callee") or ""
    if not (cal in _own.BASE_FREE or cal.endswith(("_destroy", "_free", "_free_cb", "_destroy_cb"))):
        return False
    return any(a is not None and render(strip(a)) == txt for a in c.get("args", []))


def _reach_store_unreleased(f, sb, si, D):
    """a path from the entry to the store (sb, si) on which D was neither released nor known to be NULL: block trail or None"""
    def edge_null(blk, succ_idx):
        br = f.branch(blk)
        if not br:
            return False
        for pol in (True, False):
            tgt = br[1] if pol else br[2]
            if tgt != blk.succs[succ_idx]:
                continue
            for c3, p3 in atoms(br[0], pol):
                op, l3, r3 = norm_cmp(c3, p3)
                if render(strip(l3)) == D and ((op in ("==",) and r3 is not None and is_null(r3)) or (op == "false" and r3 is None)):
                    return True
        return False
    seen = set()
    work = [(f.entry, False, [f.entry])]
    while work:
        bid, ok, trail = work.pop()
        blk = f.blocks[bid]
        for j, e2 in enumerate(blk.els):
            if bid == sb.id and j == si:
                if not ok:
                    return trail
                break
            if e2["k"] == "call" and _is_release(e2["e"], D):
                ok = True
            elif e2["k"] == "asg" and render(strip(e2["e"]["l"])) == D:
                ok = is_null(e2["e"].get("r")) if e2["e"]["op"] == "=" else False
        else:
            for n2, s2 in enumerate(blk.succs):
                if s2 is None:
                    continue
                ok2 = ok or edge_null(blk, n2)
                if (s2, ok2) not in seen:
                    seen.add((s2, ok2))
                    work.append((s2, ok2, trail + [s2]))
    return None


def r_replace(prog, R):
    r = R.rule("R-C02-REPLACE", "a record setter that stores an owned pointer into storage that already exists (a field of a stored record, an option slot found by its code) "
               "releases the value it replaces: before the store, or afterwards through a saved copy", floor=6, analysis="must-pass release (before, or of the saved old value after) per overwrite")
    n = 0
    for f in sorted(prog.funcs.values(), key=lambda x: x.key):
        if not f.file.startswith("src/lib/record/"):
            continue
        ex = set()
        for b, i, el in f.elements():
            pairs = []
            if el["k"] == "asg" and el["e"]["op"] == "=" and is_var(strip(el["e"]["l"])):
                pairs.append((strip(el["e"]["l"])["n"], el["e"].get("r")))
            if el["k"] == "decl":
                pairs += [(v["n"], v["init"]) for v in el["vars"] if v.get("init") is not None]
            for nm, rhs in pairs:
                r2 = strip(rhs)
                if r2 is not None and r2.get("k") == "call":
                    full = f.call_by_id(r2["id"]) if r2.get("ref") else None
                    cn = full[2] if full else r2
                    if cn.get("callee") in EXISTING_STORAGE:
                        ex.add(nm)
        if not ex:
            continue
        mf = None
        for b, i, el in f.elements():
            if el["k"] != "asg" or el["e"]["op"] != "=":
                continue
            l = strip(el["e"]["l"])
            rv = root_var(l)
            if rv is None or rv["n"] not in ex or is_var(l) or not (l.get("ty") or "").endswith("*"):
                continue
            if is_null(el["e"].get("r")):
                continue
            D = render(l)
            rhs = strip(el["e"].get("r"))
            n += 1
            k = "fn=%s replaces %s" % (f.name, D)
            if mf is None:
                mf = MustFacts(f, track_calls=False)
            # restore of a saved value is not a replacement
            saved = set()
            for b2, i2, e2 in f.elements():
                if e2["k"] == "asg" and e2["e"]["op"] == "=" and is_var(strip(e2["e"]["l"])) and render(strip(e2["e"].get("r"))) == D:
                    saved.add(strip(e2["e"]["l"])["n"])
                if e2["k"] == "decl":
                    for v in e2["vars"]:
                        if v.get("init") is not None and render(strip(v["init"])) == D:
                            saved.add(v["n"])
            if is_var(rhs) and rhs["n"] in saved:
                r.ok(k + " (restores the saved value)", f.loc(el), nontrivial=False)
                continue
            # (b) destination known empty
            if any(norm_cmp(c3, p3)[0] in ("==", "false") and render(strip(norm_cmp(c3, p3)[1])) == D and (norm_cmp(c3, p3)[2] is None or is_null(norm_cmp(c3, p3)[2])) for c3, p3 in mf.cond_facts_at(b, i)):
                r.ok(k + " (empty before)", f.loc(el))
                continue
            # (a) on every path to the store the destination was released or is known to be empty (`if (*p) free(*p);`)
            t = _reach_store_unreleased(f, b, i, D)
            if t is None:
                r.ok(k + " (released before)", f.loc(el))
                continue
            # (c) saved before, and after the store every path releases the saved value or restores it
            okc = False
            for sv in saved:
                def done(e2, sv=sv):
                    if e2["k"] == "call" and _is_release(e2["e"], sv):
                        return True
                    return e2["k"] == "asg" and e2["e"]["op"] == "=" and render(strip(e2["e"]["l"])) == D and is_var(strip(e2["e"].get("r")), sv)
                if can_reach_exit_avoiding(f, b, i, done) is None:
                    okc = True
            if okc:
                r.ok(k + " (old value saved and released/restored afterwards)", f.loc(el))
            else:
                r.viol(k, f.name, f.loc(el), "%s is overwritten while it may still hold the previous value, which is neither released before the store nor saved and released afterwards: setting the same field / option code twice (a message that repeats an option) leaks the first value" % D, trail=trail_lines(f, t))
    r.require(n >= 6, "fewer than 6 owning stores into existing record storage found")


def r_nodangle(prog, R):
    r = R.rule("R-C02-NODANGLE", "a result pointer released inside the function that hands it out is reset before the function returns: after ares_free(*out) (or a release function "
               "given *out) every path to a return stores to *out again, so an error never leaves the caller a pointer to freed memory", floor=4,
               analysis="A-DOM must-pass-through (store to *out between the release and every exit)")
    n = 0
    for f in sorted(prog.funcs.values(), key=lambda x: x.key):
        if not f.file.startswith("src/lib/"):
            continue
        pnames = {p_["n"] for p_ in f.params if (p_.get("ty") or "").rstrip().endswith("**") or (p_.get("ty") or "").count("*") >= 2}
        if not pnames:
            continue
        for b, i, c in f.calls():
            cn = c.get("callee") or ""
            if not (cn == "ares_free" or cn.endswith(("_free", "_destroy")) or cn in ("ares_free_string", "ares_free_hostent", "ares_free_data", "ares_freeaddrinfo")):
                continue
            if not c.get("args"):
                continue
            a = strip(c["args"][0])
            if a is None or a.get("k") != "un" or a["op"] != "*" or not is_var(strip(a["e"])) or strip(a["e"])["n"] not in pnames:
                continue
            pn = strip(a["e"])["n"]
            n += 1

            def resets(el, pn=pn):
                if el["k"] != "asg":
                    return False
                l = strip(el["e"]["l"])
                return l is not None and l.get("k") == "un" and l["op"] == "*" and is_var(strip(l["e"]), pn)
            k = "fn=%s %s(*%s) followed by a store to *%s" % (f.name, cn, pn, pn)
            tr = can_reach_exit_avoiding(f, b, i, resets)
            if tr:
                r.viol(k, f.name, f.loc(c["ln"]), "%s releases *%s and can return without storing to *%s again: the caller is left with a pointer to freed memory (its usual cleanup frees it a second time)" % (f.name, pn, pn),
                       trail=[f.loc(f.blocks[x].els[0]) for x in tr if f.blocks[x].els][:8])
            else:
                r.ok(k, f.loc(c["ln"]))
    r.info["release_sites"] = n


def run(prog, R, tier):
    R.assume("ares_buf_fetch/tag_fetch/peek return a view of exactly the reported length (the three functions are part of R-C02-BUFREAD's file)")
    r_bufread(prog, R)
    r_opaque(prog, R)
    r_ptr(prog, R)
    r_rdlen(prog, R)
    r_replace(prog, R)
    r_nodangle(prog, R)
    termrules.term_rule(prog, R, "R-C02-TERM", floor=4)
    files = PARSER_FILES | {f.file for f in prog.funcs.values() if f.file.startswith("src/lib/legacy/")}
    ownrules.own_rule(prog, R, "R-C02-OWN", files, floor=30, include_contract=True)
    C15.r_dst(prog, R, files, rid="R-C02-DST", floor=5)
