"""C04 — decoded records say what the wire bytes say (finite, table-shaped part only)."""
import json
import os
from lib import *  # noqa
import evalx
import order
from order import nocast, key
import C03
import codecrules

TECHNIQUE = ("table agreement of extracted constants with a frozen RFC/IANA table (header bit layout, OPT TTL overloading evaluated exactly over the 32 "
             "single-bit inputs of the extracted expression trees, enumerator values), must-set typestate of every declared key on every success path "
             "of each RR parser, key/datatype/primitive consistency, exact finite-domain evaluation of the label escaping expressions over all 256 byte "
             "values, and a rejection-cause rule (the name parser may reject only on wire-derived quantities)"
             ", guard-vocabulary check of every failure on the parse path against frozen protocol limits, def-use purity of numeric setter arguments, callee-precondition x dominating non-zero fact for length-rejecting primitives")
LEVEL_TEXT = ("static: decides only the finite part of RFC agreement: header flag/opcode/rcode positions on both sides; the OPT pseudo-RR's class/TTL "
              "overloading and extended-rcode assembly as exact bit maps; numeric values of all type/class/opcode/rcode/option/SVCB-key enumerators against "
              "a frozen IANA table; every key a record type declares is set on every success path of its parser; key <-> datatype <-> wire primitive "
              "agreement; the escaping of a label byte is '\\\\DDD' with exactly three decimal digits for all 256 values and the un-escaper reads the same "
              "number of digits; the name parser rejects only on wire-derived conditions (no implementation-chosen iteration limits). Does NOT decide "
              "agreement with a reference decoder on all inputs."
              " Also decides (LIMIT) that the parse path fails on magnitudes only at frozen protocol limits, (PURE) that numeric wire fields reach the record unmodified, (ZEROLEN) that zero-length fields the RFC allows are not turned into errors.")
# fifth-round additions
TECHNIQUE += "; " + "exact evaluation of ares_dns_class_isvalid (switch included) over types x classes, linear normal form of the name splitter's rejecting guards at the legal maxima, guard vocabulary of the name write path, escape-aware gate on the compression match, shape of the option-storing callee"
LEVEL_TEXT += " " + "(CLASS) undecoded types are taken with any class, IN/CH/HS/NONE for every type, ANY in questions; (NAMELEN) labels of 63 and names of 255 wire octets pass the splitter; (PRESLIMIT) no failure on the length of a presentation name on the write path; (SUFFIX) a compression match is accepted only behind a gate derived from a test of the escape character; (PURE) the OPT class/ttl overload is keyed on the record's own type; (OPTDUP) repeated option codes are not collapsed -- violated on the pinned tree, known finding."
# sixth-round additions
TECHNIQUE += "; " + "frozen RFC table of character-strings that may be empty; exact evaluation of the escape gate of the compression lookup over modelled strings; comparator of the option scan's early exit"
LEVEL_TEXT += " " + '(BLANK) character-strings the RFCs allow to be empty are parsed with blank_allowed, the CAA tag is not; (SUFFIXEXACT) the escape test in front of a compression match is exact for 0..4 backslashes at any position of the name; (OPTKEY) a stored option is replaced only by one of the same code.'
# seventh/eighth-round addition
TECHNIQUE += "; " + "must-pass-through from the writers of the raw response code to the parser's success return with stores to the reported code as barriers (R-C04-RCODEFINAL)"
LEVEL_TEXT += " " + "(RCODEFINAL, eighth round) the response code a parsed message reports is settled from the complete 12-bit wire value on every path to the parser's success return; an unassigned value maps to SERVFAIL."
# ninth-round addition
TECHNIQUE += "; " + "exact evaluation of the name decoder's pointer and label-type expressions over all 256 octet values (R-C04-PTRBITS)"
LEVEL_TEXT += " " + '(PTRBITS, ninth round) a compression pointer is read as 6 + 8 offset bits and the label types 11 / 10,01 / 00 are told apart exactly as RFC 1035 4.1.4 lays them out.'
LEVEL_NOTE = "trusts clang CFG + extractor and the frozen table tables/iana.json (written from the RFCs); differential agreement on all messages needs execution"
DESIGN_REF = "DESIGN.md §6/C04"
EXPLANATION = LEVEL_TEXT
NOT_DECIDED = "agreement with an independent reference decoder for all messages (differential testing); acceptance of every well-formed message outside the rejection-cause rule"

TAB = json.load(open(os.path.join(os.path.dirname(__file__), "..", "..", "..", "tables", "iana.json")))

KIND_DT = {"name": {"ARES_DATATYPE_NAME"}, "str": {"ARES_DATATYPE_STR"}, "rawstr": {"ARES_DATATYPE_STR", "ARES_DATATYPE_NAME"}, "abin": {"ARES_DATATYPE_ABINP"},
           "be32": {"ARES_DATATYPE_U32"}, "be16": {"ARES_DATATYPE_U16"}, "u8": {"ARES_DATATYPE_U8"}, "addr4": {"ARES_DATATYPE_INADDR"},
           "addr6": {"ARES_DATATYPE_INADDR6"}, "bin": {"ARES_DATATYPE_BIN", "ARES_DATATYPE_BINP"}, "opt": {"ARES_DATATYPE_OPT"}}
LIST_KEYS_MAY_BE_EMPTY = {"ARES_DATATYPE_OPT"}


# ---------------------------------------------------------------- header bits
def _flag_pairs_parse(f):
    """[(mask, FLAG)] from `if (u16 & K) dns_flags |= FLAG`"""
    out = []
    for b in f.blocks.values():
        br = f.branch(b)
        if not br:
            continue
        c = nocast(br[0])
        if c is None or c.get("k") != "bin" or c["op"] != "&" or const_val(c["r"]) is None:
            continue
        ts = f.blocks.get(br[1])
        if ts is None:
            continue
        for el in ts.els:
            if el["k"] == "asg" and el["e"]["op"] == "|=":
                nm = name_of_const(el["e"].get("r"))
                if nm and nm.startswith("ARES_FLAG_"):
                    out.append((const_val(c["r"]), nm[len("ARES_FLAG_"):], el["ln"]))
    return out


def _flag_pairs_write(f):
    """[(mask, FLAG)] from `if (flags & FLAG) u16 |= K`"""
    out = []
    for b in f.blocks.values():
        br = f.branch(b)
        if not br:
            continue
        c = nocast(br[0])
        if c is None or c.get("k") != "bin" or c["op"] != "&":
            continue
        nm = name_of_const(c["r"])
        if not (nm and nm.startswith("ARES_FLAG_")):
            continue
        ts = f.blocks.get(br[1])
        for el in (ts.els if ts else []):
            if el["k"] == "asg" and el["e"]["op"] == "|=" and const_val(el["e"].get("r")) is not None:
                out.append((const_val(el["e"]["r"]), nm[len("ARES_FLAG_"):], el["ln"]))
    return out


def r_bits(prog, R):
    r = R.rule("R-C04-BITS", "header flag/opcode/rcode positions and the OPT TTL/class overloading agree with RFC 1035 4.1.1 / RFC 6891 6.1.3 on both sides", floor=24, analysis="A-TAB + exact bit maps of extracted expressions")
    want = TAB["header_flags"]
    pf, wf = prog.func("ares_dns_parse_header"), prog.func("ares_dns_write_header")
    for side, f, pairs in (("parser", pf, _flag_pairs_parse(pf)), ("writer", wf, _flag_pairs_write(wf))):
        got = {}
        for m, fl, ln in pairs:
            got.setdefault(fl, []).append((m, ln))
        for fl, m in sorted(want.items()):
            k = "%s header flag %s" % (side, fl)
            g = got.get(fl)
            if not g:
                r.viol(k, f.name, f.loc(f.ln), "%s does not map header bit 0x%x to ARES_FLAG_%s" % (f.name, m, fl))
            elif any(x[0] != m for x in g):
                r.viol(k, f.name, f.loc(g[0][1]), "%s maps ARES_FLAG_%s to bit 0x%x; RFC 1035 says 0x%x" % (f.name, fl, g[0][0], m))
            else:
                r.ok(k + " = 0x%x" % m, f.loc(g[0][1]))
        for fl in sorted(set(got) - set(want)):
            r.viol("%s header flag %s" % (side, fl), f.name, f.loc(got[fl][0][1]), "%s maps an unknown flag ARES_FLAG_%s" % (f.name, fl))
    # opcode / rcode extraction in the parser: exact functions of the flags word
    for var, name, fn in (("opcode", "opcode", lambda w: (w >> TAB["opcode"]["shift"]) & TAB["opcode"]["mask"]), ("rcode", "rcode", lambda w: w & TAB["rcode"]["mask"])):
        asg = [el for _, _, el in pf.elements() if el["k"] == "asg" and el["e"]["op"] == "=" and is_var(nocast(el["e"]["l"]), var)]
        k = "parser %s position" % name
        if not asg:
            r.viol(k, pf.name, pf.loc(pf.ln), "ares_dns_parse_header: assignment of %s not found" % name)
            continue
        e = asg[0]["e"]["r"]
        src = [v["n"] for v in vars_in(e)]
        try:
            good = len(set(src)) == 1 and all(evalx.ev(e, {src[0]: w}) == fn(w) for w in [0] + [1 << i for i in range(16)] + [0xFFFF, 0x7800, 0x000F])
        except evalx.Unknown as x:
            r.broke("parser %s expression not evaluable: %s" % (name, x))
            continue
        if good:
            r.ok(k, pf.loc(asg[0]))
        else:
            r.viol(k, pf.name, pf.loc(asg[0]), "%s is extracted as '%s', not as the RFC 1035 field" % (name, render(e)))
    # writer: opcode masked and shifted, rcode masked
    wop = [el for _, _, el in exec_order(wf) if el["k"] == "asg" and is_var(nocast(el["e"]["l"]), "opcode")]
    sh = [el for el in wop if el["e"]["op"] == "<<=" and const_val(el["e"]["r"]) == TAB["opcode"]["shift"]]
    mk = [el for el in wop if el["e"]["op"] == "=" and "& 15" in render(el["e"]["r"]).replace("0xF", "15").replace("0xf", "15")]
    if sh and mk:
        r.ok("writer opcode position", wf.loc(sh[0]))
    else:
        r.viol("writer opcode position", wf.name, wf.loc(wf.ln), "ares_dns_write_header does not place (opcode & 0xF) << 11")
    wr = [el for _, _, el in exec_order(wf) if el["k"] == "asg" and is_var(nocast(el["e"]["l"]), "rcode") and "rcode" in render(el["e"]["r"])]
    if wr and "& 15" in render(wr[0]["e"]["r"]).replace("0xF", "15").replace("0xf", "15"):
        r.ok("writer rcode position", wf.loc(wr[0]))
    else:
        r.viol("writer rcode position", wf.name, wf.loc(wf.ln), "ares_dns_write_header does not emit rcode & 0xF in the low nibble")
    # OPT parse side
    po = prog.func("ares_dns_parse_rr_opt")
    ttlp = [p["n"] for p in po.params if "ttl" in p["n"]]
    clsp = [p["n"] for p in po.params if "class" in p["n"]]
    if not r.require(ttlp and clsp, "ares_dns_parse_rr_opt: raw ttl/class parameters not found"):
        return
    T = TAB["opt_ttl"]
    exprs = {}
    for b, i, c in po.calls():
        if c.get("callee") in ("ares_dns_rr_set_u8", "ares_dns_rr_set_u16"):
            kn = name_of_const(call_arg(c, 1))
            exprs[kn] = (call_arg(c, 2), c["ln"])
    # extended rcode: what is OR-ed into raw_rcode
    hi = None
    for b, i, el in exec_order(po):
        if el["k"] == "asg" and el["e"]["op"] == "|=" and is_field(el["e"]["l"], "raw_rcode"):
            hi = el
    defs = {}
    for b, i, el in exec_order(po):
        if el["k"] == "asg" and el["e"]["op"] == "=" and nocast(el["e"]["l"]).get("k") == "var":
            defs[nocast(el["e"]["l"])["n"]] = el["e"]["r"]

    def subst(e):
        e2 = nocast(e)
        if e2 is not None and e2.get("k") == "var" and e2["n"] in defs:
            return defs[e2["n"]]
        return e
    checks = [("ARES_RR_OPT_VERSION", lambda w: (w >> T["version_from_bit"]) & ((1 << T["version_bits"]) - 1), "version"),
              ("ARES_RR_OPT_FLAGS", lambda w: (w >> T["flags_from_bit"]) & ((1 << T["flags_bits"]) - 1), "flags")]
    vectors = [0] + [1 << i for i in range(32)] + [0xFFFFFFFF, 0x12345678]
    for kn, fn, nm in checks:
        k = "OPT parse %s bits" % nm
        if kn not in exprs:
            r.viol(k, po.name, po.loc(po.ln), "ares_dns_parse_rr_opt does not set %s" % kn)
            continue
        e, ln = exprs[kn]
        try:
            good = all(evalx.ev(e, {ttlp[0]: w}) == fn(w) for w in vectors)
        except evalx.Unknown as x:
            r.broke("%s expression not evaluable: %s" % (kn, x))
            continue
        if good:
            r.ok(k, po.loc(ln))
        else:
            r.viol(k, po.name, po.loc(ln), "EDNS %s decoded as '%s' which is not TTL bits %d..%d (RFC 6891 6.1.3)" % (nm, render(e), T[nm + "_from_bit"], T[nm + "_from_bit"] + T[nm + "_bits"] - 1))
    k = "OPT parse extended rcode bits"
    if hi is None:
        r.viol(k, po.name, po.loc(po.ln), "ares_dns_parse_rr_opt no longer merges the extended rcode into the record's rcode")
    else:
        e = subst(hi["e"]["r"])
        try:
            fn = lambda w: ((w >> T["ext_rcode_from_bit"]) & ((1 << T["ext_rcode_bits"]) - 1)) << T["ext_rcode_to_bit"]
            good = all(evalx.ev(e, {ttlp[0]: w}) == fn(w) for w in vectors)
        except evalx.Unknown as x:
            good = None
            r.broke("extended rcode expression not evaluable: %s" % x)
        if good:
            r.ok(k, po.loc(hi))
        elif good is False:
            r.viol(k, po.name, po.loc(hi), "extended rcode assembled as '%s': must be TTL bits 24..31 placed above the 4-bit header rcode" % render(e))
    k = "OPT parse udp size = class"
    if "ARES_RR_OPT_UDP_SIZE" in exprs and is_var(nocast(exprs["ARES_RR_OPT_UDP_SIZE"][0]), clsp[0]):
        r.ok(k, po.loc(exprs["ARES_RR_OPT_UDP_SIZE"][1]))
    else:
        r.viol(k, po.name, po.loc(po.ln), "OPT UDP payload size is not taken from the CLASS field")
    # the raw class/ttl handed to the OPT parser are the wire values
    dd = prog.func("ares_dns_parse_rr_data")
    okpass = False
    for b, i, c in dd.calls_to("ares_dns_parse_rr_opt"):
        okpass = is_var(nocast(call_arg(c, 3)), "raw_class") and is_var(nocast(call_arg(c, 4)), "raw_ttl")
    if okpass:
        r.ok("OPT parser receives wire class/ttl", dd.loc(dd.ln))
    else:
        r.viol("OPT parser receives wire class/ttl", dd.name, dd.loc(dd.ln), "ares_dns_parse_rr_opt is not handed the raw CLASS/TTL words")
    # OPT write side: ttl = ext<<24 | version<<16 | flags; class position <- UDP size
    wo = prog.func("ares_dns_write_rr_opt")
    ors = [el for _, _, el in exec_order(wo) if el["k"] == "asg" and el["e"]["op"] == "|=" and is_var(nocast(el["e"]["l"]), "ttl")]
    wdefs = {}
    for b, i, el in exec_order(wo):
        if el["k"] == "decl":
            for v in el["vars"]:
                if v.get("init") is not None:
                    wdefs[v["n"]] = v["init"]
    got = []
    for el in ors:
        e = nocast(el["e"]["r"])
        shift = 0
        inner = e
        if e is not None and e.get("k") == "bin" and e["op"] == "<<" and const_val(e["r"]) is not None:
            shift = const_val(e["r"])
            inner = nocast(e["l"])
        src = render(inner)
        if inner is not None and inner.get("k") == "var" and inner["n"] in wdefs:
            src = render(wdefs[inner["n"]])
        if inner is not None and inner.get("k") == "call":
            cn = inner
            if cn.get("ref"):
                x = wo.call_by_id(cn["id"])
                cn = x[2] if x else cn
            src = "%s(%s)" % (cn.get("callee"), ", ".join(render(a) for a in cn.get("args", [])))
        got.append((shift, src, el["ln"]))
    need = {24: ("rcode", ">> 4"), 16: ("ARES_RR_OPT_VERSION", ""), 0: ("ARES_RR_OPT_FLAGS", "")}
    for sh, (tok, tok2) in need.items():
        k = "OPT write ttl bits %d.." % sh
        g = [x for x in got if x[0] == sh and tok in x[1] and tok2 in x[1]]
        if g:
            r.ok(k, wo.loc(g[0][2]))
        else:
            r.viol(k, wo.name, wo.loc(wo.ln), "ares_dns_write_rr_opt does not place %s at TTL bit %d (found %s)" % (tok, sh, [(a, b) for a, b, _ in got]))
    ordered = [el["e"] for _, _, el in exec_order(wo) if el["k"] == "call"]
    cs = [c for c in ordered if c.get("callee") == "ares_dns_write_rr_be16" and name_of_const(call_arg(c, 2)) == "ARES_RR_OPT_UDP_SIZE"]
    sl = [c for c in ordered if c.get("callee") == "ares_buf_set_length"]
    k = "OPT write udp size into class"
    if cs and sl and "- 2" in render(call_arg(sl[0], 1)) and "- 4" in render(call_arg(sl[0], 1)):
        try:
            back = evalx.ev(call_arg(sl[0], 1), {"len": 100})
        except evalx.Unknown:
            back = None
        if back == 100 - 8:
            r.ok(k, wo.loc(cs[0]["ln"]))
        else:
            r.viol(k, wo.name, wo.loc(sl[0]["ln"]), "OPT writer rewinds %s bytes instead of 8 (RDLENGTH+TTL+CLASS) before overwriting CLASS/TTL" % (100 - back if back is not None else "?"))
    else:
        r.viol(k, wo.name, wo.loc(wo.ln), "OPT writer no longer rewrites CLASS with the UDP size")


# ---------------------------------------------------------------- IANA
def r_iana(prog, R):
    r = R.rule("R-C04-IANA", "numeric values of wire-visible enumerators equal the IANA registry", floor=70, analysis="A-TAB frozen registry")
    for en, tab in TAB.items():
        if en.startswith("_") or en in ("header_flags", "opcode", "rcode", "opt_ttl"):
            continue
        e = prog.enum(en)
        if e is None:
            r.broke("enum %s not found" % en)
            continue
        pre = TAB["_prefix"][en]
        internal = set(TAB["_internal"].get(en, []))
        seen = set()
        for it in e["items"]:
            nm = it["n"][len(pre):] if it["n"].startswith(pre) else it["n"]
            if nm in internal:
                if en == "ares_dns_rec_type_t" and it["v"] <= 0xFFFF:
                    r.viol("%s internal" % it["n"], "", "%s:%s" % (os.path.relpath(e["file"], prog.root), e["ln"]), "%s is an internal marker and must lie outside the 16-bit wire range (is %d)" % (it["n"], it["v"]))
                else:
                    r.ok("%s internal (outside wire range)" % it["n"], "", nontrivial=False)
                continue
            seen.add(nm)
            k = "%s value" % it["n"]
            loc = "%s:%s" % (os.path.relpath(e["file"], prog.root), e["ln"])
            if nm not in tab:
                r.viol(k, "", loc, "%s = %d is not in the frozen registry table (tables/iana.json): confirm against IANA and add it" % (it["n"], it["v"]))
            elif tab[nm] != it["v"]:
                r.viol(k, "", loc, "%s = %d but the IANA registry assigns %d: decoded records report a different %s than the wire says" % (it["n"], it["v"], tab[nm], en))
            else:
                r.ok(k + " = %d" % it["v"], loc)
        for nm in sorted(set(tab) - seen):
            r.viol("%s%s present" % (pre, nm), "", "%s:%s" % (os.path.relpath(e["file"], prog.root), e["ln"]), "registry entry %s (%d) has no enumerator any more" % (nm, tab[nm]))
    # keys are grouped by type: key / 100 == type
    ke = prog.enum("ares_dns_rr_key_t")
    te = {it["n"]: it["v"] for it in prog.enum("ares_dns_rec_type_t")["items"]}
    tv = {v: n for n, v in te.items()}
    for it in ke["items"]:
        t = tv.get(it["v"] // 100)
        k = "%s belongs to a type" % it["n"]
        if t and it["n"].startswith("ARES_RR_" + t[len("ARES_REC_TYPE_"):] + "_"):
            r.ok(k, "", nontrivial=False)
        else:
            r.viol(k, "", "%s:%s" % (os.path.relpath(ke["file"], prog.root), ke["ln"]), "%s = %d is not (type * 100 + n) of the type its name says" % (it["n"], it["v"]))


# ---------------------------------------------------------------- must-set and keymap
def _keys_by_type(prog, r):
    """type enumerator -> [keys] from ares_dns_rr_get_keys' switch and the static tables it returns"""
    f = prog.func("ares_dns_rr_get_keys")
    out = {}
    for b in f.blocks.values():
        if b.term and b.term.get("cls") == "SwitchStmt":
            for succ, vals in f.switch_cases(b):
                if not isinstance(vals, list):
                    continue
                arr = None
                el = _case_ret(f, succ)
                if el is not None:
                    e = nocast(el.get("e"))
                    if e is not None and e.get("k") == "var":
                        arr = e["n"]
                if arr is None:
                    continue
                g = None
                for kk, gg in prog.globals.items():
                    if gg.get("n", gg.get("name")) == arr and gg.get("init") is not None:
                        g = gg
                if g is None:
                    continue
                keys = [n["n"] for n in walk(g["init"]) if n.get("k") == "enum" and n.get("et") == "ares_dns_rr_key_t"]
                for v in vals:
                    out[v["n"]] = keys
    return out


def _case_ret(f, bid):
    """the return element reached from a case label through fall-through (empty) blocks"""
    seen = set()
    while bid is not None and bid not in seen:
        seen.add(bid)
        blk = f.blocks[bid]
        for el in blk.els:
            if el["k"] == "ret":
                return el
        nxt = [x for x in blk.succs if x is not None]
        if len(nxt) != 1:
            return None
        bid = nxt[0]
    return None


def _datatypes(prog):
    f = prog.func("ares_dns_rr_key_datatype")
    out = {}
    for b in f.blocks.values():
        if b.term and b.term.get("cls") == "SwitchStmt":
            for succ, vals in f.switch_cases(b):
                if not isinstance(vals, list):
                    continue
                el = _case_ret(f, succ)
                dt = name_of_const(el.get("e")) if el else None
                for v in vals:
                    out[v["n"]] = dt
    return out


def r_mustset(prog, R):
    r = R.rule("R-C04-MUSTSET", "every key a record type declares is set on every success path of that type's parser", floor=19, analysis="A-VS typestate (keys set) per parser")
    keys = _keys_by_type(prog, r)
    dts = _datatypes(prog)
    if not r.require(len(keys) >= 19, "ares_dns_rr_get_keys: key tables not recognised (%d)" % len(keys)):
        return
    pf = prog.func("ares_dns_parse_rr_data")
    P = C03._dispatch(prog, pf, r)
    summ = Summaries(prog)
    mfs = {}
    for t in sorted(keys):
        p = P.get(t)
        if p is None:
            if t == "ARES_REC_TYPE_ANY":
                continue
            r.viol("type %s has a parser" % t, pf.name, pf.loc(pf.ln), "%s declares keys but has no parser" % t)
            continue

        def on_el(extra, blk, i, el, get):
            if el["k"] == "call" and el["e"].get("callee") in C03.PKIND:
                ks = [strip(a)["n"] for a in el["e"].get("args", []) if strip(a) is not None and strip(a).get("k") == "enum" and strip(a).get("et") == "ares_dns_rr_key_t"]
                if ks:
                    return [frozenset(set(extra) | {ks[0]})]
            return [extra]
        try:
            vs = ValueSets(prog, p, summaries=summ, on_el=on_el, init_extra=frozenset(), cap=4096)
        except AnalysisBroken as x:
            r.broke("%s: %s" % (p.name, x))
            continue
        missing = None
        for b, i, el in p.returns():
            for st in vs.states_at(b, i):
                rs = vs.eval(el.get("e"), st[0])
                if rs is not None and "ARES_SUCCESS" not in rs:
                    continue
                need = [k2 for k2 in keys[t] if dts.get(k2) not in LIST_KEYS_MAY_BE_EMPTY]
                miss = [k2 for k2 in need if k2 not in st[1]]
                # a binary key may stay unset when the path established that there are no bytes for it (length == 0)
                if miss and all(dts.get(k2) in ("ARES_DATATYPE_BIN", "ARES_DATATYPE_BINP") for k2 in miss):
                    mfp = mfs.setdefault(p.key, MustFacts(p, track_calls=False))
                    if any(norm_cmp(c3, p3)[0] == "==" and const_val(norm_cmp(c3, p3)[2]) == 0 and "len" in render(norm_cmp(c3, p3)[1]) for c3, p3 in mfp.cond_facts_at(b, i)):
                        miss = []
                if miss:
                    missing = (el, miss)
        k = "parser %s sets all keys of %s" % (p.name, t)
        if missing:
            r.viol(k, p.name, p.loc(missing[0]), "%s can return success ('%s') without setting %s: the record then reports a default (0/NULL) that is not what the wire says" % (p.name, missing[0].get("t", ""), missing[1]))
        else:
            r.ok(k + " (%d)" % len(keys[t]), p.loc(p.ln))


def r_keymap(prog, R):
    r = R.rule("R-C04-KEYMAP", "key <-> datatype <-> wire primitive agree on the parse and the write side", floor=60, analysis="A-TAB")
    dts = _datatypes(prog)
    keys = _keys_by_type(prog, r)
    wf, pf = prog.func("ares_dns_write_rr"), prog.func("ares_dns_parse_rr_data")
    W, P = C03._dispatch(prog, wf, r), C03._dispatch(prog, pf, r)
    for t in sorted(keys):
        for side, D, kinds in (("parser", P, C03.PKIND), ("writer", W, C03.WKIND)):
            f = D.get(t)
            if f is None:
                continue
            seq, unk = C03._keyseq(f, kinds)
            used = {}
            for kk, kd in seq:
                used.setdefault(kk, set()).add(kd)
            for kk in keys[t]:
                k = "%s %s datatype" % (side, kk)
                dt = dts.get(kk)
                if dt is None:
                    r.viol(k, "ares_dns_rr_key_datatype", f.loc(f.ln), "%s has no datatype" % kk)
                    continue
                kd = used.get(kk)
                if not kd:
                    r.viol(k, f.name, f.loc(f.ln), "%s never handles %s although %s declares it" % (f.name, kk, t))
                    continue
                bad = [x for x in kd if dt not in KIND_DT.get(x, set())]
                if bad:
                    r.viol(k, f.name, f.loc(f.ln), "%s handles %s (declared %s) with the %s primitive" % (f.name, kk, dt, bad[0]))
                else:
                    r.ok(k + " %s/%s" % (dt.replace("ARES_DATATYPE_", ""), sorted(kd)[0]), f.loc(f.ln))
            extra = [kk for kk in used if kk not in keys[t]]
            for kk in extra:
                r.viol("%s %s declared" % (side, kk), f.name, f.loc(f.ln), "%s handles %s which %s does not declare (ares_dns_rr_get_keys)" % (f.name, kk, t))


# ---------------------------------------------------------------- escaping
def r_escape(prog, R):
    r = R.rule("R-C04-ESCAPE", "a non-printable label byte is presented as backslash + exactly three decimal digits (all 256 values); reserved bytes as backslash + byte; the un-escaper reads the same forms", floor=4, analysis="exact finite-domain evaluation of extracted expressions")
    f = prog.func("ares_fetch_dnsname_into_buf")
    # the branch `!ares_isprint(c)`
    hdr = None
    for b in f.blocks.values():
        br = f.branch(b)
        if br and "ares_isprint" in render(br[0]):
            pol_true_is_nonprint = any((not p) and "ares_isprint" in render(c) for c, p in atoms(br[0], True))
            hdr = (b, br[1] if pol_true_is_nonprint else br[2])
    if not r.require(hdr is not None, "non-printable branch not found in ares_fetch_dnsname_into_buf"):
        return
    # collect what is appended on the non-printable path until the `continue`
    seen = set()
    work = [hdr[1]]
    els = []
    while work:
        bid = work.pop()
        if bid in seen:
            continue
        seen.add(bid)
        blk = f.blocks[bid]
        els.extend(blk.els)
        for s in blk.succs:
            if s is not None and f.blocks[s].els and not any("is_reservedch" in e2.get("t", "") for e2 in f.blocks[s].els) and len(seen) < 6:
                # stay inside the branch: stop at the loop increment / reserved-char test
                if any(e2["k"] == "asg" and e2["e"]["op"] in ("++",) for e2 in f.blocks[s].els):
                    continue
                work.append(s)
    stores = {}
    cvar = None
    for el in els:
        if el["k"] == "asg" and nocast(el["e"]["l"]).get("k") == "idx":
            l = nocast(el["e"]["l"])
            stores[const_val(l["i"])] = el["e"]["r"]
            for v in vars_in(el["e"]["r"]):
                cvar = v["n"]
    appends = [el["e"] for el in els if el["k"] == "call" and (el["e"].get("callee") or "").startswith("ares_buf_append")]
    k = "non-printable -> \\DDD"
    verdict = None
    if stores and appends and appends[0].get("callee") == "ares_buf_append":
        n = const_val(call_arg(appends[0], 2))
        if n is None:
            n = (nocast(call_arg(appends[0], 2)) or {}).get("v")
        try:
            good = n == 4 and set(stores) == {0, 1, 2, 3}
            if good:
                for c in range(256):
                    got = [evalx._wrap(evalx.ev(stores[j], {cvar: c} if cvar else {}), "unsigned char") for j in range(4)]
                    if bytes(got) != ("\\%03d" % c).encode():
                        good = False
                        verdict = "byte %d is presented as %r instead of %r" % (c, bytes(got), "\\%03d" % c)
                        break
            elif verdict is None:
                verdict = "escape sequence has %s bytes" % n
        except evalx.Unknown as x:
            r.broke("escape digit expression not evaluable: %s" % x)
            return
        if good:
            r.ok(k + " for all 256 byte values", f.loc(appends[0]["ln"]))
        else:
            r.viol(k, f.name, f.loc(appends[0]["ln"]), "escaping of non-printable label bytes is wrong: %s; the presentation name no longer denotes the wire label (and does not un-escape back)" % verdict)
    elif appends and any(a.get("callee") == "ares_buf_append_num_dec" for a in appends):
        nd = [a for a in appends if a.get("callee") == "ares_buf_append_num_dec"][0]
        width = const_val(call_arg(nd, 2))
        bs = [a for a in appends if a.get("callee") == "ares_buf_append_byte" and const_val(call_arg(a, 1)) == 92]
        if width == 3 and bs:
            r.ok(k + " (append_num_dec width 3)", f.loc(nd["ln"]))
        else:
            r.viol(k, f.name, f.loc(nd["ln"]), "non-printable label bytes are presented with %s decimal digits (ares_buf_append_num_dec width %s): RFC 1035 5.1 requires exactly three, '\\9' + 'a' and '\\009a' would be different names" % ("a variable number of" if not width else width, width))
    else:
        r.broke("escape idiom not recognised in ares_fetch_dnsname_into_buf (stores=%s appends=%s)" % (sorted(stores), [a.get("callee") for a in appends]))
    # reserved characters: '\\' then the byte
    resb = None
    for b in f.blocks.values():
        br = f.branch(b)
        if br and "is_reservedch" in render(br[0]):
            resb = f.blocks[br[1]]
    if resb is not None and any(el["k"] == "call" and el["e"].get("callee") == "ares_buf_append_byte" and const_val(call_arg(el["e"], 1)) == 92 for el in resb.els):
        r.ok("reserved -> backslash + byte", f.loc(resb.els[0]))
    else:
        r.viol("reserved -> backslash + byte", f.name, f.loc(f.ln), "reserved characters are no longer prefixed with a backslash")
    # the reserved set contains '.', '\\' and is a subset of printable ASCII
    rc = prog.func("is_reservedch")
    vals = set()
    for b in rc.blocks.values():
        if b.term and b.term.get("cls") == "SwitchStmt":
            for succ, vs in rc.switch_cases(b):
                el = _case_ret(rc, succ)
                if isinstance(vs, list) and el is not None and name_of_const(el.get("e")) == "ARES_TRUE":
                    vals |= {const_val(v) for v in vs}
    if {46, 92} <= vals and all(v is not None and 32 < v < 127 for v in vals):
        r.ok("reserved set contains '.' and '\\\\'", rc.loc(rc.ln))
    else:
        r.viol("reserved set contains '.' and '\\\\'", rc.name, rc.loc(rc.ln), "is_reservedch no longer covers '.' and '\\' (a dot inside a label would read as a label separator): %s" % sorted(v for v in vals if v is not None))
    # un-escape: digit -> exactly 2 more digits, value <= 255
    u = prog.func("ares_parse_dns_name_escape")
    loops = u.natural_loops()
    bound = None
    for h, body in loops.items():
        br = u.branch(h)
        if br:
            op, l, rr = norm_cmp(br[0], True)
            if op == "<" and const_val(rr) is not None:
                bound = const_val(rr)
    lim = any(b.term and b.term.get("cond") is not None and norm_cmp(b.term["cond"], True)[0] == ">" and const_val(norm_cmp(b.term["cond"], True)[2]) == 255 for b in u.blocks.values())
    if bound == 2 and lim:
        r.ok("un-escape reads 3 digits, rejects > 255", u.loc(u.ln))
    else:
        r.viol("un-escape reads 3 digits, rejects > 255", u.name, u.loc(u.ln), "ares_parse_dns_name_escape reads %s further digits (must be 2) / range check present=%s" % (bound, lim))


# ---------------------------------------------------------------- rejection causes
def _count_vars(f):
    """locals whose every definition is a constant or an increment by a constant: iteration counters"""
    defs = {}
    for b, i, el in f.elements():
        if el["k"] == "decl":
            for v in el["vars"]:
                if v.get("init") is not None:
                    defs.setdefault(v["n"], []).append(("=", v["init"]))
        elif el["k"] == "asg":
            l = nocast(el["e"]["l"])
            if l is not None and l.get("k") == "var" and l.get("vk") == "local":
                defs.setdefault(l["n"], []).append((el["e"]["op"], el["e"].get("r")))
        elif el["k"] == "call":
            for a in order.addr_args(el["e"]):
                if a is not None and a.get("k") == "var":
                    defs.setdefault(a["n"], []).append(("&", None))
    # `if (++x > N)` appears inside conditions: scan terminators too
    for b in f.blocks.values():
        if b.term and b.term.get("cond") is not None:
            for n in walk(b.term["cond"]):
                if n.get("k") == "asg" and nocast(n["l"]).get("k") == "var":
                    defs.setdefault(nocast(n["l"])["n"], []).append((n["op"], n.get("r")))
    out = set()
    for n, ds in defs.items():
        if all((op == "=" and const_val(rhs) is not None) or op in ("++", "--") or (op in ("+=", "-=") and const_val(rhs) is not None) for op, rhs in ds) and any(op != "=" for op, _ in ds):
            out.add(n)
    return out


def r_reject(prog, R):
    r = R.rule("R-C04-REJECT", "the wire parsers reject only on wire-derived conditions: no failure is guarded by an implementation-chosen iteration counter", floor=8, analysis="A-DOM guard vocabulary")
    targets = [f for f in prog.funcs.values() if f.file in (C03.NAME_C, C03.PARSE_C, "src/lib/record/ares_dns_multistring.c") and (f.retw == "ares_status_t" or f.ret == "ares_status_t")
               and ("parse" in f.name or "fetch" in f.name)]
    for f in sorted(targets, key=lambda x: x.key):
        cv = _count_vars(f)
        loopvars = set()
        for h, body in f.natural_loops().items():
            br = f.branch(h)
            if br:
                loopvars |= {v["n"] for v in vars_in(br[0])}
        bad = None
        for b in f.blocks.values():
            br = f.branch(b)
            if not br or b.id in f.natural_loops():
                continue
            names = {v["n"] for v in vars_in(br[0])}
            # counters that also bound a loop are ordinary iteration (`i < cnt`); a counter compared against a constant in a
            # non-loop branch that leads to a failure is an implementation limit
            hit = [n for n in names if n in cv]
            if not hit:
                continue
            op, l, rr = norm_cmp(br[0], True)
            if rr is None or const_val(rr) is None:
                continue
            for k2, s in enumerate(b.succs):
                if s is None:
                    continue
                blk = f.blocks[s]
                fails = [el for el in blk.els if (el["k"] == "asg" and is_var(nocast(el["e"]["l"]), "status") and (name_of_const(el["e"].get("r")) or "ARES_SUCCESS") != "ARES_SUCCESS")
                         or (el["k"] == "ret" and (name_of_const(el.get("e")) or "ARES_SUCCESS") not in ("ARES_SUCCESS",) and name_of_const(el.get("e")) is not None)]
                if fails:
                    bad = (b, hit[0], fails[0])
        k = "fn=%s rejects on wire data only" % f.name
        if bad:
            r.viol(k, f.name, f.loc(bad[0].term["ln"]), "%s fails with %s when its own counter '%s' passes a constant ('%s'): a message that is well-formed per the RFC is rejected" % (
                f.name, render(bad[2]["e"].get("r")) if bad[2]["k"] == "asg" else render(bad[2].get("e")), bad[1], render(bad[0].term["cond"])))
        else:
            r.ok(k, f.loc(f.ln), nontrivial=bool(cv))


def _zero_rejecting(prog):
    """{function name: index of the length parameter} for buffer primitives that fail when handed a zero length"""
    out = {}
    for f in prog.funcs.values():
        if f.file != "src/lib/str/ares_buf.c" or (f.retw or f.ret) != "ares_status_t" or not f.name.startswith("ares_buf_fetch_"):
            continue      # only "fetch exactly n bytes" primitives: for them n == 0 is an ordinary, legal field length
        pidx = {p["n"]: k for k, p in enumerate(f.params)}
        for b in f.blocks.values():
            br = f.branch(b)
            if not br:
                continue
            # the condition may be a disjunction: look at every comparison inside it
            hit = None
            for n in walk(br[0]):
                if n.get("k") == "bin" and n["op"] == "==" and const_val(n["r"]) == 0:
                    l = strip(n["l"])
                    if l is not None and l.get("k") == "var" and l["n"] in pidx and l.get("ty", "").replace("const ", "") in ("unsigned long", "size_t"):
                        hit = l["n"]
            if hit is None:
                continue
            ts = f.blocks.get(br[1])
            if ts is not None and any(el["k"] == "ret" and (name_of_const(el.get("e")) or "ARES_SUCCESS") != "ARES_SUCCESS" for el in ts.els):
                out[f.name] = pidx[hit]
    return out


def r_zerolen(prog, R):
    r = R.rule("R-C04-ZEROLEN", "a zero-length field that the RFC allows is not turned into a parse error: wire parsers call length-rejecting fetch primitives only with a length known to be non-zero", floor=8,
               analysis="callee precondition (extracted) x dominating non-zero fact at every call site")
    rej = _zero_rejecting(prog)
    r.info["zero_rejecting_primitives"] = sorted(rej)
    if not r.require("ares_buf_fetch_bytes_dup" in rej, "zero-rejecting primitives not recognised: %s" % sorted(rej)):
        return
    files = (C03.PARSE_C, C03.NAME_C, "src/lib/record/ares_dns_multistring.c", "src/lib/str/ares_buf.c")
    for f in sorted(prog.funcs.values(), key=lambda x: x.key):
        if f.file not in files or not ("parse" in f.name or "fetch_dnsname" in f.name):
            continue
        mf = None
        for b, i, c in f.calls():
            k2 = rej.get(c.get("callee"))
            if k2 is None:
                continue
            a = strip(call_arg(c, k2))
            if a is None or const_val(a) is not None:
                continue
            if mf is None:
                mf = MustFacts(f, track_calls=False)
            ak = key(a)
            nz = False
            for c3, p3 in mf.cond_facts_at(b, i):
                op, l3, r3 = norm_cmp(c3, p3)
                if key(l3) != ak:
                    continue
                if op == "truth" or (op in ("!=", ">") and r3 is not None and const_val(r3) == 0) or (op == ">=" and r3 is not None and (const_val(r3) or 0) >= 1):
                    nz = True
            kk = "fn=%s %s(%s) non-zero" % (f.name, c["callee"], render(a))
            if nz:
                r.ok(kk, f.loc(c["ln"]))
            else:
                r.viol(kk, f.name, f.loc(c["ln"]), "%s hands the wire-derived length '%s' to %s, which fails for 0, without testing it: a field of length zero that the RFC allows (empty option / SvcParam value, empty string) makes the whole message unparseable" % (f.name, render(a), c["callee"]))


def r_cache(prog, R):
    r = R.rule("R-C04-CACHE", "the combined view of a multi-string (what the TXT getters report) is marked valid only once it has been rebuilt: a failed rebuild is "
               "retried, it does not turn the record's data into NULL for good", floor=1, analysis="exact guard on the validity store")
    f = prog.func("ares_dns_multistring_combined", required=False)
    if not r.require(f is not None, "ares_dns_multistring_combined not found"):
        return
    mf = MustFacts(f, track_calls=False)
    st = [(b, i, el) for b, i, el in f.elements() if el["k"] == "asg" and is_field(el["e"]["l"], "cache_invalidated") and name_of_const(el["e"].get("r")) == "ARES_FALSE"]
    if not r.require(bool(st), "store cache_invalidated = ARES_FALSE not found"):
        return
    for b, i, el in st:
        k = "cache marked valid only after a successful rebuild"
        okv = False
        for c3, p3 in mf.cond_facts_at(b, i):
            op, l3, r3 = norm_cmp(c3, p3)
            if is_field(l3, "cache_str") and ((op == "!=" and r3 is not None and is_null(r3)) or op == "truth"):
                okv = True
        if okv:
            r.ok(k, f.loc(el))
        else:
            r.viol(k, f.name, f.loc(el), "cache_invalidated is cleared without knowing that cache_str was rebuilt: after one allocation failure the combined string stays NULL/0 on every later call although the strings are still there (ares_dns_rr_get_bin on TXT data reports nothing)")


def r_class(prog, R):
    import evalx
    r = R.rule("R-C04-CLASS", "the class check never rejects what a reference decoder accepts: a record of a type the library does not decode is taken with any class value (TSIG/TKEY use "
               "class ANY, SIG(0) has no meaningful class), IN/CH/HS/NONE are accepted for every type, and ANY for every question", floor=3,
               analysis="exact evaluation of ares_dns_class_isvalid's CFG (evalx.run_cfg, switch included) over all record-type enumerators x boundary class values x {question, record}")
    f = prog.func("ares_dns_class_isvalid")
    if not r.require(len(f.params) == 3, "ares_dns_class_isvalid no longer takes (class, type, is_query)"):
        return
    cn, tn, qn = [p_["n"] for p_ in f.params]
    types = sorted({v for n_, (en, v) in prog.enumconst.items() if en == "ares_dns_rec_type_t"})
    raw = prog.enumconst.get("ARES_REC_TYPE_RAW_RR", (None, None))[1]
    if not r.require(raw is not None and len(types) >= 20, "record type enumerators not found"):
        return
    classes = [0, 1, 2, 3, 4, 5, 253, 254, 255, 256, 65535]
    bad = {"raw": None, "std": None, "qany": None}
    n = 0
    try:
        for t in types:
            for c in classes:
                for q in (0, 1):
                    res = evalx.run_cfg(f, {cn: c, tn: t, qn: q})
                    if res[0] != "ret":
                        raise evalx.Unknown("path left open at block %s" % (res[1],))
                    ok = name_of_const(res[1].get("e")) == "ARES_TRUE"
                    n += 1
                    if t == raw and not ok and bad["raw"] is None:
                        bad["raw"] = (t, c, q, res[1])
                    if c in (1, 3, 4, 254) and not ok and bad["std"] is None:
                        bad["std"] = (t, c, q, res[1])
                    if c == 255 and q == 1 and not ok and bad["qany"] is None:
                        bad["qany"] = (t, c, q, res[1])
    except evalx.Unknown as e:
        r.broke("ares_dns_class_isvalid not interpretable: %s" % e)
        return
    r.info["tuples_evaluated"] = n
    texts = {"raw": ("undecoded type => any class", "a record of a type the library does not decode (kept as a raw record) with class %d is rejected: ares_dns_record_rr_add fails and the whole message "
                     "is refused although it is well formed (TSIG and TKEY records carry class ANY)"),
             "std": ("IN/CH/HS/NONE accepted for every type", "class %d is rejected for record type %d"),
             "qany": ("ANY accepted in questions", "QCLASS * (%d) is rejected in a question")}
    for key, (k, msg) in texts.items():
        if bad[key]:
            t, c, q, el = bad[key]
            r.viol(k, f.name, f.loc(el), (msg % ((c, t) if key == "std" else (c,))) + " [type=%d class=%d is_query=%d]" % (t, c, q))
        else:
            r.ok(k, f.loc(f.ln), "%d tuples" % n)


def r_namelen(prog, R):
    import linear as L
    r = R.rule("R-C04-NAMELEN", "a presentation name the parser can report is accepted again by the name splitter that every writer and ares_dns_record_duplicate use: labels of 1..63 octets and "
               "a name of up to 255 octets on the wire (sum of label lengths + one length octet per label + the root octet) pass its magnitude checks", floor=2,
               analysis="linear normal form of the rejecting guards, evaluated at the legal maxima (label 63; labels + count = 254)")
    f = prog.func("ares_split_dns_name")
    n = 0
    cmpf = {">": lambda a, b: a > b, ">=": lambda a, b: a >= b, "<": lambda a, b: a < b, "<=": lambda a, b: a <= b}
    for b in f.blocks.values():
        br = f.branch(b)
        if not br:
            continue
        for pol, tgt in ((True, br[1]), (False, br[2])):
            if tgt is None:
                continue
            blk = f.blocks[tgt]
            if not any(el["k"] == "asg" and is_var(strip(el["e"]["l"]), "status") and (name_of_const(el["e"].get("r")) or "ARES_SUCCESS") != "ARES_SUCCESS" for el in blk.els):
                continue
            ats = atoms(br[0], pol)
            for c, p_ in ats:
                op, l, rr = norm_cmp(c, p_)
                if rr is None or op not in cmpf or const_val(rr) is None:
                    continue
                d = L.lin(l)
                K = const_val(rr)
                names = [x for x in d if x != ""]
                cnt = [x for x in names if x.startswith("ares_array_len")]
                oth = [x for x in names if not x.startswith("ares_array_len")]
                if len(cnt) == 1 and len(oth) == 1 and d[cnt[0]] == 1 and d[oth[0]] == 1:
                    n += 1
                    k = "name of 255 wire octets accepted"
                    # labels + count = 254  <=>  wire length 255, the RFC 1035 maximum
                    if cmpf[op](254 + d.get("", 0), K):
                        r.viol(k, f.name, f.loc(b.term.get("ln", f.ln)), "ares_split_dns_name fails when '%s %s %d': with %s + label count = 254 (a name of exactly 255 octets on the wire, the RFC 1035 maximum, "
                               "which the parser accepts and reports) this holds, so ares_dns_write / ares_dns_record_duplicate / a new query for that name fail with EBADNAME" % (L.show(d), op, K, oth[0]))
                    else:
                        r.ok(k, f.loc(b.term.get("ln", f.ln)))
                elif len(names) == 1 and not cnt and d[names[0]] == 1 and len(ats) <= 2:
                    v = strip(l)
                    if not is_var(v):
                        continue
                    # a label length: filled from ares_buf_len
                    defs = [x for x in codecrules._assignments(f, v["n"])]
                    isl = False
                    for x in defs:
                        cc = strip(x[3])
                        if cc is not None and cc.get("k") == "call":
                            cc = f.call_by_id(cc["id"])[2] if cc.get("ref") else cc
                            isl = isl or cc.get("callee") == "ares_buf_len"
                    if not isl:
                        continue
                    n += 1
                    k = "label of 63 octets accepted"
                    if cmpf[op](63 + d.get("", 0), K) or cmpf[op](1 + d.get("", 0), K):
                        r.viol(k, f.name, f.loc(b.term.get("ln", f.ln)), "ares_split_dns_name fails when '%s %s %d', which holds for a legal label length (1..63)" % (L.show(d), op, K))
                    else:
                        r.ok(k, f.loc(b.term.get("ln", f.ln)))
    r.require(n >= 2, "magnitude guards of ares_split_dns_name not recognised (%d)" % n)


def r_optdup(prog, R):
    r = R.rule("R-C04-OPTDUP", "the EDNS option list is reported as it stands on the wire, repeated option codes included (RFC 8914 allows several Extended DNS Error options): the OPT "
               "parser stores each option through a primitive that never overwrites an option stored before", floor=1,
               analysis="who-may-call: the storing callee of ares_dns_parse_rr_opt must not contain a replace-on-equal-code path (comparison of a stored element's code with the code being stored)")
    f = prog.func("ares_dns_parse_rr_opt")
    n = 0
    for b, i, c in f.calls():
        t = prog.resolve(f, c)
        if t is None or "opt" not in t.name or not t.file.endswith("ares_dns_record.c"):
            continue
        pnames = {p_["n"] for p_ in t.params}
        repl = None
        for blk in t.blocks.values():
            br = t.branch(blk)
            if not br:
                continue
            for cc, p_ in atoms(br[0], True):
                op, l, rr = norm_cmp(cc, p_)
                if op == "==" and rr is not None and strip(l).get("k") == "mem" and is_var(strip(rr)) and strip(rr)["n"] in pnames and strip(l)["f"] == strip(rr)["n"]:
                    repl = blk
        n += 1
        k = "fn=%s stores options through %s without replacing" % (f.name, t.name)
        if repl is not None:
            r.viol(k, f.name, f.loc(c["ln"]), "%s stores each wire option with %s, which looks for an element with the same code and overwrites it: wire options [15:AA, 3:nsid, 15:BB] are reported as "
                   "[15:BB, 3:nsid] -- two options instead of three, the later value in the first one's place" % (f.name, t.name))
        else:
            r.ok(k, f.loc(c["ln"]))
    r.require(n >= 1, "ares_dns_parse_rr_opt: storing call not found")


def r_optkey(prog, R):
    r = R.rule("R-C04-OPTKEY", "an option being stored takes the place of a stored one only if their codes are equal: the scan over the stored options is left early on equality of the "
               "codes and on nothing else (options arrive in wire order, which need not be ascending: 10, 3, 12, 8)", floor=1,
               analysis="loop-exit edges of the scan in ares_dns_rr_set_opt_own: the comparison of the stored code with the code being stored must be '=='")
    f = prog.func("ares_dns_rr_set_opt_own")
    pn = {p_["n"] for p_ in f.params}
    n = 0
    for h, body in f.natural_loops().items():
        for bid in body:
            br = f.branch(bid)
            if not br:
                continue
            for pol, tgt in ((True, br[1]), (False, br[2])):
                if tgt is None or tgt in body:
                    continue
                for c, p_ in atoms(br[0], pol):
                    op, l, rr = norm_cmp(c, p_)
                    ls, rs = strip(l), strip(rr) if rr is not None else None
                    if ls is None or rs is None:
                        continue
                    pair = None
                    if ls.get("k") == "mem" and is_var(rs) and rs["n"] in pn and ls["f"] == rs["n"]:
                        pair = (ls, rs)
                    if rs.get("k") == "mem" and is_var(ls) and ls["n"] in pn and rs["f"] == ls["n"]:
                        pair = (rs, ls)
                    if pair is None:
                        continue
                    n += 1
                    k = "scan left early only when %s equals %s" % (render(pair[0]), render(pair[1]))
                    if op == "==":
                        r.ok(k, f.loc(f.blocks[bid].term.get("ln", f.ln)))
                    else:
                        r.viol(k, f.name, f.loc(f.blocks[bid].term.get("ln", f.ln)), "the scan over the stored options stops when '%s %s %s' and the element found is then overwritten: with wire options "
                               "10, 3, 12, 8 the parser reports two options, COOKIE and PADDING are silently replaced by later ones" % (render(strip(l)), op, render(strip(rr))))
    r.require(n >= 1, "ares_dns_rr_set_opt_own: early exit of the option scan not found")


def r_rcodefinal(prog, R):
    r = R.rule("R-C04-RCODEFINAL", "the response code a parsed message reports is settled from the complete 12-bit wire value: every function that writes the raw response code either stores "
               "the reported code on every path afterwards, or the message parser stores it on every path from the calls that can reach that writer to its success return "
               "(an OPT record seen later extends the header's four bits; an unassigned value is reported as SERVFAIL, never as the bare header bits)", floor=3,
               analysis="writers of ares_dns_record.raw_rcode by field; must-pass-through search from the write (or from the calls reaching the writer, in ares_dns_parse_buf) to the exit with "
                        "stores to ares_dns_record.rcode as barriers; failing returns end a path")
    def store_to(el, field):
        return el["k"] == "asg" and is_field(el["e"]["l"], field, "ares_dns_record")
    writers = {}
    for f in prog.funcs.values():
        if not f.file.startswith("src/lib/record/"):
            continue
        for b, i, el in f.elements():
            if store_to(el, "raw_rcode"):
                writers.setdefault(f.key, (f, []))[1].append((b, i, el))
    if not r.require(len(writers) >= 2, "writers of raw_rcode (header and OPT parser) not found"):
        return
    top = prog.func("ares_dns_parse_buf")
    # functions from which a writer is reachable
    reach = {k for k in writers}
    changed = True
    while changed:
        changed = False
        for f in prog.funcs.values():
            if f.key in reach or not f.file.startswith("src/lib/record/"):
                continue
            for b, i, c in f.calls():
                t = prog.resolve(f, c)
                if t is not None and t.key in reach:
                    reach.add(f.key)
                    changed = True
                    break
    def barrier_local(el):
        return store_to(el, "rcode")
    def barrier_top(el):
        if store_to(el, "rcode"):
            return True
        return el["k"] == "ret" and name_of_const(el.get("e")) != "ARES_SUCCESS"
    unsettled = []
    for k, (f, ws) in sorted(writers.items()):
        local = all(can_reach_exit_avoiding(f, b, i, barrier_local) is None for b, i, el in ws)
        key = "fn=%s raw response code settled" % f.name
        if local:
            r.ok(key, f.loc(ws[0][2]), note="in the writer itself")
        else:
            unsettled.append((f, ws, key))
    if unsettled:
        bad = None
        n = 0
        for b, i, c in top.calls():
            t = prog.resolve(top, c)
            if t is None or t.key not in reach or t.key == top.key:
                continue
            n += 1
            tr = can_reach_exit_avoiding(top, b, i, barrier_top)
            if tr is not None and bad is None:
                bad = (c, tr)
        r.require(n >= 2, "ares_dns_parse_buf: calls reaching the raw_rcode writers not found")
        for f, ws, key in unsettled:
            if bad is None:
                r.ok(key, f.loc(ws[0][2]), note="by ares_dns_parse_buf after the last section")
            else:
                c, tr = bad
                r.viol(key, f.name, f.loc(ws[0][2]), "%s writes the raw response code without settling the reported one on every path, and ares_dns_parse_buf returns success after %s (line %s) on a path "
                       "without a store to the reported code: a message whose OPT record extends the code to an unassigned value is reported with the bare header bits" % (f.name, c.get("callee"), c["ln"]),
                       trail=[top.loc(top.blocks[x].els[0]) for x in tr if top.blocks[x].els][:8])
    # the settling store maps an unassigned value to SERVFAIL and an assigned one to itself: decided by interpreting the parser's own statements from every block from which
    # the success return is reached through a store to the reported code (any spelling: if/else, conditional expression, a local copy of the raw value)
    import evalx
    key = "an unassigned wire value is reported as SERVFAIL, an assigned one as itself"
    lhs = None
    for b, i, el in top.elements():
        if store_to(el, "rcode"):
            lhs = render(strip(el["e"]["l"]))
    servfail = None
    for it in prog.enum("ares_dns_rcode_t")["items"]:
        if it["n"] == "ARES_RCODE_SERVFAIL":
            servfail = it["v"]
    if lhs is None or servfail is None or not lhs.endswith("rcode"):
        # settled inside the writers: fall back to the vocabulary of the stored values
        vals = set()
        for f in [top] + [w[0] for w in writers.values()]:
            for b, i, el in f.elements():
                if store_to(el, "rcode"):
                    vals.add(render(strip(el["e"].get("r"))))
        if any("ARES_RCODE_SERVFAIL" in v for v in vals):
            r.ok(key, top.loc(top.ln), nontrivial=False)
        else:
            r.viol(key, top.name, top.loc(top.ln), "the parser's stores to the reported response code (%s) no longer include the SERVFAIL fallback" % sorted(vals))
        return
    rawname = lhs[:-len("rcode")] + "raw_rcode"
    locs = {v["n"] for _, _, el in top.elements() if el["k"] == "decl" for v in el["vars"]}
    seen = {}
    starts = sorted({b.id for b, i, c in top.calls_to("ares_dns_rcode_isvalid")})
    if not starts:
        r.viol(key, top.name, top.loc(top.ln), "ares_dns_parse_buf stores the reported response code without asking ares_dns_rcode_isvalid(): an unassigned value is reported as it stands")
        return
    for bid in starts:
        for valid, raw in ((1, 3), (1, 16), (0, 35), (0, 256)):
            env = {n_: 0 for n_ in locs}
            env.update({rawname: raw, lhs: 777, "ares_dns_rcode_isvalid()": valid})
            out = {}
            try:
                res = evalx.run_cfg(top, env, start=bid, out=out, max_steps=12)
            except evalx.Unknown:
                continue
            if res[0] == "ret" and name_of_const(res[1].get("e")) == "ARES_SUCCESS" and out.get(lhs) != 777:
                seen[(bid, valid, raw)] = out.get(lhs)
    wrong = [(k_, v_) for k_, v_ in sorted(seen.items()) if v_ != (k_[2] if k_[1] else servfail)]
    if not (any(k_[1] for k_ in seen) and any(not k_[1] for k_ in seen)):
        r.broke("ares_dns_parse_buf: the statements that settle the reported response code could not be interpreted")
    elif wrong:
        (bid, valid, raw), v_ = wrong[0]
        r.viol(key, top.name, top.loc(top.ln), "a raw response code of %d that is %s is reported as %d" % (raw, "assigned" if valid else "not assigned", v_))
    else:
        r.ok(key, top.loc(top.ln), note="%d evaluations" % len(seen))


def r_ptrbits(prog, R):
    r = R.rule("R-C04-PTRBITS", "the name decoder reads a compression pointer as RFC 1035 4.1.4 lays it out: label type = top two bits of the first octet (11 pointer, 10 and 01 reserved, "
               "00 length), offset = the remaining 6 bits times 256 plus the second octet", floor=3,
               analysis="exact evaluation of the decoder's own expressions for all 256 values of the octet (evalx)")
    f = prog.func("ares_dns_name_parse")
    # (1) high part of the offset
    hi = None
    for b, i, el in f.elements():
        if el["k"] == "decl":
            for v in el["vars"]:
                if v["n"] == "offset" and v.get("init") is not None:
                    hi = (v["init"], el)
        if el["k"] == "asg" and el["e"]["op"] == "=" and is_var(strip(el["e"]["l"]), "offset") and hi is None:
            hi = (el["e"]["r"], el)
    lo = [(el["e"], el) for b, i, el in f.elements() if el["k"] == "asg" and el["e"]["op"] in ("|=", "+=") and is_var(strip(el["e"]["l"]), "offset")]
    if not r.require(hi is not None and len(lo) == 1, "ares_dns_name_parse: the two statements that build the pointer offset not found"):
        return
    try:
        src = sorted({v["n"] for v in vars_in(hi[0])})
        k = "pointer offset, high part = (first octet & 0x3F) << 8"
        bad = [c for c in range(0xC0, 0x100) if len(src) != 1 or evalx.ev(hi[0], {src[0]: c}) != ((c & 0x3F) << 8)]
        if bad:
            r.viol(k, f.name, f.loc(hi[1]), "for a first octet of 0x%02x the decoder computes a high part of 0x%x instead of 0x%x: pointers into the upper part of a message land elsewhere (the name decodes to "
                   "different labels or is rejected)" % (bad[0], evalx.ev(hi[0], {src[0]: bad[0]}) if len(src) == 1 else -1, (bad[0] & 0x3F) << 8))
        else:
            r.ok(k, f.loc(hi[1]), note="64 octet values")
        k = "pointer offset, low part = second octet"
        src2 = sorted({v["n"] for v in vars_in(lo[0][0].get("r"))})
        bad = [c for c in range(256) if len(src2) != 1 or evalx.ev(lo[0][0]["r"], {src2[0]: c}) != c]
        if bad:
            r.viol(k, f.name, f.loc(lo[0][1]), "the second octet 0x%02x contributes 0x%x to the offset" % (bad[0], evalx.ev(lo[0][0]["r"], {src2[0]: bad[0]}) if len(src2) == 1 else -1))
        else:
            r.ok(k, f.loc(lo[0][1]), note="256 octet values")
        # (2) classification of the first octet: some branch is true exactly for 11xxxxxx, and after it one that is true for every 10/01 and false for 00
        conds = []
        for bid in f.rpo():
            br = f.branch(bid)
            if not br:
                continue
            vs = sorted({v["n"] for v in vars_in(br[0])})
            if len(vs) == 1 and "&" in render(br[0]):
                try:
                    tt = [evalx.ev(evalx._leafify(strip(br[0])), {vs[0]: c}) for c in range(256)]
                except evalx.Unknown:
                    continue
                conds.append((bid, tt))
        k = "label type from the top two bits of the octet"
        ptr = [bid for bid, tt in conds if all(bool(tt[c]) == (c >= 0xC0) for c in range(256))]
        rsv = [bid for bid, tt in conds if all(tt[c] for c in range(0x40, 0xC0)) and not any(tt[c] for c in range(0x40))]
        if ptr and rsv:
            r.ok(k, f.loc(f.ln), note="pointer test and reserved-type test evaluated for 256 octets")
        else:
            r.viol(k, f.name, f.loc(f.ln), "no branch of the decoder is true exactly for octets 0xC0..0xFF (pointer)%s" % ("" if ptr else "") if not ptr else
                   "no branch rejects exactly the reserved label types 01 and 10 (octets 0x40..0xBF) while accepting every length 0..63")
    except evalx.Unknown as ex:
        r.broke("ares_dns_name_parse: pointer arithmetic not interpretable: %s" % ex)


def run(prog, R, tier):
    R.assume("tables/iana.json reproduces the IANA registries and RFC bit layouts correctly (written from the RFCs, not from the code)")
    r_bits(prog, R)
    r_iana(prog, R)
    r_mustset(prog, R)
    r_keymap(prog, R)
    r_escape(prog, R)
    r_reject(prog, R)
    r_cache(prog, R)
    codecrules.r_limit(prog, R, "R-C04-LIMIT")
    codecrules.r_pure(prog, R, "R-C04-PURE")
    r_zerolen(prog, R)
    r_class(prog, R)
    r_namelen(prog, R)
    r_optdup(prog, R)
    r_optkey(prog, R)
    r_rcodefinal(prog, R)
    r_ptrbits(prog, R)
    codecrules.r_preslimit(prog, R, "R-C04-PRESLIMIT")
    codecrules.r_suffix(prog, R, "R-C04-SUFFIX")
    codecrules.r_blank(prog, R, "R-C04-BLANK")
    codecrules.r_suffix_exact(prog, R, "R-C04-SUFFIXEXACT")
