"""C15 — configuration text is parsed robustly and line-independently."""
from lib import *  # noqa
import outinit
import ownrules

TECHNIQUE = ("heap-ownership typestate over the configuration parsers, value-set abstract interpretation of the line callbacks' return values "
             "(with constant-argument specialisation and defensive-return pruning), destination-size and index-bound checks by interval "
             "reasoning on dominating guards, directive->field write table"
             ", replace-after-parse ordering, splitter argument table, callee-precondition x dominating fact for empty values, validation-before-conversion and interval bound before scaling, loop-exit vocabulary of the line walkers, forward must-analysis of members written through out-parameters")
LEVEL_TEXT = ("static: decides on every path of the configuration parsers (a) no leak / double free / use after free, (b) that a line callback can "
              "only return SUCCESS or ENOMEM so one malformed line cannot abort the file, and that the file loop aborts only on a non-SUCCESS "
              "callback result, (c) that every copy into a fixed-size token buffer is bounded by that buffer, (d) that each resolv.conf directive "
              "writes only its own field and unknown directives write nothing. Does not decide the metamorphic claim over all file contents or numeric ranges."
              " Also decides (KEEP/SPLIT/EMPTY/NUM) replace-after-parse, splitter limits, empty-value handling and numeric validation of options, (LINELOOP) that line loops end only at EOF / out of memory / with a result, (OUTINIT) that structs filled through out-parameters are completely written.")
# fifth-round additions
TECHNIQUE += "; " + 'path search from stores through the list out-parameter to silent-ignore exits (R-C15-IGNORED); interval bound at narrowing casts of text conversions (R-C15-PORT)'
LEVEL_TEXT += " " + '(IGNORED) a silently ignored server entry leaves the collected list as it was; (PORT) a port read from configuration text is bounded by 65535 before it is narrowed to 16 bits.'
LEVEL_NOTE = ("trusts clang CFG + extractor; callee return sets assume valid (non-NULL) pointer arguments; two 'cannot happen' returns and three "
              "semantic index bounds are frozen exemptions with reasons")
DESIGN_REF = "DESIGN.md §6/C15"
EXPLANATION = LEVEL_TEXT
NOT_DECIDED = "junk-insertion metamorphic property over all contents; documented numeric ranges of options"

FILES = {"src/lib/ares_sysconfig_files.c", "src/lib/ares_sysconfig.c", "src/lib/ares_hosts_file.c", "src/lib/ares_search.c", "src/lib/ares_update_servers.c",
         "src/lib/util/ares_uri.c", "src/lib/inet_net_pton.c", "src/lib/str/ares_buf.c", "src/lib/ares_options.c", "src/lib/str/ares_strsplit.c",
         "src/lib/str/ares_str.c"}
LINE_CBS = ("ares_sysconfig_parse_resolv_line", "parse_nsswitch_line", "parse_svcconf_line")
# frozen: values a callee can syntactically return that cannot happen at run time (one line of reason each)
PRUNE_RETURNS = {
    ("ares_buf_split", "ARES_EFORMERR"): "only from the NULL-argument guard and from ares_buf_tag_fetch()==NULL directly after ares_buf_tag(), which cannot be NULL",
    ("ares_buf_split_str_array", "ARES_EFORMERR"): "same origin (ares_buf_split)",
}
DST_EXEMPT = {
    "fn=ares_apply_dns0x20 copy=ares_rand_bytes dst=randdata": "total_bits/8 = (len+7)/8 with len < sizeof(dns0x20name) == 256 checked above: <= 32 == sizeof(randdata)",
    "fn=ares_cookie_validate copy=memcpy dst=cookie->server": "decided by R-C17-BOUND (length window 8..40 minus the 8-byte client part)",
    "fn=config_lookup store=lookupstr[lookupstr_cnt]": "duplicates are skipped and only 'b' and 'f' are ever stored: count <= 2 < 32",
    "fn=config_lookup store=lookupstr[lookupstr_cnt++]": "duplicates are skipped and only 'b' and 'f' are ever stored: count <= 2 < 32",
    "fn=ares_dns_name_write store=name_copy[name_len]": "name_len is the ares_strcpy result (< sizeof(name_copy)) minus the length of a suffix found inside that very string",
}


class PrunedSummaries(Summaries):
    def return_set(self, func, spec=None):
        rs = Summaries.return_set(self, func, spec)
        if rs is None:
            return rs
        drop = {v for (fn, v) in PRUNE_RETURNS if fn == func.name}
        return frozenset(rs - drop) if drop else rs


def streq_guards(f, b, i):
    """string literals L such that element (b,i) is reached through the true edge of an ares_streq(x, L) test;
    returns (set, unconditional?)"""
    edges = []
    for bid in f.rpo():
        br = f.branch(bid)
        if not br:
            continue
        for cc, p in atoms(br[0], True):
            cs = strip(cc)
            if p and cs.get("k") == "call" and cs.get("callee") == "ares_streq":
                full = f.call_by_id(cs["id"])
                lit = strip(call_arg(full[2], 1)) if full else None
                if lit is not None and lit.get("k") == "str":
                    edges.append((bid, br[1], lit["s"]))
    allcut = [(x, y) for x, y, _ in edges]
    uncond = element_reachable_avoiding(f, b, i, allcut) is not None
    lits = set()
    bid0 = b.id if isinstance(b, Block) else b
    for x, y, lit in edges:
        others = [(x2, y2) for x2, y2, l2 in edges if not (x2 == x and y2 == y)]
        pred = reach_avoiding(f, y, others)
        if y == bid0 or bid0 in pred:
            lits.add(lit)
    return lits, uncond


def r_ret(prog, R):
    r = R.rule("R-C15-RET", "line callbacks return only SUCCESS/ENOMEM; the file loop aborts only on a failing callback", floor=4, analysis="A-VS return sets")
    S = PrunedSummaries(prog, ignore_defensive=True)
    # the callbacks are those passed to process_config_lines / ares_sysconfig_process_buf
    found = set()
    for f in prog.funcs.values():
        for b, i, c in f.calls():
            if c.get("callee") in ("process_config_lines", "ares_sysconfig_process_buf"):
                for a in c.get("args", []):
                    a2 = strip(a)
                    if a2 is not None and a2.get("k") == "fn":
                        found.add(a2["n"])
    r.require(set(LINE_CBS) <= found, "line callbacks passed to the config readers changed: %s" % sorted(found))
    for name in sorted(found):
        f = prog.func(name)
        rs = S.return_set(f)
        extra = sorted(set(rs or []) - {"ARES_SUCCESS", "ARES_ENOMEM"})
        if rs is None or extra:
            r.viol("cb=%s returns" % name, name, f.loc(f.ln), "line callback can return %s: a single malformed line aborts the whole file and discards every other directive" % extra)
        else:
            r.ok("cb=%s returns" % name, f.loc(f.ln), note=str(sorted(rs)))
    r.info["defensive_return_states_pruned"] = S.pruned
    # process_buf: the loop is left early only when the callback result is not SUCCESS
    pb = prog.func("ares_sysconfig_process_buf")
    ind = [(b, i, c) for b, i, c in pb.calls() if not c.get("callee")]
    if not r.require(len(ind) == 1, "ares_sysconfig_process_buf: callback invocation not found"):
        return
    b, i, c = ind[0]
    holder = None
    for el in b.els[i + 1:]:
        if el["k"] == "asg" and strip(el["e"].get("r")) is not None and strip(el["e"]["r"]).get("k") == "call" and strip(el["e"]["r"]).get("id") == c["id"]:
            holder = path(el["e"]["l"])
    br = pb.branch(b)
    okb = False
    if br and holder:
        for cc, p in atoms(br[0], True):
            op, l, rr = norm_cmp(cc, p)
            if op == "!=" and path(l) == holder and name_of_const(rr) == "ARES_SUCCESS":
                okb = True
    if okb:
        r.ok("process_buf aborts only on callback failure", pb.loc(c["ln"]))
    else:
        r.viol("process_buf aborts only on callback failure", pb.name, pb.loc(c["ln"]), "the line loop's exit condition is no longer `callback result != ARES_SUCCESS`")
    # lines are delivered one at a time: split on newline
    sp = [c2 for _, _, c2 in pb.calls_to("ares_buf_split")]
    if sp and any(n.get("k") == "str" and n.get("s") == "\n" for n in walk(call_arg(sp[0], 1))):
        r.ok("process_buf splits on newline", pb.loc(sp[0]["ln"]))
    else:
        r.viol("process_buf splits on newline", pb.name, pb.loc(pb.ln), "configuration text is no longer split into lines on '\\n'")


def r_dst(prog, R, files, rid="R-C15-DST", floor=10):
    r = R.rule(rid, "copies and indexed stores into fixed-size buffers are bounded by the buffer", floor=floor, analysis="interval reasoning on dominating guards")
    funcs = [f for f in prog.funcs.values() if files is None or f.file in files]
    nun = 0
    for (f, ln, key, ok, msg) in dst_size_findings(prog, funcs) + idx_store_findings(prog, funcs):
        loc = "%s:%s" % (f.file, ln)
        if ok is True:
            r.ok(key, loc, note=msg)
        elif key in DST_EXEMPT:
            r.ok(key + " (exempt: %s)" % DST_EXEMPT[key][:70], loc, nontrivial=False)
        elif ok is False:
            r.viol(key, f.name, loc, "buffer overflow: " + msg)
        else:
            nun += 1
            r.viol(key, f.name, loc, "not provably bounded: " + msg)
    return r


def _sysconfig_fields_written(prog, t, depth):
    """fields of the accumulator that function t (handed the accumulator) can write, release or pass on by address"""
    out = set()
    if t is None or depth > 2:
        return {"*"}
    for b, i, el in t.elements():
        if el["k"] == "asg":
            l = strip(el["e"]["l"])
            if l is not None and l.get("k") == "mem" and l["rec"] == "ares_sysconfig_t":
                out.add(l["f"])
        elif el["k"] == "call":
            c = el["e"]
            for a in c.get("args", []):
                a2 = strip(a)
                if a2 is not None and a2.get("k") == "un" and a2["op"] == "&":
                    for n in walk(a2["e"]):
                        if n.get("k") == "mem" and n["rec"] == "ares_sysconfig_t":
                            out.add(n["f"])
                if a2 is not None and a2.get("k") == "var" and "ares_sysconfig_t" in (a2.get("ty") or ""):
                    t2 = prog.resolve(t, c)
                    if t2 is not None and t2.key != t.key:
                        out |= _sysconfig_fields_written(prog, t2, depth + 1)
    return out


def r_fields(prog, R):
    r = R.rule("R-C15-FIELDS", "each resolv.conf directive writes only its own configuration field; unknown directives write nothing", floor=6, analysis="A-TAB")
    f = prog.func("ares_sysconfig_parse_resolv_line")
    mf = MustFacts(f)
    table = {}
    # effects: the sysconfig fields a directive can change, directly or through helpers that are handed the accumulator
    for b, i, el in f.elements():
        touched = set()
        if el["k"] == "call":
            c = el["e"]
            if c.get("callee") in ("ares_streq",):
                continue
            for a in c.get("args", []):
                for n in walk(a):
                    if n.get("k") == "mem" and n["rec"] == "ares_sysconfig_t":
                        touched.add(n["f"])
                if is_var(a, "sysconfig"):
                    t = prog.resolve(f, c)
                    touched |= _sysconfig_fields_written(prog, t, 0) if t is not None else {"*"}
        elif el["k"] == "asg":
            l = strip(el["e"]["l"])
            if l is not None and l.get("k") == "mem" and l["rec"] == "ares_sysconfig_t":
                touched.add(l["f"])
        if not touched:
            continue
        lits, uncond = streq_guards(f, b, i)
        key = tuple(sorted(lits)) if (lits and not uncond) else ("<none>",)
        table.setdefault(key, set()).update(touched)
    r.info["directive_table"] = {"|".join(k): sorted(v) for k, v in table.items()}
    expect = {
        "domain": {"domains", "ndomains"}, "search": {"domains", "ndomains"},
        "nameserver": {"sconfig"},
        "sortlist": {"sortlist", "nsortlist"},
        "options": {"ndots", "tries", "timeout_ms", "rotate", "usevc"},
        "lookup": {"lookups"}, "hostresorder": {"lookups"},
    }
    for key, eff in sorted(table.items()):
        names = [k for k in key if k != "<none>"]
        if not names:
            r.viol("directive=<unconditional>", f.name, f.loc(f.ln), "configuration is written before the directive keyword was identified: %s" % sorted(eff))
            continue
        for nme in names:
            ok = nme in expect and eff <= expect[nme] and eff
            if ok:
                r.ok("directive=%s" % nme, f.loc(f.ln), note=str(sorted(eff)))
            else:
                r.viol("directive=%s" % nme, f.name, f.loc(f.ln), "directive '%s' can change sysconfig fields %s (its own are %s)" % (nme, sorted(eff), sorted(expect.get(nme, []))))
    r.require(len(table) >= 5, "resolv.conf directive table has only %d rows" % len(table))
    # process_option: key -> field written
    po = prog.func("process_option")
    mf2 = MustFacts(po)
    ptab = {}
    for b, i, el in po.elements():
        if el["k"] == "asg" and strip(el["e"]["l"]).get("k") == "mem" and strip(el["e"]["l"])["rec"] == "ares_sysconfig_t":
            lits, uncond = streq_guards(po, b, i)
            ptab.setdefault(strip(el["e"]["l"])["f"], set()).update(["<unconditional>"] if uncond else sorted(lits))
    r.info["option_table"] = {k: sorted(v) for k, v in ptab.items()}
    want = {"ndots": {"ndots"}, "timeout_ms": {"retrans", "timeout"}, "tries": {"retry", "attempts"}, "rotate": {"rotate"}, "usevc": {"use-vc", "usevc"}}
    for fld, keys in sorted(ptab.items()):
        if "<unconditional>" in keys:
            r.viol("option-field=%s" % fld, po.name, po.loc(po.ln), "sysconfig->%s is written for every option" % fld)
        elif fld in want and not keys <= want[fld] | {"use-vc", "usevc"}:
            r.viol("option-field=%s" % fld, po.name, po.loc(po.ln), "sysconfig->%s is written by option keys %s" % (fld, sorted(keys)))
        else:
            r.ok("option-field=%s" % fld, po.loc(po.ln), note=str(sorted(keys)))
    # a key writes one field
    inv = {}
    for fld, keys in ptab.items():
        for k2 in keys:
            inv.setdefault(k2, set()).add(fld)
    for k2, flds in sorted(inv.items()):
        if len(flds) > 1:
            r.viol("option-key=%s" % k2, po.name, po.loc(po.ln), "option '%s' writes several fields: %s" % (k2, sorted(flds)))
        else:
            r.ok("option-key=%s" % k2, po.loc(po.ln), nontrivial=False)


def _released_before(f, b, i, lv_render):
    """is the previous value of lvalue `lv_render` released (or known NULL) on every path to the store at (b,i)?"""
    def is_rel(el):
        if el["k"] != "call":
            return False
        c = el["e"]
        cal = c.get("callee") or ""
        if not (cal in ("ares_free", "ares_free_array") or cal.endswith(("_free", "_destroy"))):
            return False
        return any(render(strip(a)) == lv_render for a in c.get("args", []))
    if can_reach_from_entry_avoiding(f, b, i, is_rel) is None:
        return True
    mf = MustFacts(f, track_calls=False)
    for cc, p in mf.cond_facts_at(b, i):
        op, l, rr = norm_cmp(cc, p)
        if render(strip(l)) == lv_render and ((op == "==" and rr is not None and is_null(rr)) or op == "false"):
            return True
    # conditional release: every path passes either a release or the false edge of a `lv != NULL` / `lv` test whose
    # true side releases
    avoid = []
    for bid in f.rpo():
        br = f.branch(bid)
        if br:
            for cc, p in atoms(br[0], True):
                op, l, rr = norm_cmp(cc, p)
                if render(strip(l)) == lv_render and (op == "truth" or (op == "!=" and rr is not None and is_null(rr))):
                    avoid.append((bid, br[2]))     # false edge: value is NULL
                if render(strip(l)) == lv_render and (op == "false" or (op == "==" and rr is not None and is_null(rr))):
                    avoid.append((bid, br[1]))
    if element_reachable_avoiding(f, b, i, avoid, is_rel) is None:
        return True
    # release guarded by the non-NULL test plus further conditions (`if (p && n > 0) free(p)`): accept when a release sits
    # under the true edge of a non-NULL test that dominates the store
    dom = f.dominators()
    bid0 = b.id if isinstance(b, Block) else b
    for bid in f.rpo():
        br = f.branch(bid)
        if not br or bid not in dom.get(bid0, ()):
            continue
        for cc, p in atoms(br[0], True):
            op, l, rr = norm_cmp(cc, p)
            if render(strip(l)) == lv_render and (op == "truth" or (op == "!=" and rr is not None and is_null(rr))):
                pred = reach_avoiding(f, br[1], [(x, bid0) for x in f.blocks[bid0].preds])
                for x in list(pred) + [br[1]]:
                    if x != bid0 and any(is_rel(el) for el in f.blocks[x].els):
                        return True
    return False


def _outparam_stores(prog, t, pn, depth):
    """stores through out-parameter pn of t, following the parameter into callees unless the previous value is
    released before the forwarding call; yields (func, block, idx, element, param name)"""
    out = []
    for tb, ti, tel in t.elements():
        if tel["k"] == "asg" and tel["e"]["op"] == "=" and render(strip(tel["e"]["l"])) == "*" + pn and not is_null(tel["e"]["r"]):
            out.append((t, tb, ti, tel, pn))
    if depth < 3:
        for tb, ti, c in t.calls():
            t2 = prog.resolve(t, c)
            if t2 is None:
                continue
            for k2, a in enumerate(c.get("args", [])):
                if path(a) == pn and k2 < len(t2.params):
                    if _released_before(t, tb, ti, "*" + pn):
                        continue
                    out.extend(_outparam_stores(prog, t2, t2.params[k2]["n"], depth + 1))
    return out


def r_accum(prog, R):
    r = R.rule("R-C15-ACCUM", "a directive that appears twice releases the value it overwrites in the shared sysconfig accumulator", floor=3,
               analysis="must-pass release before overwrite (caller + out-parameter callee)")
    n = 0
    for f in prog.funcs.values():
        if f.file not in ("src/lib/ares_sysconfig_files.c", "src/lib/ares_sysconfig.c"):
            continue
        # direct stores to pointer fields of a sysconfig that is not created here
        for b, i, el in f.elements():
            if el["k"] == "asg" and el["e"]["op"] == "=":
                l = strip(el["e"]["l"])
                if l.get("k") == "mem" and l["rec"] == "ares_sysconfig_t" and (l.get("ty") or "").endswith("*") and not is_null(el["e"]["r"]) \
                        and root_var(l) is not None and root_var(l).get("vk") == "param":
                    n += 1
                    key = "fn=%s overwrite=%s" % (f.name, render(l))
                    if _released_before(f, b, i, render(l)):
                        r.ok(key, f.loc(el))
                    else:
                        r.viol(key, f.name, f.loc(el), "'%s' is overwritten without releasing its previous value: a repeated directive leaks the earlier allocation" % render(l))
        # out-parameter stores in callees given &sysconfig->field
        for b, i, c in f.calls():
            t = prog.resolve(f, c)
            if t is None:
                continue
            for k, a in enumerate(c.get("args", [])):
                a2 = strip(a)
                if a2 is not None and a2.get("k") == "un" and a2["op"] == "&" and strip(a2["e"]).get("k") == "mem" and strip(a2["e"])["rec"] == "ares_sysconfig_t" \
                        and (strip(a2["e"]).get("ty") or "").endswith("*") and k < len(t.params):
                    pn = t.params[k]["n"]
                    for (g, gb, gi, gel, gpn) in _outparam_stores(prog, t, pn, 0):
                        n += 1
                        key = "fn=%s out=*%s (from %s %s)" % (g.name, gpn, f.name, render(strip(a2["e"])))
                        if gel is None or _released_before(g, gb, gi, "*" + gpn):
                            r.ok(key, g.loc(gel if gel is not None else g.ln))
                        else:
                            r.viol(key, g.name, g.loc(gel), "*%s (the caller's %s) is overwritten without releasing its previous value: a repeated directive leaks the earlier allocation" % (
                                gpn, render(strip(a2["e"]))))
    r.info["overwrite_sites"] = n


ALLOC_ONLY = ("ares_strdup", "ares_malloc", "ares_malloc_zero", "ares_strsplit_duplicate")
RELEASERS = ("ares_free", "ares_strsplit_free", "ares_llist_destroy", "ares_array_destroy", "ares_buf_destroy")


def _clobbers_param(prog, t, k, depth=0):
    """callee t discards what *param_k pointed to (stores NULL or frees it) somewhere in its body"""
    if k >= len(t.params) or depth > 1:
        return None
    pn = t.params[k]["n"]
    for b, i, el in t.elements():
        if el["k"] == "asg" and el["e"]["op"] == "=":
            l = strip(el["e"]["l"])
            if l is not None and l.get("k") == "un" and l["op"] == "*" and is_var(strip(l["e"]), pn) and is_null(el["e"]["r"]):
                return el
        if el["k"] == "call" and el["e"].get("callee") in RELEASERS:
            a = strip(call_arg(el["e"], 0))
            if a is not None and a.get("k") == "un" and a["op"] == "*" and is_var(strip(a["e"]), pn):
                return el
    return None


def r_keep(prog, R):
    r = R.rule("R-C15-KEEP", "a malformed or empty directive cannot discard configuration accumulated from earlier lines: the old value is released only once its replacement has parsed to something", floor=6,
               analysis="replace-after-parse (must-order) + callee clobber summaries")
    n = 0
    for f in sorted(prog.funcs.values(), key=lambda x: x.key):
        if f.file not in ("src/lib/ares_sysconfig_files.c", "src/lib/ares_sysconfig.c"):
            continue
        if f.name in ("ares_sysconfig_free",):
            continue
        # (1) accumulated fields handed by address to a parser that clobbers its in/out argument
        for b, i, c in f.calls():
            t = prog.resolve(f, c)
            if t is None:
                continue
            for k, a in enumerate(c.get("args", [])):
                a2 = strip(a)
                if a2 is not None and a2.get("k") == "un" and a2["op"] == "&" and strip(a2["e"]).get("k") == "mem" and strip(a2["e"])["rec"] == "ares_sysconfig_t" \
                        and (strip(a2["e"]).get("ty") or "").endswith("*"):
                    n += 1
                    key = "fn=%s passes &%s to %s" % (f.name, render(strip(a2["e"])), t.name)
                    cl = _clobbers_param(prog, t, k)
                    if cl is None:
                        r.ok(key, f.loc(c["ln"]))
                    else:
                        r.viol(key, f.name, f.loc(c["ln"]), "%s parses straight into the accumulated %s; %s discards the previous value before it knows whether the new text is valid (%s): a malformed later line erases an earlier valid one" % (
                            f.name, render(strip(a2["e"])), t.name, t.loc(cl)))
        # (2) a release of an accumulated field is followed, without an intervening fallible call, by the store of an already computed replacement
        root_is_param = lambda m: root_var(m) is not None and root_var(m).get("vk") == "param"
        for b, i, el in f.elements():
            if el["k"] != "call" or el["e"].get("callee") not in RELEASERS:
                continue
            a = strip(call_arg(el["e"], 0))
            if a is None or a.get("k") != "mem" or a["rec"] != "ares_sysconfig_t" or not root_is_param(a):
                continue
            n += 1
            fld = render(a)
            key = "fn=%s release of %s" % (f.name, fld)
            blk = b
            okr = False
            why = "no replacement is stored after the release"
            for j in range(i + 1, len(blk.els)):
                e2 = blk.els[j]
                if e2["k"] == "call" and e2["e"].get("callee") in ALLOC_ONLY:
                    continue
                if e2["k"] == "call":
                    why = "%s is called between the release and the replacement (its failure leaves the field empty)" % (e2["e"].get("callee") or "a function")
                    break
                if e2["k"] == "asg" and render(strip(e2["e"]["l"])) == fld:
                    rr = strip(e2["e"].get("r"))
                    if is_null(e2["e"].get("r")):
                        continue
                    if rr is not None and rr.get("k") == "var":
                        okr = True
                    elif rr is not None and rr.get("k") == "call" and ((f.call_by_id(rr["id"]) or (0, 0, rr))[2].get("callee") in ALLOC_ONLY):
                        okr = True      # can only fail for lack of memory, which fails the whole configuration anyway
                    else:
                        why = "the replacement is computed after the release ('%s')" % e2.get("t", "")
                    break
            if okr:
                r.ok(key, f.loc(el))
            else:
                r.viol(key, f.name, f.loc(el), "%s releases the accumulated %s before its replacement exists: %s, so a malformed directive discards what earlier lines configured" % (f.name, fld, why))
    # (3) a line that names nothing replaces nothing: where a list field and its count are replaced together, the store is reached only with
    #     a non-zero count (a value made of separators only parses successfully to zero elements)
    COUNTS = {"sortlist": "nsortlist", "domains": "ndomains"}
    for f in sorted(prog.funcs.values(), key=lambda x: x.key):
        if f.file not in ("src/lib/ares_sysconfig_files.c",):
            continue
        mf = None
        for b, i, el in f.elements():
            if el["k"] != "asg" or el["e"]["op"] != "=":
                continue
            l = strip(el["e"]["l"])
            if l is None or l.get("k") != "mem" or l.get("rec") != "ares_sysconfig_t" or l["f"] not in COUNTS.values():
                continue
            rr = strip(el["e"].get("r"))
            if not is_var(rr):
                continue
            if root_var(l) is None or root_var(l).get("vk") != "param":
                continue
            n += 1
            cv = rr["n"]
            key = "fn=%s %s replaced only by a non-empty list" % (f.name, render(l))
            if mf is None:
                mf = MustFacts(f, track_calls=False)
            nz = False
            for c3, p3 in mf.cond_facts_at(b, i):
                op, l3, r3 = norm_cmp(c3, p3)
                if is_var(strip(l3), cv) and ((op in ("!=", ">") and r3 is not None and const_val(r3) == 0) or op == "truth" or (op == ">=" and r3 is not None and (const_val(r3) or 0) >= 1)):
                    nz = True
            if nz:
                r.ok(key, f.loc(el))
            else:
                r.viol(key, f.name, f.loc(el), "%s is replaced by a freshly parsed list without knowing that '%s' is non-zero: a line whose value consists of separators only (e.g. 'sortlist ;') parses successfully to nothing and erases what an earlier line configured" % (render(l), cv))
    r.info["sites"] = n


def r_split(prog, R):
    r = R.rule("R-C15-SPLIT", "configuration text is split into tokens without a section limit; a limit (where the last section takes the rest of the line) is used only for 'key<sep>value' with exactly two sections", floor=8,
               analysis="A-TAB argument table of every splitter call")
    n = 0
    for f in sorted(prog.funcs.values(), key=lambda x: x.key):
        if f.file.startswith("src/lib/str/"):
            continue
        for b, i, c in f.calls():
            if c.get("callee") not in ("ares_buf_split", "ares_buf_split_str", "ares_buf_split_str_array"):
                continue
            n += 1
            mx = call_arg(c, 4)
            v = const_val(mx)
            dl = const_val(call_arg(c, 2))
            k = "fn=%s %s max_sections" % (f.name, c["callee"])
            if v == 0:
                r.ok(k + " = 0 (every token separate)", f.loc(c["ln"]))
            elif v == 2 and dl == 1:
                r.ok(k + " = 2 on a single separator (key / rest of line)", f.loc(c["ln"]))
            else:
                r.viol(k, f.name, f.loc(c["ln"]), "%s splits with a section limit of '%s': the limit does not drop surplus tokens, it makes the last element swallow the rest of the text including the separators, so a list value such as 'domain a b' becomes one bogus entry instead of its first valid token" % (f.name, render(mx)))
    r.info["split_calls"] = n
    # white-space separated values: a splitter of the resolv.conf value handlers that separates on SPACE separates on TAB as well, and the
    # helper that fetches a line's value does not reject the line for a TAB (resolv.conf(5): "separated by spaces or tabs")
    for f in sorted(prog.funcs.values(), key=lambda x: x.key):
        if f.file != "src/lib/ares_sysconfig_files.c":
            continue
        for b, i, c in f.calls():
            if c.get("callee") not in ("ares_buf_split", "ares_buf_split_str"):
                continue
            d = strip(call_arg(c, 1))
            while d is not None and d.get("k") == "cast":
                d = strip(d["e"])
            lit = d.get("s") if d is not None and d.get("k") == "str" else None
            if lit is None or " " not in lit:
                continue
            k = "fn=%s splits on tabs wherever it splits on spaces (%r)" % (f.name, lit)
            if "\t" in lit:
                r.ok(k, f.loc(c["ln"]), nontrivial=False)
            else:
                r.viol(k, f.name, f.loc(c["ln"]), "%s separates the words of a configuration value on %r but not on TAB: 'search a.example<TAB>b.example' becomes one invalid token and the directive has no effect" % (f.name, lit))
    g = prog.func("buf_fetch_string", file="src/lib/ares_sysconfig_files.c", required=False)
    k = "a line's value is not rejected for a TAB"
    if g is None:
        r.broke("buf_fetch_string (value fetch of the line handlers) not found")
    else:
        handles_tab = False
        for b2, i2, e2 in g.elements():
            for nd in walk(e2.get("e")) if e2.get("e") is not None else []:
                if nd.get("k") == "int" and nd.get("v") == 9 and nd.get("chr"):
                    handles_tab = True
        strict = bool(g.calls_to("ares_buf_tag_fetch_string")) or bool(g.calls_to("ares_str_isprint"))
        if strict and not handles_tab:
            r.viol(k, g.name, g.loc(g.ln), "the value of a configuration line is fetched through a printable-characters-only primitive without treating TAB as a separator: any line whose value contains a tab (allowed by resolv.conf(5)) is ignored as a whole")
        else:
            r.ok(k, g.loc(g.ln))


def r_empty(prog, R):
    r = R.rule("R-C15-EMPTY", "an empty configuration value is not reported as out of memory: the text handlers call the constructor that rejects empty input only after excluding the empty string", floor=2,
               analysis="callee precondition (extracted) x dominating non-empty fact")
    cc = prog.func("ares_buf_create_const")
    rejects = any(b.term and b.term.get("cond") is not None and "data_len == 0" in render(b.term["cond"]) for b in cc.blocks.values())
    if not r.require(rejects, "ares_buf_create_const no longer rejects an empty input (rule needs re-confirmation)"):
        return
    for f in sorted(prog.funcs.values(), key=lambda x: x.key):
        if f.file not in ("src/lib/ares_sysconfig_files.c", "src/lib/ares_sysconfig.c"):
            continue
        mf = None
        for b, i, c in f.calls_to("ares_buf_create_const"):
            src = strip(call_arg(c, 0))
            while src is not None and src.get("k") == "cast":
                src = strip(src["e"])
            sk = render(src)
            if mf is None:
                mf = MustFacts(f, track_calls=False)
            nonempty = False
            for c3, p3 in mf.cond_facts_at(b, i):
                t = render(c3)
                op, l3, r3 = norm_cmp(c3, p3)
                if sk in t and (("ares_strlen" in t and ((op in ("!=", ">") and r3 is not None and const_val(r3) == 0) or op == "truth")) or ("*" in t and op in ("!=", "truth"))):
                    nonempty = True
            # what happens to a NULL result
            k = "fn=%s ares_buf_create_const(%s)" % (f.name, sk)
            enomem = False
            g = call_result_branches(f, "ares_buf_create_const")
            for el in [e2 for _, _, e2 in f.elements() if e2["k"] == "ret" and name_of_const(e2.get("e")) == "ARES_ENOMEM"] + [e2 for _, _, e2 in f.elements() if e2["k"] == "asg" and name_of_const(e2["e"].get("r")) == "ARES_ENOMEM"]:
                enomem = True
            callers_guard = _all_callers_nonempty(prog, f, c)
            if nonempty or callers_guard:
                r.ok(k + " (non-empty)", f.loc(c["ln"]))
            elif enomem:
                r.viol(k, f.name, f.loc(c["ln"]), "%s builds a buffer over '%s' without excluding the empty string; ares_buf_create_const() returns NULL for it and %s reports ARES_ENOMEM: an empty value (e.g. a variable that is set but empty) aborts the whole configuration" % (f.name, sk, f.name))
            else:
                r.ok(k, f.loc(c["ln"]))


def _all_callers_nonempty(prog, f, c):
    """every caller passes a string it has tested to be non-empty (`*value == 0 -> return` before the call)"""
    src = strip(call_arg(c, 0))
    while src is not None and src.get("k") == "cast":
        src = strip(src["e"])
    if src is None or src.get("k") != "var" or src.get("vk") != "param":
        return False
    pidx = f.param_index(src["n"])
    # only the file / environment handlers matter: a direct API call with an empty string may be answered with an error
    callers = [x for x in prog.callers_of(f) if x[0].file in ("src/lib/ares_sysconfig_files.c", "src/lib/ares_sysconfig.c")]
    if not callers:
        return False
    for (cf, cb, ci, cc) in callers:
        a = strip(call_arg(cc, pidx))
        ak = render(a)
        mf = MustFacts(cf, track_calls=False)
        okc = False
        for c3, p3 in mf.cond_facts_at(cb, ci):
            t = render(c3)
            op, l3, r3 = norm_cmp(c3, p3)
            if ak in t and "*" in t and (op in ("!=", "truth")):
                okc = True
        if not okc:
            return False
    return True


def _def_bound(f, mf, name):
    """upper bound of local `name` from all its definitions: constants, or (casts of) another variable that is bounded by a
    dominating comparison with a constant at the point of the assignment"""
    best = 0
    found = False
    for b, i, el in f.elements():
        rhs = None
        if el["k"] == "decl":
            for v in el["vars"]:
                if v["n"] == name and v.get("init") is not None:
                    rhs = v["init"]
        elif el["k"] == "asg" and is_var(strip(el["e"]["l"]), name) and el["e"]["op"] == "=":
            rhs = el["e"].get("r")
        elif el["k"] == "asg" and is_var(strip(el["e"]["l"]), name):
            return None
        if rhs is None:
            continue
        found = True
        e = strip(rhs)
        while e is not None and e.get("k") == "cast":
            e = strip(e["e"])
        cv = const_val(e)
        if cv is not None:
            best = max(best, cv)
            continue
        if e is not None and e.get("k") == "var":
            bnd = None
            for c3, p3 in mf.cond_facts_at(b, i):
                op, l3, r3 = norm_cmp(c3, p3)
                if r3 is None or not is_var(strip(l3), e["n"]) or const_val(r3) is None:
                    continue
                if op == "<=":
                    bnd = const_val(r3)
                elif op == "<":
                    bnd = const_val(r3) - 1
            if bnd is None:
                return None
            best = max(best, bnd)
            continue
        return None
    return best if found else None


def r_num(prog, R):
    r = R.rule("R-C15-NUM", "numbers in configuration text are converted only from validated decimal strings and scaled only within range", floor=2,
               analysis="A-DOM validation fact before conversion + interval bound before scaling")
    n = 0
    for f in sorted(prog.funcs.values(), key=lambda x: x.key):
        if f.file not in ("src/lib/ares_sysconfig_files.c", "src/lib/ares_sysconfig.c"):
            continue
        mf = None
        conv = {}
        for b, i, c in f.calls():
            if c.get("callee") not in ("strtoul", "strtol", "atoi", "atol", "strtoull"):
                continue
            n += 1
            if mf is None:
                mf = MustFacts(f)
            src = render(strip(call_arg(c, 0)))
            k = "fn=%s %s(%s) validated" % (f.name, c["callee"], src)
            ok_ = False
            for c3, p3 in mf.cond_facts_at(b, i):
                op3, l3, r3 = norm_cmp(c3, p3)
                ls = strip(l3)
                if op3 == "truth" and ls is not None and ls.get("k") == "call":
                    full = f.call_by_id(ls["id"]) if ls.get("ref") else None
                    cn = full[2] if full else ls
                    if cn.get("callee") == "ares_str_isnum" and render(strip(cn["args"][0])) == src:
                        ok_ = True
            if ok_:
                r.ok(k, f.loc(c["ln"]))
            else:
                r.viol(k, f.name, f.loc(c["ln"]), "%s converts '%s' with %s without having checked that it is a plain decimal number: a sign, garbage or an overflowing value silently becomes some other number (e.g. 'ndots:-1' = 4294967295)" % (f.name, src, c["callee"]))
        # scaling of a converted value
        for b, i, el in f.elements():
            if el["k"] != "asg":
                continue
            for nd in walk(el["e"].get("r")):
                if nd.get("k") == "bin" and nd["op"] == "*" and const_val(nd["r"]) is not None and strip(nd["l"]).get("k") == "var" and (nd.get("ty") or "").startswith("unsigned"):
                    if not any(c.get("callee") in ("strtoul", "strtol", "atoi", "atol") for _, _, c in f.calls()):
                        continue
                    n += 1
                    if mf is None:
                        mf = MustFacts(f)
                    lo, hi = interval(strip(nd["l"]), mf.cond_facts_at(b, i), prog, f, point=(b.id, i))
                    hi2 = _def_bound(f, mf, strip(nd["l"])["n"])
                    if hi2 is not None and (hi is None or hi2 < hi):
                        hi = hi2
                    k = "fn=%s %s in range" % (f.name, render(nd))
                    lim = (1 << (type_bits((nd.get("ty") or "").replace("const ", "")) or 32)) - 1
                    if hi is not None and hi * const_val(nd["r"]) <= lim:
                        r.ok(k, f.loc(el))
                    else:
                        r.viol(k, f.name, f.loc(el), "%s can exceed its %d-bit type (upper bound of '%s' is %s): a large configured value wraps to a small one" % (render(nd), type_bits((nd.get("ty") or "").replace("const ", "")) or 32, render(nd["l"]), hi))
    r.require(n >= 2, "no numeric conversions found in the configuration parsers (anchor drift)")


LINE_LOOPS = ("ares_lookup_hostaliases", "ares_parse_hosts", "ares_sysconfig_process_buf")
LINE_COMMITS = ("ares_strdup", "ares_hosts_file_add")


def r_lineloop(prog, R):
    r = R.rule("R-C15-LINELOOP", "the loops that walk a configuration file line by line are left early only at the end of the input, on an allocation failure, or once a line "
               "has produced its result: a malformed line is skipped, it never ends the scan", floor=3,
               analysis="loop-exit vocabulary (dominating facts / committed-result calls at every early exit)")
    for name in LINE_LOOPS:
        f = prog.func(name)
        loops = f.natural_loops()
        if not r.require(bool(loops), "%s: line loop not found" % name):
            continue
        # outermost loop
        h, body = max(loops.items(), key=lambda kv: len(kv[1]))
        mf = MustFacts(f, track_calls=True)
        bad = None
        nexits = 0
        for bid in sorted(body):
            if bid == h:
                continue
            blk = f.blocks[bid]
            br = f.branch(blk)
            for s2 in f.succ(bid):
                if s2 in body:
                    continue
                nexits += 1
                at = len(blk.els)
                facts = list(mf.cond_facts_at(bid, at))
                if br:
                    facts += atoms(br[0], br[1] == s2)
                ok = False
                for c3, p3 in facts:
                    op, l3, r3 = norm_cmp(c3, p3)
                    ls = strip(l3)
                    # allocation failure
                    if op == "==" and r3 is not None and name_of_const(r3) == "ARES_ENOMEM":
                        ok = True
                    if (op == "==" and r3 is not None and is_null(r3)) or (op == "false" and r3 is None):
                        # a NULL test of something assigned from an allocating call in this function
                        tgt = render(ls)
                        for _, _, e2 in f.elements():
                            if e2["k"] == "asg" and render(strip(e2["e"]["l"])) == tgt:
                                rr = strip(e2["e"].get("r"))
                                if rr is not None and rr.get("k") == "call":
                                    full = f.call_by_id(rr["id"]) if rr.get("ref") else None
                                    cn = full[2] if full else rr
                                    if cn.get("callee") in ALLOC_ONLY:
                                        ok = True
                    # end of input
                    if ls is not None and ls.get("k") == "call":
                        full = f.call_by_id(ls["id"]) if ls.get("ref") else None
                        cn = full[2] if full else ls
                        if cn.get("callee") == "ares_buf_len" and ((op == "==" and r3 is not None and const_val(r3) == 0) or op == "false"):
                            ok = True
                if not ok:
                    # a result was produced in this iteration (must-passed call; facts at the loop header do not include it) ...
                    passed = {fk[1] for fk in mf.facts_at(bid, at) if fk[0] == "call"}
                    hdr = {fk[1] for fk in mf.facts_at(h, 0) if fk[0] == "call"}
                    if (passed - hdr) & (set(LINE_COMMITS) | {"<indirect>"}):
                        ok = True
                    # ... or is produced by the code the exit leads to (straight-line tail up to the next join)
                    t = s2
                    hops = 0
                    while t is not None and not ok and hops < 6:
                        tb = f.blocks[t]
                        if any(e2["k"] == "call" and e2["e"].get("callee") in LINE_COMMITS for e2 in tb.els):
                            ok = True
                        nxt = [x for x in tb.succs if x is not None]
                        t = nxt[0] if len(nxt) == 1 and len(f.blocks[nxt[0]].preds) == 1 else None
                        hops += 1
                if not ok:
                    bad = (blk, s2, facts)
        k = "fn=%s leaves the line loop only at end of input / out of memory / with a result" % name
        if bad:
            blk = bad[0]
            r.viol(k, name, f.loc((blk.term or {}).get("ln") or (blk.els[-1].get("ln") if blk.els else f.ln)), "%s can leave its line loop under [%s]: not the end of the input, not an allocation failure and no line has produced a result -- a malformed line hides every later valid line" % (
                name, ", ".join(("" if p3 else "!") + render(c3) for c3, p3 in bad[2][-3:])))
        else:
            r.ok(k, f.loc(f.ln), "%d early exits" % nexits)


def r_linefeed(prog, R):
    r = R.rule("R-C15-LINEFEED", "a parser that works on a whole file buffer and ends entries with ares_buf_consume_line never skips white space across a line end: "
               "an entry that stops early must not pull the next line into itself", floor=2, analysis="buffer provenance (callers that consume lines) x constant argument")
    # functions that end entries by consuming the rest of the line on a buffer, and everything they hand that buffer to
    roots = {}
    for f in prog.funcs.values():
        for b, i, c in f.calls_to("ares_buf_consume_line"):
            a = strip(call_arg(c, 0))
            if is_var(a):
                roots.setdefault(f.key, (f, set()))[1].add(a["n"])
    users = dict(roots)
    work = list(roots.values())
    while work:
        f, bufs = work.pop()
        for b, i, c in f.calls():
            t = prog.resolve(f, c)
            if t is None or not t.file.startswith("src/lib/ares_"):
                continue
            for k, a in enumerate(c.get("args", [])):
                a2 = strip(a)
                if is_var(a2) and a2["n"] in bufs and k < len(t.params):
                    ent = users.setdefault(t.key, (t, set()))
                    if t.params[k]["n"] not in ent[1]:
                        ent[1].add(t.params[k]["n"])
                        work.append(ent)
    n = 0
    for key, (f, bufs) in sorted(users.items()):
        for b, i, c in f.calls_to("ares_buf_consume_whitespace"):
            a = strip(call_arg(c, 0))
            if not (is_var(a) and a["n"] in bufs):
                continue
            n += 1
            k = "fn=%s skips white space within the line only" % f.name
            if name_of_const(call_arg(c, 1)) == "ARES_FALSE":
                r.ok(k, f.loc(c["ln"]))
            else:
                r.viol(k, f.name, f.loc(c["ln"]), "%s skips white space on the whole-file buffer with include_linefeed = %s: after an entry that stops early (an address without host names) the newline is consumed as well and the following line is read as part of this entry" % (f.name, render(call_arg(c, 1))))
    r.info["line_oriented_functions"] = sorted(f.name for f, _ in users.values())
    r.require(n >= 2, "fewer than 2 white-space skips in line-oriented parsers found")


def r_initorder(prog, R):
    r = R.rule("R-C15-INITORDER", "what a configuration source needs from the channel is in place before that source runs: the socket function table (interface name "
               "lookup for link-local servers) is installed before the system configuration is read", floor=1,
               analysis="call-graph reachability (reader of sock_funcs under the configuration source) + must-precede in ares_init_options")
    f = prog.func("ares_init_options")
    src = f.calls_to("ares_init_by_sysconfig")
    if not r.require(bool(src), "ares_init_options: ares_init_by_sysconfig call not found"):
        return
    # premise: something under ares_init_by_sysconfig reads channel->sock_funcs
    root = prog.func("ares_init_by_sysconfig")
    seen, work, reader = set(), [root], None
    while work and reader is None:
        g = work.pop()
        if g.key in seen:
            continue
        seen.add(g.key)
        for b, i, el in g.elements():
            for nd in walk(el.get("e")) if el.get("e") is not None else []:
                if nd.get("k") == "mem" and nd["f"].startswith("aif_") and "sock_funcs" in render(nd):
                    reader = g
        for b, i, c in g.calls():
            t = prog.resolve(g, c)
            if t is not None and t.file.startswith("src/lib/"):
                work.append(t)
            for a in c.get("args", []):          # callbacks handed down (line handlers)
                a2 = strip(a)
                if a2 is not None and a2.get("k") == "fn":
                    for t2 in prog.by_name.get(a2["n"], []):
                        if t2.file.startswith("src/lib/"):
                            work.append(t2)
    r.info["sock_funcs_reader_under_sysconfig"] = reader.name if reader else None
    if not r.require(reader is not None, "no reader of channel->sock_funcs.aif_* found under ares_init_by_sysconfig (premise of the rule vanished)"):
        return
    mf = MustFacts(f, track_calls=True)
    b, i, c = src[0]
    k = "socket functions installed before the system configuration is read"
    if any(mf.passed_call(b, i, nm) for nm in ("ares_set_socket_functions_def", "ares_set_socket_functions_ex")):
        r.ok(k, f.loc(c["ln"]))
    else:
        r.viol(k, f.name, f.loc(c["ln"]), "ares_init_by_sysconfig() runs before ares_set_socket_functions_def(): %s() reads channel->sock_funcs.aif_* to validate the interface of a link-local server, finds NULL and drops the server -- a valid 'nameserver fe80::1%%eth0' line has no effect at first init" % reader.name)


def r_ignored(prog, R):
    """An entry the collector decides to ignore silently (it assigns ARES_SUCCESS to its status and leaves without inserting) must not have
    touched the caller's list: an empty list that was created on the way is later applied as "the configured servers" and removes every
    server the channel had."""
    r = R.rule("R-C15-IGNORED", "a server entry that is silently ignored (link-local address without a usable interface, blacklisted address) leaves the collected list exactly as it was: "
               "no path stores to the caller's list pointer and then takes a 'status = ARES_SUCCESS, leave without inserting' exit", floor=1,
               analysis="path search from each store through the list out-parameter to a silent-ignore exit, the insertion call as barrier")
    f = prog.func("ares_sconfig_append")
    ins = lambda e2: e2["k"] == "call" and (e2["e"].get("callee") or "").startswith("ares_llist_insert")
    stores = []
    for b, i, el in f.elements():
        if el["k"] == "asg":
            l = strip(el["e"]["l"])
            if l is not None and l.get("k") == "un" and l["op"] == "*" and is_var(strip(l["e"])) and strip(l["e"]).get("vk") == "param":
                stores.append((b, i, el))
    if not r.require(bool(stores), "ares_sconfig_append: no store through the list out-parameter found"):
        return
    for b, i, el in stores:
        pred = reach_avoiding(f, b.id, (), ins, i + 1)
        hit = None
        for bid in [b.id] + [x for x in pred if x != b.id]:
            blk = f.blocks[bid]
            lo = i + 1 if bid == b.id else 0
            for j in range(lo, len(blk.els)):
                e2 = blk.els[j]
                if ins(e2):
                    break
                if e2["k"] == "asg" and is_var(strip(e2["e"]["l"]), "status") and name_of_const(e2["e"].get("r")) == "ARES_SUCCESS":
                    # from here to the exit without inserting and without another status
                    if can_reach_exit_avoiding(f, blk, j, lambda e3: ins(e3) or (e3["k"] == "asg" and is_var(strip(e3["e"]["l"]), "status"))):
                        hit = e2
                        break
            if hit:
                break
        k = "fn=%s store %s not followed by a silent-ignore exit" % (f.name, render(el["e"]["l"]))
        if hit:
            r.viol(k, f.name, f.loc(hit), "ares_sconfig_append stores to %s and can then leave at '%s' without inserting anything: the caller is left with a new, empty server list, which "
                   "ares_sysconfig_apply() applies as the configured servers -- a `nameserver fe80::1` line (ignored: no interface) removes every server of the channel on ares_reinit()" % (render(el["e"]["l"]), hit.get("t", "")))
        else:
            r.ok(k, f.loc(el))


def r_port(prog, R):
    r = R.rule("R-C15-PORT", "a port number read from configuration text is range-checked before it is narrowed to 16 bits: `1.2.3.4:99999`, `dns://1.2.3.4:70000` and `?tcpport=99999` are "
               "refused (the entry is then ignored like any other malformed one) instead of silently becoming some other port", floor=3,
               analysis="narrowing casts of text conversions: the converted value is held in a variable whose upper bound at the cast (A-DOM facts + interval) is <= 65535")
    n = 0
    for f in sorted(prog.funcs.values(), key=lambda x: x.key):
        if f.file not in ("src/lib/ares_update_servers.c", "src/lib/util/ares_uri.c"):
            continue
        convs = {c.get("id") for _, _, c in f.calls() if c.get("callee") in ("atoi", "atol", "strtol", "strtoul")}
        if not convs:
            continue
        mf = None
        conv_vars = set()
        for b, i, el in f.elements():
            for tgt, rhs in ([(strip(el["e"]["l"]), el["e"].get("r"))] if el["k"] == "asg" and el["e"]["op"] == "=" else []) + ([({"k": "var", "n": v["n"]}, v.get("init")) for v in el["vars"] if v.get("init") is not None] if el["k"] == "decl" else []):
                rs = strip(rhs)
                if tgt is not None and tgt.get("k") == "var" and rs is not None and rs.get("k") == "call" and rs.get("id") in convs:
                    conv_vars.add(tgt["n"])
        for b, i, el in list(f.elements()):
            nodes = []
            if el["k"] == "asg":
                nodes = list(walk(el["e"].get("r")))
            elif el["k"] == "call":
                nodes = [x for a in el["e"].get("args", []) for x in walk(a)]
            for nd in nodes:
                if not (isinstance(nd, dict) and nd.get("k") == "cast" and nd.get("to") in ("unsigned short", "uint16_t")):
                    continue
                inner = strip(nd["e"])
                if inner is None:
                    continue
                if inner.get("k") == "call" and inner.get("id") in convs:
                    n += 1
                    r.viol("fn=%s %s range-checked" % (f.name, render(nd)[:50]), f.name, f.loc(el), "%s narrows the converted text directly to 16 bits: a value above 65535 (five digits are read) wraps to another port "
                           "and the malformed entry takes effect" % f.name)
                    continue
                if inner.get("k") == "var" and inner["n"] in conv_vars:
                    n += 1
                    mf = mf or MustFacts(f)
                    lo, hi = interval(inner, mf.cond_facts_at(b, i), prog, f, point=(b.id, i))
                    k = "fn=%s %s range-checked" % (f.name, render(nd)[:50])
                    if hi is not None and hi <= 65535:
                        r.ok(k, f.loc(el))
                    else:
                        r.viol(k, f.name, f.loc(el), "'%s' holds a number converted from configuration text and is narrowed to 16 bits without an upper bound of 65535 being established (bound: %s)" % (inner["n"], hi))
    r.require(n >= 3, "port conversions in the server-list parsers not found (%d)" % n)


def run(prog, R, tier):
    R.assume("callees are given valid (non-NULL) pointers by the configuration parsers (defensive NULL-argument returns are not part of the return sets)")
    ownrules.own_rule(prog, R, "R-C15-OWN", FILES, floor=30)
    r_ret(prog, R)
    r_dst(prog, R, None)
    r_fields(prog, R)
    r_accum(prog, R)
    r_keep(prog, R)
    r_split(prog, R)
    r_empty(prog, R)
    r_num(prog, R)
    r_lineloop(prog, R)
    r_linefeed(prog, R)
    r_initorder(prog, R)
    r_ignored(prog, R)
    r_port(prog, R)
    ownrules.realloc_rule(prog, R, "R-C15-REALLOC")
    outinit.outinit_rule(prog, R, "R-C15-OUTINIT", floor=10)
