"""C19 — internal containers behave as their abstract data types (structural clauses only)."""
from lib import *  # noqa
import ownrules
import C14
import dsarules

TECHNIQUE = ("sibling-delegation table over the first/last/at families of the containers, claim/destroy destructor discipline, heap-ownership "
             "typestate inside dsa/ and ares_buf.c, allocate-before-mutate ordering, exact-guard checks of the buffer tag adjustment, "
             "linear normal forms of the array's index expressions with dominating bound facts, def-use freshness of hash bucket indexes across "
             "resizes, must-pass/avoidance of count updates per success return, paired link stores and comparator direction in the skip list, "
             "sibling agreement of hash and equality callbacks")
LEVEL_TEXT = ("static: decides only the shape-of-code clauses: every *_first/*_last/insertdata/typed wrapper delegates to the like-named primitive "
              "with the like-positioned index; node_destroy = claim + destructor while claim never runs the destructor; the containers neither leak "
              "nor double-free on any path; growth routines allocate before they mutate; the buffer's tag is re-based whenever data is compacted; "
              "array slots are addressed at (index + offset) and gaps are opened/closed by exactly one slot at the index; a hash bucket index is never "
              "used across a resize, existing keys are replaced in place and keys are counted once; hash and equality callbacks of each typed table "
              "identify keys alike; skip-list nodes are linked/unlinked from both sides on every level and scans follow the comparator's sign. "
              "Does NOT decide conformance to the abstract model under operation sequences.")
# fifth-round additions
TECHNIQUE += "; " + 'must-pass-through (claim before destructor) in node_destroy of both lists; exact evaluation of ares_array_move over a finite domain of (alloc, offset, cnt, src, dest)'
LEVEL_TEXT += " " + "(UNLINKFIRST) a node is unlinked before its value's destructor runs; (MOVEBOUND) ares_array_move performs every shift that stays inside the allocation, including one that ends at its last slot, and refuses a right shift past it (offset 0)."
# sixth-round additions
TECHNIQUE += "; " + "structural agreement of ares_realloc_zero's old-size argument with the capacity member"
LEVEL_TEXT += " " + '(REALLOCOLD) growth with ares_realloc_zero states the capacity member times the unit as the old size.'
# seventh/eighth-round addition
TECHNIQUE += "; " + 'must-facts on the reference argument of every INSERT_BEFORE call (R-C19-BEFOREREF)'
LEVEL_TEXT += " " + '(BEFOREREF, eighth round) an insertion before a node is always given a non-NULL node (insert-after-the-tail cannot become insert-at-the-head).'
# ninth-round addition
TECHNIQUE += "; " + 'decision table of ares_buf_reclaim by exact evaluation (tag none/before/at/after the read position)'
LEVEL_TEXT += " " + '(BUFTAG, ninth round) compaction discards at most min(read position, tag) bytes for every relative position of tag and read position.'
LEVEL_NOTE = "trusts clang CFG + extractor; conformance to the ADT model needs model-based execution and is outside this family"
DESIGN_REF = "DESIGN.md §6/C19"
EXPLANATION = LEVEL_TEXT
NOT_DECIDED = "conformance to the ADT models under arbitrary operation sequences (needs a reference-model search); only the necessary structural conditions listed are decided"

DSA = lambda f: f.file.startswith("src/lib/dsa/")


def _token(name):
    for t in ("first", "last"):
        if name.endswith("_" + t) or name.endswith("_" + t + "_val") or ("_" + t + "_") in name:
            return t
    return None


def r_sib(prog, R):
    r = R.rule("R-C19-SIB", "first/last wrappers delegate to the like-named primitive with the like-positioned index", floor=18, analysis="A-TAB sibling delegation")
    for f in sorted(prog.funcs.values(), key=lambda x: x.key):
        if not DSA(f):
            continue
        tok = _token(f.name)
        if tok is None:
            continue
        other = "last" if tok == "first" else "first"
        checked = 0
        for b, i, c in f.calls():
            cal = c.get("callee") or ""
            if not cal.startswith("ares_"):
                continue
            ctok = _token(cal)
            key = "fn=%s -> %s" % (f.name, cal)
            if ctok is not None:
                checked += 1
                if ctok != tok:
                    r.viol(key, f.name, f.loc(c["ln"]), "%s delegates to %s: operates on the %s end instead of the %s end" % (f.name, cal, ctok, tok))
                else:
                    r.ok(key, f.loc(c["ln"]))
            elif cal.endswith("_at"):
                t = prog.resolve(f, c)
                # position argument: enum HEAD/TAIL or an index
                pos = None
                for a in c.get("args", []):
                    nm = name_of_const(a)
                    if nm and ("HEAD" in nm or "TAIL" in nm):
                        pos = "first" if "HEAD" in nm else "last"
                if pos is None and t is not None:
                    for k, prm in enumerate(t.params):
                        if prm["n"] in ("idx", "index") and k < len(c.get("args", [])):
                            a = c["args"][k]
                            pos = "first" if const_val(a) == 0 else "last"
                if pos is None:
                    continue
                checked += 1
                if pos != tok:
                    r.viol(key, f.name, f.loc(c["ln"]), "%s passes the %s position to %s" % (f.name, pos, cal))
                else:
                    r.ok(key, f.loc(c["ln"]))
        if checked == 0:
            # leaf accessor: returns head/tail
            for b, i, el in f.returns():
                e = strip(el.get("e"))
                flds = [x for n in walk(e) for x in ([n["f"]] if n.get("k") == "mem" else [])] if e is not None else []
                if "head" in flds or "tail" in flds:
                    want = "head" if tok == "first" else "tail"
                    key = "fn=%s returns %s" % (f.name, want)
                    if want in flds:
                        r.ok(key, f.loc(el))
                    else:
                        r.viol(key, f.name, f.loc(el), "%s returns the %s of the list" % (f.name, "tail" if want == "head" else "head"))
    # typed hash-table wrappers delegate to the like-named core primitive
    for f in sorted(prog.funcs.values(), key=lambda x: x.key):
        if not (f.file.startswith("src/lib/dsa/ares_htable_") and f.name.startswith("ares_htable_")):
            continue
        op = f.name.split("_")[-1]
        if op not in ("insert", "remove", "get", "destroy"):
            continue
        core = {"insert": "ares_htable_insert", "remove": "ares_htable_remove", "get": "ares_htable_get", "destroy": "ares_htable_destroy"}[op]
        callees = [c.get("callee") for _, _, c in f.calls()]
        others = [x for x in callees if x in ("ares_htable_insert", "ares_htable_remove", "ares_htable_get", "ares_htable_destroy") and x != core]
        key = "fn=%s -> %s" % (f.name, core)
        if core in callees and not others:
            r.ok(key, f.loc(f.ln))
        else:
            r.viol(key, f.name, f.loc(f.ln), "typed wrapper %s does not delegate to %s (calls %s)" % (f.name, core, sorted(set(x for x in callees if x and x.startswith("ares_htable")))))


def r_claimdestroy(prog, R):
    r = R.rule("R-C19-CLAIMDESTROY", "node_destroy = claim + destructor; claim never runs the destructor", floor=4, analysis="A-WMC on indirect calls")
    for fam, dname in (("ares_llist", "destruct"), ("ares_slist", "destruct")):
        cl = prog.func(fam + "_node_claim")
        ds = prog.func(fam + "_node_destroy")
        ind = [c for _, _, c in cl.calls() if not c.get("callee")]
        if ind:
            r.viol("%s_node_claim no-destructor" % fam, cl.name, cl.loc(ind[0]["ln"]), "claim invokes a function pointer: a claimed value would be destroyed under its new owner")
        else:
            r.ok("%s_node_claim no-destructor" % fam, cl.loc(cl.ln))
        calls = [c.get("callee") for _, _, c in ds.calls()]
        ind = [c for _, _, c in ds.calls() if not c.get("callee") and slot_of(c.get("fnx"))[-1] == dname]
        if (fam + "_node_claim") in calls and ind:
            r.ok("%s_node_destroy=claim+destruct" % fam, ds.loc(ds.ln))
        else:
            r.viol("%s_node_destroy=claim+destruct" % fam, ds.name, ds.loc(ds.ln), "node_destroy no longer claims the node and runs the list's destructor on its value")
        # the node itself is freed in claim
        if any(c.get("callee") == "ares_free" for _, _, c in cl.calls()):
            r.ok("%s_node_claim frees node" % fam, cl.loc(cl.ln))
        else:
            r.viol("%s_node_claim frees node" % fam, cl.name, cl.loc(cl.ln), "claim does not release the node shell")


def r_unlinkfirst(prog, R, rid="R-C19-UNLINKFIRST", fams=("ares_llist", "ares_slist")):
    """The destructor of a list value may re-enter the container (a server's destructor re-sends its in-flight queries, and the re-send picks the
    first entry of channel->servers): node_destroy must have taken the node out of the list before it runs the destructor."""
    r = R.rule(rid, "a node is unlinked before its value's destructor runs: on every path to the destructor call in node_destroy the node was claimed (taken out of the list) first, "
               "so a destructor that re-enters the container never finds the half-destroyed value", floor=len(fams), analysis="A-DOM must-pass-through (claim before the indirect destructor call)")
    for fam in fams:
        ds = prog.func(fam + "_node_destroy")
        mf = MustFacts(ds)
        sites = [(b, i, c) for b, i, c in ds.calls() if not c.get("callee") and slot_of(c.get("fnx"))[-1] == "destruct"]
        if not sites:
            r.broke("no destructor call in %s" % ds.name)
            continue
        for b, i, c in sites:
            k = "%s_node_destroy: claim before destruct" % fam
            if mf.passed_call(b, i, fam + "_node_claim", fam + "_node_pop", fam + "_node_unlink", fam + "_node_detach"):
                r.ok(k, ds.loc(c["ln"]))
            else:
                r.viol(k, ds.name, ds.loc(c["ln"]), "%s runs the value's destructor while the node is still linked: a destructor that walks or edits the list (destroying a server re-sends its queries and picks the "
                       "first server of channel->servers) meets the value that is being destroyed" % ds.name)


def r_movebound(prog, R):
    """ares_array_move shifts the members [src, offset+cnt) to dest.  Evaluated exactly (the CFG of the function interpreted over a finite
    domain of (alloc_cnt, offset, cnt, src, dest)): every move that stays inside the allocation is performed -- including the one that ends
    exactly at the last allocated slot -- and, with offset 0, every move that would pass the allocation is refused."""
    import evalx
    r = R.rule("R-C19-MOVEBOUND", "ares_array_move performs every shift that stays within the allocation (the moved block may end exactly at the last allocated slot) and refuses "
               "a right shift that would pass it", floor=2, analysis="exact evaluation of the function's CFG over a finite domain (evalx.run_cfg)")
    f = prog.func("ares_array_move")
    if not r.require(len(f.params) == 3, "ares_array_move no longer takes (arr, dest, src)"):
        return
    an, dn, sn = [p_["n"] for p_ in f.params]
    locs = {v["n"] for b, i, el in f.elements() if el["k"] == "decl" for v in el["vars"] if "*" not in (v.get("ty") or "")}
    bad_accept = bad_reject = None
    n = 0
    try:
        for alloc in (4, 8):
            for off in range(0, 3):
                for cnt in range(0, alloc - off + 1):
                    for src in range(off, off + cnt + 1):
                        for dest in range(0, alloc):
                            if src >= alloc or dest == src:
                                continue
                            nm = cnt - (src - off)
                            env = {an: 1, dn: dest, sn: src, an + "->alloc_cnt": alloc, an + "->offset": off, an + "->cnt": cnt, an + "->member_size": 8}
                            for v in locs:
                                env.setdefault(v, 0)
                            res = evalx.run_cfg(f, env)
                            if res[0] != "ret":
                                raise evalx.Unknown("path left open at block %s" % (res[1],))
                            ok = name_of_const(res[1].get("e")) == "ARES_SUCCESS"
                            n += 1
                            if dest + nm <= alloc and not ok and bad_reject is None:
                                bad_reject = (alloc, off, cnt, src, dest, nm, res[1])
                            if dest > src and dest + nm > alloc and off == 0 and ok and bad_accept is None:
                                bad_accept = (alloc, off, cnt, src, dest, nm, res[1])
    except evalx.Unknown as e:
        r.broke("ares_array_move not interpretable: %s" % e)
        return
    r.info["tuples_evaluated"] = n
    k = "every shift inside the allocation is performed"
    if bad_reject:
        a, o, c, s_, d, nm, el = bad_reject
        r.viol(k, f.name, f.loc(el), "with alloc_cnt=%d offset=%d cnt=%d the move of %d member(s) from index %d to index %d ends at slot %d <= %d, yet ares_array_move refuses it: ares_array_insert_at / insert_first fail "
               "whenever the new member would exactly fill the allocation" % (a, o, c, nm, s_, d, d + nm, a))
    else:
        r.ok(k, f.loc(f.ln), "%d tuples" % n)
    k = "a right shift past the allocation is refused"
    if bad_accept:
        a, o, c, s_, d, nm, el = bad_accept
        r.viol(k, f.name, f.loc(el), "with alloc_cnt=%d offset=%d cnt=%d the move of %d member(s) from index %d to index %d would end at slot %d > %d and is performed: memmove writes past the allocation" % (a, o, c, nm, s_, d, d + nm, a))
    else:
        r.ok(k, f.loc(f.ln), "%d tuples" % n)


def r_reallocold(prog, R):
    """ares_realloc_zero(p, old, new) zeroes everything behind `old`.  Where the new size is N * k and the capacity member is then set to N,
    the old size must be <capacity member> * k -- anything smaller wipes live members behind it (with an offset the live range ends at
    offset + cnt, beyond cnt)."""
    r = R.rule("R-C19-REALLOCOLD", "a container that grows with ares_realloc_zero tells it the size the block really has: where the new size is N * unit and the capacity member is "
               "set to N afterwards, the old size is that capacity member * unit (a smaller figure makes the allocator zero live elements)", floor=1,
               analysis="structural agreement of the old-size and new-size arguments with the capacity store that follows")
    n = 0
    for f in sorted(prog.funcs.values(), key=lambda x: x.key):
        if not DSA(f):
            continue
        for b, i, c in f.calls():
            if c.get("callee") != "ares_realloc_zero" or len(c.get("args", [])) != 3:
                continue
            old_, new_ = strip(c["args"][1]), strip(c["args"][2])
            if new_ is None or old_ is None or new_.get("k") != "bin" or new_["op"] != "*" or old_.get("k") != "bin" or old_["op"] != "*":
                continue
            nf = [strip(new_["l"]), strip(new_["r"])]
            of = [strip(old_["l"]), strip(old_["r"])]
            # the shared unit factor
            unit = None
            for x in nf:
                for y in of:
                    if render(x) == render(y):
                        unit = render(x)
            if unit is None:
                continue
            nn = [x for x in nf if render(x) != unit]
            oo = [x for x in of if render(x) != unit]
            if len(nn) != 1 or not is_var(nn[0]):
                continue
            caps = [el for b2, i2, el in f.elements() if el["k"] == "asg" and el["e"]["op"] == "=" and is_var(strip(el["e"].get("r")), nn[0]["n"]) and strip(el["e"]["l"]).get("k") == "mem"]
            if len(caps) != 1:
                continue
            cap = render(strip(caps[0]["e"]["l"]))
            n += 1
            k = "fn=%s old size = %s * %s" % (f.name, cap, unit)
            if len(oo) == 1 and render(oo[0]) == cap:
                r.ok(k, f.loc(c["ln"]))
            else:
                r.viol(k, f.name, f.loc(c["ln"]), "%s grows the block to %s * %s and records the capacity in %s, but tells ares_realloc_zero the old size is %s: everything behind that is zeroed, "
                       "including live members (they end at offset + count, not at count)" % (f.name, nn[0]["n"], unit, cap, render(old_)))
    r.require(n >= 1, "no ares_realloc_zero growth with a capacity store found in the containers")


def _reclaim_table(prog, r, f):
    """the prefix ares_buf_reclaim discards is min(read position, tag) -- never unread bytes, never bytes behind a set tag: decided by interpreting the function's own
    statements up to the memmove for every combination of a tag (none / before / at / after the read position) and a read position"""
    import evalx
    k = "discarded prefix <= read position and <= a set tag (decision table)"
    mm = [(b.id, i) for b, i, c in f.calls() if c.get("callee") in ("memmove", "memcpy")]
    pv = None
    for b, i, c in f.calls():
        if c.get("callee") in ("memmove", "memcpy") and len(c.get("args", [])) == 3:
            for v in vars_in(c["args"][1]):
                if v["n"] != f.params[0]["n"]:
                    pv = v["n"]
    if not r.require(mm and pv is not None, "ares_buf_reclaim: memmove and the prefix variable not found"):
        return
    bn = f.params[0]["n"]
    SMAX = (1 << 64) - 1
    locs = {v["n"] for _, _, el in f.elements() if el["k"] == "decl" for v in el["vars"]}
    bad = None
    n = 0
    try:
        for t in (SMAX, 0, 3, 5, 8):
            for o in (0, 3, 5, 8):
                env = {x: 0 for x in locs}
                env.update({bn: 1, bn + "->alloc_buf": 1, bn + "->tag_offset": t, bn + "->offset": o, bn + "->data_len": 10, "ares_buf_is_const()": 0})
                out = {}
                res = evalx.run_cfg(f, env, stop_at=set(mm), out=out, max_steps=32)
                n += 1
                if res[0] == "ret":
                    continue
                if res[0] != "stop":
                    raise evalx.Unknown("walk ended at an undecidable condition")
                pfx = out.get(pv)
                if (pfx > o or (t != SMAX and pfx > t)) and bad is None:
                    bad = (t, o, pfx)
    except evalx.Unknown as ex:
        r.broke("ares_buf_reclaim not interpretable: %s" % ex)
        return
    if bad is None:
        r.ok(k, f.loc(f.ln), note="%d combinations" % n)
    else:
        r.viol(k, f.name, f.loc(f.ln), "with the tag at %s and the read position at %d the compaction discards %d bytes: bytes that were not yet read (or that a rollback would return to) are gone" % (
            "none" if bad[0] == SMAX else bad[0], bad[1], bad[2]))


def r_reclaim(prog, R):
    r = R.rule("R-C19-BUFTAG", "compaction never drops bytes behind a set tag and re-bases the tag exactly when a tag is set; rollback restores the tagged offset", floor=4, analysis="exact-guard (guard_delta)")
    f = prog.func("ares_buf_reclaim")
    _reclaim_table(prog, r, f)
    mf = MustFacts(f, track_calls=False)
    adj = [(b, i, el) for b, i, el in f.elements() if el["k"] == "asg" and is_field(el["e"]["l"], "tag_offset", "ares_buf") and el["e"]["op"] == "-="]
    other = [(b, i, el) for b, i, el in f.elements() if el["k"] == "asg" and is_field(el["e"]["l"], "tag_offset", "ares_buf") and el["e"]["op"] != "-="]
    # the removed prefix never reaches past the tag: `prefix = offset` only on edges where no tag is set or the tag is not before the offset
    pdefs = [(b, i, el) for b, i, el in f.elements() if el["k"] == "asg" and el["e"]["op"] == "=" and is_var(strip(el["e"]["l"])) and is_field(el["e"].get("r"), "offset", "ares_buf")]
    for pb, pi, pel in pdefs:
        k = "removed prefix stops at the tag"
        bad = None
        for pr in pb.preds:
            pblk = f.blocks[pr]
            br = f.branch(pblk)
            okedge = False
            if br and br[1] != br[2]:
                pol = (br[1] == pb.id)
                for c3, p3 in atoms(br[0], pol):
                    op3, l3, r3 = norm_cmp(c3, p3)
                    if r3 is None:
                        continue
                    if op3 == "==" and is_field(l3, "tag_offset") and "SIZE_MAX" in render(r3):
                        okedge = True
                    if op3 in (">=", ">") and is_field(l3, "tag_offset") and is_field(r3, "offset"):     # a tag strictly behind the read position is, a fortiori, not before it
                        okedge = True
                    if op3 in ("<=", "<") and is_field(l3, "offset") and is_field(r3, "tag_offset"):
                        okedge = True
            if not okedge:
                bad = pblk
        if bad is not None or not pb.preds:
            r.viol(k, f.name, f.loc(pel), "ares_buf_reclaim drops everything in front of the read position (%s) on a path on which a tag may be set before it: the bytes between the tag and the read position are lost, tag fetch returns nothing and a rollback lands on the wrong byte" % render(pel["e"]))
        else:
            r.ok(k, f.loc(pel))
    # ... nor past the read position: `prefix = tag_offset` only where the tag is known to lie before the offset
    tdefs = [(b, i, el) for b, i, el in f.elements() if el["k"] == "asg" and el["e"]["op"] == "=" and is_var(strip(el["e"]["l"])) and is_field(el["e"].get("r"), "tag_offset", "ares_buf")]
    for pb, pi, pel in tdefs:
        k = "removed prefix stops at the read position"
        okall = bool(pb.preds)
        for pr in pb.preds:
            pblk = f.blocks[pr]
            br = f.branch(pblk)
            okedge = False
            if br and br[1] != br[2]:
                pol = (br[1] == pb.id)
                for c3, p3 in atoms(br[0], pol):
                    op3, l3, r3 = norm_cmp(c3, p3)
                    if r3 is None:
                        continue
                    if op3 in ("<", "<=") and is_field(l3, "tag_offset") and is_field(r3, "offset"):
                        okedge = True
                    if op3 in (">", ">=") and is_field(l3, "offset") and is_field(r3, "tag_offset"):
                        okedge = True
            okall = okall and okedge
        if okall:
            r.ok(k, f.loc(pel))
        else:
            r.viol(k, f.name, f.loc(pel), "ares_buf_reclaim drops everything in front of the tag (%s) without knowing that the tag lies before the read position: after a seek back in front of the tag the unread bytes between position and tag are discarded and the offset underflows" % render(pel["e"]))
    if other and not adj:
        r.viol("tag rebased by the removed prefix", f.name, f.loc(other[0][2]), "the tag is set with '%s' instead of being moved back by exactly the number of bytes removed" % render(other[0][2]["e"]))
        return
    if not r.require(len(adj) == 1, "ares_buf_reclaim: tag_offset adjustment not found"):
        return
    b, i, el = adj[0]
    mv = [x for x in f.calls() if x[2].get("callee") in ("memmove", "memcpy")]
    ref = (mv[0][0].id, mv[0][1]) if mv else (f.entry, 0)
    extra = []
    tagset = False
    for cc, p in guard_delta(mf, ref, (b.id, i)):
        op, l, rr = norm_cmp(cc, p)
        if op == "!=" and is_field(l, "tag_offset") and rr is not None and ("SIZE_MAX" in render(rr) or const_val(rr) is not None):
            tagset = True
        else:
            extra.append(render(cc))
    if tagset and not extra:
        r.ok("tag rebased iff set", f.loc(el))
    else:
        r.viol("tag rebased iff set", f.name, f.loc(el), "tag adjustment after compaction is conditional on %s (tag set=%s): a tag taken before an append that compacts the buffer would point at the wrong byte" % (extra, tagset))
    if render(strip(el["e"]["r"])) == "prefix_size":
        r.ok("tag rebased by the removed prefix", f.loc(el))
    else:
        r.viol("tag rebased by the removed prefix", f.name, f.loc(el), "tag moved by %s instead of the number of bytes removed" % render(el["e"]["r"]))
    # offset adjusted by the same amount
    off = [(b2, i2, e2) for b2, i2, e2 in f.elements() if e2["k"] == "asg" and is_field(e2["e"]["l"], "offset", "ares_buf") and e2["e"]["op"] == "-="]
    if off and render(strip(off[0][2]["e"]["r"])) == "prefix_size":
        r.ok("offset rebased by the removed prefix", f.loc(off[0][2]))
    else:
        r.viol("offset rebased by the removed prefix", f.name, f.loc(f.ln), "read offset not moved by the removed prefix")
    # every store that moves the read position of the buffer inside reclaim is followed, on every path on which a tag is set, by the re-base
    # of the tag (a shortcut that rewinds the buffer without looking at the tag silently invalidates it)
    adj_el = el

    def path_without_rebase(bb, ii):
        seen = set()
        work = [(bb.id, ii + 1, [bb.id])]
        while work:
            bid, st, trail = work.pop()
            blk = f.blocks[bid]
            if any(blk.els[j] is adj_el for j in range(st, len(blk.els))):
                continue
            if bid == f.exit:
                return trail
            br = f.branch(blk)
            for k2, nx in enumerate(blk.succs):
                if nx is None or nx in seen:
                    continue
                if br and len(blk.succs) == 2:
                    skip = False
                    for c3, p3 in atoms(br[0], k2 == 0):
                        op3, l3, r3 = norm_cmp(c3, p3)
                        if op3 == "==" and is_field(l3, "tag_offset") and r3 is not None and "SIZE_MAX" in render(r3):
                            skip = True          # no tag set on this edge
                    if skip:
                        continue
                seen.add(nx)
                work.append((nx, 0, trail + [nx]))
        return None
    for b2, i2, e2 in f.elements():
        if e2["k"] == "asg" and strip(e2["e"]["l"]).get("k") == "mem" and strip(e2["e"]["l"])["rec"] == "ares_buf" and strip(e2["e"]["l"])["f"] in ("offset", "data_len", "data"):
            fld = strip(e2["e"]["l"])["f"]
            k = "reclaim store %s %s %s keeps the tag valid" % (fld, e2["e"]["op"], render(e2["e"].get("r"))[:30])
            tr = path_without_rebase(b2, i2)
            if tr is None:
                r.ok(k, f.loc(e2))
            else:
                r.viol(k, f.name, f.loc(e2), "ares_buf_reclaim changes buf->%s and can return, with a tag set, without re-basing tag_offset: the bytes since the tag are lost and tag fetch/rollback use a stale position" % fld, trail=trail_lines(f, tr))
    rb = prog.func("ares_buf_tag_rollback")
    okr = any(el2["k"] == "asg" and is_field(el2["e"]["l"], "offset", "ares_buf") and is_field(el2["e"].get("r"), "tag_offset", "ares_buf") for _, _, el2 in rb.elements())
    if okr:
        r.ok("rollback restores offset", rb.loc(rb.ln))
    else:
        r.viol("rollback restores offset", rb.name, rb.loc(rb.ln), "ares_buf_tag_rollback no longer restores the read offset to the tag")


def r_beforeref(prog, R):
    r = R.rule("R-C19-BEFOREREF", "an insertion 'before a node' is always given a node: every ares_llist_insert_at / ares_llist_attach_at call in INSERT_BEFORE mode passes a reference that is "
               "known to be non-NULL at the call (attach_at reads a missing reference as 'insert at the head', so insert-after-the-tail would put the value first)", floor=2,
               analysis="must-facts (branch conditions dominating the call) over the reference argument, by expression identity")
    n = 0
    for f in sorted(prog.funcs.values(), key=lambda x: x.key):
        if not f.file.startswith("src/lib/dsa/ares_llist"):
            continue
        mf = None
        for b, i, c in f.calls():
            if c.get("callee") not in ("ares_llist_insert_at", "ares_llist_attach_at") or len(c.get("args", [])) < 3:
                continue
            if name_of_const(c["args"][1]) != "ARES__LLIST_INSERT_BEFORE":
                continue
            n += 1
            mf = mf or MustFacts(f)
            ref = render(strip(c["args"][2]))
            known = False
            for cc, pp in mf.cond_facts_at(b, i):
                op, l, rr = norm_cmp(cc, pp)
                if l is not None and render(strip(l)) == ref and (op == "truth" or (op == "!=" and rr is not None and is_null(rr))):
                    known = True
            k = "fn=%s %s(.., INSERT_BEFORE, %s, ..) reference non-NULL" % (f.name, c["callee"], ref)
            if known:
                r.ok(k, f.loc(c["ln"]))
            else:
                r.viol(k, f.name, f.loc(c["ln"]), "%s may be NULL here (no dominating test): ares_llist_attach_at turns INSERT_BEFORE with a NULL reference into an insertion at the head, so the value "
                       "ends up at the front of the list instead of at the requested position" % ref)
    r.require(n >= 2, "INSERT_BEFORE call sites not found (%d)" % n)


def r_links(prog, R):
    r = R.rule("R-C19-LINKS", "a node linked into the doubly linked list is linked from both neighbours in every insertion mode", floor=3, analysis="symmetric-store check per switch arm")
    f = prog.func("ares_llist_attach_at")
    node = f.params[3]["n"]
    arms = []
    for b in f.blocks.values():
        if b.term and b.term.get("cls") == "SwitchStmt":
            for succ, vals in f.switch_cases(b):
                if isinstance(vals, list):
                    arms.append((", ".join(v["n"] for v in vals), succ))
    if not r.require(len(arms) >= 3, "ares_llist_attach_at: insertion modes not found"):
        return
    # join block of the switch: where all arms meet again
    for name, start in sorted(arms):
        seen, work, els = set(), [start], []
        while work:
            x = work.pop()
            if x in seen:
                continue
            seen.add(x)
            blk = f.blocks[x]
            els.extend(blk.els)
            # stay inside the arm: stop at the block that tests list->tail == NULL (the common tail of the switch)
            for s2 in blk.succs:
                if s2 is None:
                    continue
                t = f.blocks[s2].term
                if t and t.get("cond") is not None and "tail" in render(t["cond"]) and "NULL" in render(t["cond"]).replace("((void *)0)", "NULL") and not any(e2["k"] == "asg" for e2 in f.blocks[s2].els):
                    continue
                work.append(s2)
        st = {}
        for el in els:
            if el["k"] == "asg" and el["e"]["op"] == "=":
                st[render(strip(el["e"]["l"]))] = render(strip(el["e"].get("r")))
        nxt, prv = st.get("%s->next" % node), st.get("%s->prev" % node)
        k = "mode %s links both ways" % name
        problems = []
        if nxt is None or prv is None:
            problems.append("node->next / node->prev not both set")
        else:
            if nxt not in ("NULL", "((void *)0)", "0"):
                if st.get("%s->prev" % nxt) != node and st.get("(%s)->prev" % nxt) != node:
                    problems.append("successor %s is not pointed back at the new node" % nxt)
            if prv not in ("NULL", "((void *)0)", "0"):
                if st.get("%s->next" % prv) != node and st.get("(%s)->next" % prv) != node and st.get("list->head") != node:
                    problems.append("predecessor %s->next is not set to the new node" % prv)
        if problems:
            r.viol(k, f.name, f.loc(f.ln), "insertion mode %s: %s: forward and backward traversal disagree about the list contents" % (name, "; ".join(problems)))
        else:
            r.ok(k, f.loc(f.ln))


def r_arrayoff(prog, R):
    r = R.rule("R-C19-ARRAYOFF", "an array that drops elements from the front by advancing its offset rewinds the offset when it becomes empty (so it stays usable)", floor=1, analysis="must-pass-through after the count decrement")
    n = 0
    for f in sorted(prog.funcs.values(), key=lambda x: x.key):
        if f.file != "src/lib/dsa/ares_array.c":
            continue
        adv = [(b, i, el) for b, i, el in f.elements() if el["k"] == "asg" and is_field(el["e"]["l"], "offset", "ares_array") and el["e"]["op"] in ("++", "+=")]
        if not adv:
            continue
        n += 1
        dec = [(b, i, el) for b, i, el in f.elements() if el["k"] == "asg" and is_field(el["e"]["l"], "cnt", "ares_array") and el["e"]["op"] in ("--", "-=")]
        k = "fn=%s rewinds offset when empty" % f.name
        if not dec:
            r.viol(k, f.name, f.loc(adv[0][2]), "%s advances arr->offset without adjusting the count" % f.name)
            continue
        db, di, de = dec[0]
        # after the decrement every path to the exit tests cnt == 0 and the true edge stores offset = 0
        tests = [b for b in f.blocks.values() if b.term and b.term.get("cond") is not None and norm_cmp(b.term["cond"], True)[0] == "==" and is_field(norm_cmp(b.term["cond"], True)[1], "cnt", "ares_array") and const_val(norm_cmp(b.term["cond"], True)[2]) == 0]
        okr = False
        for tb in tests:
            ts = f.blocks.get(tb.succs[0])
            if ts is not None and any(e2["k"] == "asg" and is_field(e2["e"]["l"], "offset", "ares_array") and const_val(e2["e"].get("r")) == 0 for e2 in ts.els):
                # the test cannot be bypassed after the decrement
                def bar(e2, tb=tb):
                    return False
                seen, work, bypass = set(), [(db.id, di + 1)], False
                while work:
                    bid, st0 = work.pop()
                    if bid == tb.id:
                        continue
                    if bid == f.exit:
                        bypass = True
                        break
                    for s2 in f.blocks[bid].succs:
                        if s2 is not None and s2 not in seen:
                            seen.add(s2)
                            work.append((s2, 0))
                if not bypass:
                    okr = True
        if okr:
            r.ok(k, f.loc(de))
        else:
            r.viol(k, f.name, f.loc(de), "%s removes from the front by advancing arr->offset and never rewinds it when the array becomes empty: after filling the array to its allocation and emptying it from the front, every later insert fails (ares_array_move with a source index equal to the allocation size)" % f.name)
    r.require(n >= 1, "no function advancing arr->offset found")


def run(prog, R, tier):
    R.assume("conformance of the containers to their abstract models under operation sequences is not decided here")
    r_sib(prog, R)
    r_claimdestroy(prog, R)
    r_unlinkfirst(prog, R)
    r_movebound(prog, R)
    r_reallocold(prog, R)
    r_reclaim(prog, R)
    r_links(prog, R)
    r_beforeref(prog, R)
    r_arrayoff(prog, R)
    dsarules.r_arridx(prog, R)
    dsarules.r_hashidx(prog, R)
    dsarules.r_hcount(prog, R)
    dsarules.r_hasheq(prog, R)
    dsarules.r_slinks(prog, R)
    dsarules.r_append_finish(prog, R, "R-C19-APPENDFIN")
    files = {f.file for f in prog.funcs.values() if DSA(f)} | {"src/lib/str/ares_buf.c"}
    ownrules.own_rule(prog, R, "R-C19-OWN", files, floor=20, include_contract=True)
    C14.r_prealloc(prog, R, rid="R-C19-PREALLOC")
