"""C20 — outcome does not depend on how the transport chops or delays bytes."""
from lib import *  # noqa
import C10
import C03
import dsarules

TECHNIQUE = ("buffer-tag typestate over the read loop (value-set + typestate dataflow), edge-cut gates for complete-frame delivery, provenance of the consumed byte count in the flush loop, guard-fact checks of the UDP synthetic framing and zero-length/TC handling"
             ", must-set of the byte-count out-parameter, exact guard on the TCP re-read decision, reachability 'received bytes -> teardown' in the read loop, failure-path restore of the out buffer (must-pass-through)")
LEVEL_TEXT = ("static: decides the framing protocol in both directions on every path: (read) after tagging the input buffer an incomplete frame is "
              "rolled back and never delivered, a complete one is delivered as exactly [tag+2, tag+2+len) and the tag is cleared; (UDP) each datagram "
              "gets a placeholder length that is back-patched with the received count and removed again when the read fails, and the TCP arm never "
              "touches lengths; (write) the flush loop consumes exactly the count the socket write reported (+2 for the UDP prefix), sends one "
              "datagram per frame and asks for write events when TCP bytes remain; zero-length datagrams are dropped before parsing and a truncated "
              "UDP answer is retried over TCP unless IGNTC. Does not decide equality of delivered responses over all segmentations."
              " Also decides (COUNT) the byte count is defined on every success, (REREAD) a TCP connection is re-read in one pass only after a full buffer, (READLOSS) whether received bytes can be torn down unparsed (one known finding), (ATOMIC) a failed write leaves no partial frame in the out buffer.")
# fifth-round additions
TECHNIQUE += "; " + 'other-edge reachability to delivery for any further condition in front of the TC arm'
LEVEL_TEXT += " " + "(ZERO-TC) a condition added in front of the TC arm (such as 'not already on TCP') must not be able to let the truncated answer through; the switch to TCP is followed by the queued re-send on every path."
LEVEL_NOTE = "trusts clang CFG + extractor and the ares_buf primitives' contracts (tag/rollback/consume), which C19/C02 rules look at separately"
DESIGN_REF = "DESIGN.md §6/C20"
EXPLANATION = LEVEL_TEXT
NOT_DECIDED = "byte-for-byte equality of outcomes across all split points (needs execution); behaviour of ares_buf_reclaim arithmetic"


def r_tag(prog, R):
    r = R.rule("R-C20-TAG", "read_answers: tag/rollback/clear typestate; only whole frames are delivered, as the exact slice", floor=8, analysis="A-TS (value-set + typestate)")
    f = prog.func("read_answers")
    pa = f.calls_to("process_answer")
    if not r.require(len(pa) == 1, "read_answers: expected one process_answer call"):
        return
    pb, pi, pc = pa[0]
    # gates: fetch_be16 success, consume success
    for callee, what in (("ares_buf_fetch_be16", "length prefix read"), ("ares_buf_consume", "whole frame present")):
        gs = call_result_branches(f, callee)
        if not gs:
            r.viol("gate:%s" % what, f.name, f.loc(pc["ln"]), "no branch on the result of %s" % callee)
            continue
        okg = False
        for g in gs:
            pe = status_pass_edge(g)
            if pe and element_reachable_avoiding(f, pb, pi, [(g["block"].id, pe[0])]) is None:
                okg = True
        if okg:
            r.ok("gate:%s" % what, f.loc(gs[0]["call"]["ln"]))
        else:
            r.viol("gate:%s" % what, f.name, f.loc(pc["ln"]), "process_answer reachable although %s failed (partial frame delivered)" % callee)
    # consume amount is the fetched length
    fe = f.calls_to("ares_buf_fetch_be16")
    co = f.calls_to("ares_buf_consume")
    lenvar = None
    if fe:
        a = strip(call_arg(fe[0][2], 1))
        if a.get("k") == "un" and a["op"] == "&":
            lenvar = path(a["e"])
    if co and lenvar and path(call_arg(co[0][2], 1)) == lenvar and render(call_arg(co[0][2], 0)) == render(call_arg(fe[0][2], 0)):
        r.ok("consume=prefix-length", f.loc(co[0][2]["ln"]))
    else:
        r.viol("consume=prefix-length", f.name, f.loc(f.ln), "the number of bytes skipped is not the 16-bit length just read from the same buffer")
    # typestate of the tag
    buf_txt = render(call_arg(fe[0][2], 0)) if fe else "conn->in_buf"

    def on_el(extra, blk, i, el, get):
        if el["k"] != "call":
            return [extra]
        cal = el["e"].get("callee")
        if cal == "ares_buf_tag":
            return ["set"]
        if cal in ("ares_buf_tag_rollback", "ares_buf_tag_clear"):
            return ["rolled" if cal.endswith("rollback") else "cleared"]
        if cal == "handle_conn_error":
            return ["closed"]
        return [extra]
    summ = Summaries(prog)
    vs = ValueSets(prog, f, on_el=on_el, init_extra="none", cap=2048)
    # at process_answer: tag set
    bad = [st for st in vs.states_at(pb, pi) if st[1] != "set"]
    if bad or not vs.states_at(pb, pi):
        r.viol("deliver-under-tag", f.name, f.loc(pc["ln"]), "process_answer called while the frame start is not tagged (state %s)" % (bad[0][1] if bad else "unreachable"))
    else:
        r.ok("deliver-under-tag", f.loc(pc["ln"]))
    # leaving the loop: the first element after the loop (the flush loop) must never see state 'set'
    loops = f.natural_loops()
    main = None
    for h, body in loops.items():
        if pb.id in body:
            main = (h, body)
    if not r.require(main is not None, "read_answers: the read loop was not found"):
        return
    h, body = main
    nchk = 0
    bad = None
    for rb, ri, rel in f.returns():
        for st in vs.states_at(rb, ri):
            nchk += 1
            if st[1] == "set":
                bad = rel
    if bad is not None:
        r.viol("no-exit-with-tag-set", f.name, f.loc(bad), "read_answers can return with the tag still set (buffer can never be reclaimed / the next read re-parses from the tag)")
    else:
        r.ok("no-exit-with-tag-set", f.loc(f.ln), note="%d return states" % nchk)
    r.require(nchk >= 2, "read_answers: return states not observed")
    # rollback (not clear) on the incomplete paths: the blocks on the fail edges of the two gates call rollback
    for callee in ("ares_buf_fetch_be16", "ares_buf_consume"):
        for g in call_result_branches(f, callee):
            pe = status_pass_edge(g)
            if not pe:
                continue
            fb = f.blocks[pe[1]]
            cals = [el["e"].get("callee") for el in fb.els if el["k"] == "call"]
            if "ares_buf_tag_rollback" in cals and "ares_buf_tag_clear" not in cals:
                r.ok("incomplete=>rollback:%s" % callee, f.loc(fb.els[0]))
            else:
                r.viol("incomplete=>rollback:%s" % callee, f.name, f.loc(g["call"]["ln"]), "incomplete frame is not rolled back (bytes of a partial message are lost: %s)" % cals)
    # next iteration starts with a cleared tag: back edge states
    for (t, hh) in f.back_edges():
        if hh != h:
            continue
        for st in vs.at.get((t, len(f.blocks[t].els)), set()):
            if st[1] not in ("cleared",):
                r.viol("iterate-after-clear", f.name, f.loc(f.ln), "loop iterates with tag state '%s'" % st[1])
                break
        else:
            r.ok("iterate-after-clear", f.loc(f.ln))
    # the slice: data/data_len from tag_fetch, +2 / -2, guard data_len < 2
    tf = f.calls_to("ares_buf_tag_fetch")
    if not r.require(len(tf) == 1, "read_answers: ares_buf_tag_fetch not found"):
        return
    mf = MustFacts(f)
    dvar = None
    for b, i, el in f.elements():
        if el["k"] == "asg" and strip(el["e"].get("r")) is not None and strip(el["e"]["r"]).get("k") == "call" and strip(el["e"]["r"]).get("id") == tf[0][2]["id"]:
            dvar = path(el["e"]["l"])
    lv = strip(call_arg(tf[0][2], 1))
    lvar = path(lv["e"]) if lv is not None and lv.get("k") == "un" and lv["op"] == "&" else None
    if dvar and lvar and path(call_arg(pc, 1)) == dvar and path(call_arg(pc, 2)) == lvar:
        r.ok("slice-args", f.loc(pc["ln"]))
    else:
        r.viol("slice-args", f.name, f.loc(pc["ln"]), "process_answer is not given the (pointer,length) pair obtained from ares_buf_tag_fetch")
        return

    def adj(var, op, k):
        return lambda el: el["k"] == "asg" and path(el["e"]["l"]) == var and el["e"]["op"] == op and const_val(el["e"].get("r")) == k
    fetch_id = tf[0][2]["id"]
    for var, op in ((dvar, "+="), (lvar, "-=")):
        n = [x for x in f.elements() if x[2]["k"] == "asg" and path(x[2]["e"]["l"]) == var and (x[0].id, x[1]) in reach_after(f, tf[0][0].id, tf[0][1])
             and (pb.id, pi) in reach_after(f, x[0].id, x[1]) and x[0].id in body
             and not (strip(x[2]["e"].get("r")) is not None and strip(x[2]["e"]["r"]).get("k") == "call" and strip(x[2]["e"]["r"]).get("id") == fetch_id)]
        good = [x for x in n if adj(var, op, 2)(x[2])]
        if len(good) == 1 and len(n) == 1 and (good[0][0].id == pb.id or good[0][0].id in f.dominators()[pb.id]):
            r.ok("slice:%s %s 2" % (var, op), f.loc(good[0][2]))
            if var == lvar:
                facts = mf.cond_facts_at(good[0][0], good[0][1])
                if cond_holds(facts, lambda op_, l, rr: op_ == ">=" and path(l) == lvar and const_val(rr) == 2):
                    r.ok("slice:len>=2", f.loc(good[0][2]))
                else:
                    r.viol("slice:len>=2", f.name, f.loc(good[0][2]), "length not checked >= 2 before subtracting the prefix")
        else:
            r.viol("slice:%s %s 2" % (var, op), f.name, f.loc(pc["ln"]), "the 2-byte length prefix is not stripped exactly once from '%s' before delivery (adjustments: %s)" % (var, [x[2]["t"] for x in n]))
    # success path clears the tag, failure closes the connection
    g = call_result_branches(f, "process_answer")
    if g:
        pe = status_pass_edge(g[0])
        sb = f.blocks[pe[0]]
        fb = f.blocks[pe[1]]
        if any(is_call_el(el, "ares_buf_tag_clear") for el in sb.els):
            r.ok("delivered=>clear", f.loc(sb.els[0]))
        else:
            r.viol("delivered=>clear", f.name, f.loc(pc["ln"]), "tag not cleared after a delivered frame (frame would be delivered again)")
        if any(is_call_el(el, "handle_conn_error") for el in fb.els):
            r.ok("failed=>close", f.loc(fb.els[0]))
        else:
            r.viol("failed=>close", f.name, f.loc(pc["ln"]), "a failing process_answer does not terminate the connection")


def r_udpframe(prog, R):
    r = R.rule("R-C20-UDPFRAME", "UDP datagrams get a synthetic length prefix that is back-patched or removed; TCP arm never touches lengths", floor=6, analysis="A-DOM guard facts")
    f = prog.func("read_conn_packets")
    mf = MustFacts(f)

    def not_tcp(facts):
        return any((not p) and is_flag_test(c, lambda x: is_field(x, "flags", "ares_conn"), "ARES_CONN_FLAG_TCP") for c, p in facts)
    n = 0
    for b, i, c in f.calls():
        if c.get("callee") in ("ares_buf_set_length", "ares_buf_append_be16"):
            n += 1
            facts = mf.cond_facts_at(b, i)
            # the placeholder append is itself in the condition `!(TCP) && append_be16(...) != SUCCESS`
            if not_tcp(facts):
                r.ok("udp-only:%s#%d" % (c["callee"], c["id"]), f.loc(c["ln"]))
            else:
                r.viol("udp-only:%s#%d" % (c["callee"], c["id"]), f.name, f.loc(c["ln"]), "%s executed on the TCP arm: stream bytes would be rewritten" % c["callee"])
    r.require(n >= 5, "read_conn_packets: expected placeholder, restore and 3-step back-patch (found %d length operations)" % n)
    st = f.calls_to("ares_buf_append_start")
    rd = f.calls_to("ares_conn_read")
    if not r.require(len(st) == 1 and len(rd) == 1, "read_conn_packets: append_start / conn_read not found"):
        return
    # placeholder precedes append_start on the UDP arm: all be16(0) before
    ph = [x for x in f.calls_to("ares_buf_append_be16") if const_val(call_arg(x[2], 1)) == 0]
    if ph and (st[0][0].id, st[0][1]) in reach_after(f, ph[0][0].id, ph[0][1]):
        r.ok("placeholder<buffer", f.loc(ph[0][2]["ln"]))
    else:
        r.viol("placeholder<buffer", f.name, f.loc(f.ln), "no zero placeholder is written before the datagram bytes")
    # start_len captured before the placeholder
    sl = None
    for b, i, el in f.elements():
        if el["k"] == "decl":
            for v in el["vars"]:
                if v["n"] == "start_len" and is_call_to(v.get("init"), "ares_buf_len"):
                    sl = (b, i)
    if sl and ph and (ph[0][0].id, ph[0][1]) in reach_after(f, sl[0].id, sl[1]):
        r.ok("start_len<placeholder", f.loc(ph[0][2]["ln"]))
    else:
        r.viol("start_len<placeholder", f.name, f.loc(f.ln), "start_len is not the buffer length before the placeholder")
    # failed read: restore start_len
    g = call_result_branches(f, "ares_conn_read")
    if g:
        pe = status_pass_edge(g[0])
        # on the fail side, before leaving the loop, on UDP: set_length(start_len)
        restores = [x for x in f.calls_to("ares_buf_set_length") if is_var(call_arg(x[2], 1), "start_len")]
        okr = False
        for b, i, c in restores:
            if element_reachable_avoiding(f, b, i, [(g[0]["block"].id, pe[1])]) is None:
                okr = True
        fin0 = [x for x in f.calls_to("ares_buf_append_finish") if const_val(call_arg(x[2], 1)) == 0]
        for b, i, c in restores:
            fb0 = f.blocks[pe[1]]
            extra = [(cc, p) for cc, p in guard_delta(mf, (fb0.id, 0), (b.id, i)) if not ((not p) and is_flag_test(cc, lambda x: is_field(x, "flags", "ares_conn"), "ARES_CONN_FLAG_TCP"))]
            if extra and element_reachable_avoiding(f, b, i, [(g[0]["block"].id, pe[1])]) is None:
                okr = False
                r.viol("failed-read-restores", f.name, f.loc(c["ln"]), "placeholder removal after a failed read is additionally conditional on %s" % [render(cc) for cc, _ in extra])
        if okr and fin0:
            r.ok("failed-read-restores", f.loc(restores[0][2]["ln"]))
        else:
            r.viol("failed-read-restores", f.name, f.loc(rd[0][2]["ln"]), "a failed/would-block read leaves the 2-byte placeholder in the buffer (phantom empty message)")
    # back-patch: set_length(start_len); append_be16(count); set_length(len) in order, after append_finish(count)
    bp = [x for x in f.calls_to("ares_buf_append_be16") if const_val(call_arg(x[2], 1)) is None]
    if not bp:
        r.viol("backpatch", f.name, f.loc(f.ln), "received byte count is never written into the placeholder")
        return
    b, i, c = bp[0]
    blk = b
    seq = [(el["e"].get("callee"), render(call_arg(el["e"], 1))) for el in blk.els if el["k"] == "call"]
    names = [s[0] for s in seq]
    try:
        k = names.index("ares_buf_append_be16")
        ok = names[k - 1] == "ares_buf_set_length" and seq[k - 1][1] == "start_len" and names[k + 1] == "ares_buf_set_length" and seq[k + 1][1] == "len"
    except (ValueError, IndexError):
        ok = False
    cnt = render(strip(call_arg(c, 1)))
    lenasg = any(el["k"] == "asg" and is_var(el["e"]["l"], "len") and is_call_to(el["e"].get("r"), "ares_buf_len") for el in blk.els[:i])
    out = strip(call_arg(rd[0][2], 3))
    cvar = path(out["e"]) if out is not None and out.get("k") == "un" else None
    if ok and cnt == cvar and lenasg:
        r.ok("backpatch", f.loc(c["ln"]))
    else:
        r.viol("backpatch", f.name, f.loc(c["ln"]), "back-patch is not [len=buf_len; set_length(start_len); append_be16(<count from ares_conn_read>); set_length(len)] (seq=%s)" % seq)
    fin = [x for x in f.calls_to("ares_buf_append_finish") if path(call_arg(x[2], 1)) == cvar]
    if fin:
        r.ok("finish=count", f.loc(fin[0][2]["ln"]))
    else:
        r.viol("finish=count", f.name, f.loc(f.ln), "buffer not extended by the received count")


def r_flush(prog, R):
    r = R.rule("R-C20-FLUSH", "flush consumes what was written; one datagram per UDP frame; leftover TCP bytes keep WRITE interest", floor=6, analysis="dataflow provenance + A-DOM")
    f = prog.func("ares_conn_flush")
    mf = MustFacts(f)
    w = f.calls_to("ares_conn_write")
    cs = f.calls_to("ares_buf_consume")
    if not r.require(len(w) == 1 and len(cs) == 1, "ares_conn_flush: write/consume not found"):
        return
    out = strip(call_arg(w[0][2], 3))
    cvar = path(out["e"]) if out is not None and out.get("k") == "un" and out["op"] == "&" else None
    if cvar and path(call_arg(cs[0][2], 1)) == cvar and render(call_arg(cs[0][2], 0)) == "conn->out_buf":
        r.ok("consume=written", f.loc(cs[0][2]["ln"]))
    else:
        r.viol("consume=written", f.name, f.loc(cs[0][2]["ln"]), "bytes removed from out_buf (%s) are not the count reported by ares_conn_write (%s)" % (render(call_arg(cs[0][2], 1)), cvar))
    # consume only after successful write
    g = call_result_branches(f, "ares_conn_write")
    if g:
        pe = status_pass_edge(g[0])
        if pe and element_reachable_avoiding(f, cs[0][0], cs[0][1], [(g[0]["block"].id, pe[0])]) is None:
            r.ok("consume-after-success", f.loc(cs[0][2]["ln"]))
        else:
            r.viol("consume-after-success", f.name, f.loc(cs[0][2]["ln"]), "out_buf consumed although the write did not succeed")
    # writes to count between write and consume: only += 2 under !TCP
    between = [x for x in f.elements() if x[2]["k"] == "asg" and path(x[2]["e"]["l"]) == cvar
               and (x[0].id, x[1]) in reach_after(f, w[0][0].id, w[0][1]) and (cs[0][0].id, cs[0][1]) in reach_after(f, x[0].id, x[1])]
    okp = len(between) == 1 and between[0][2]["e"]["op"] == "+=" and const_val(between[0][2]["e"]["r"]) == 2 and \
        any((not p) and is_flag_test(c, lambda x: is_field(x, "flags", "ares_conn"), "ARES_CONN_FLAG_TCP") for c, p in mf.cond_facts_at(between[0][0], between[0][1]))
    if okp:
        extra = [(cc, p) for cc, p in guard_delta(mf, (w[0][0].id, w[0][1]), (between[0][0].id, between[0][1]))
                 if not ((not p) and is_flag_test(cc, lambda x: is_field(x, "flags", "ares_conn"), "ARES_CONN_FLAG_TCP"))
                 and not (is_var(norm_cmp(cc, p)[1], "err"))]
        if extra:
            okp = False
            r.viol("udp-prefix-accounted", f.name, f.loc(between[0][2]), "prefix accounting is additionally conditional on %s" % [render(cc) for cc, _ in extra])
    if okp:
        r.ok("udp-prefix-accounted", f.loc(between[0][2]))
    elif not any(v["instance"] == "udp-prefix-accounted" for v in r.violations):
        r.viol("udp-prefix-accounted", f.name, f.loc(cs[0][2]["ln"]), "written count adjusted by %s (expected: += 2 on UDP only)" % [x[2]["t"] for x in between])
    # UDP arm: data_len = msg_len, data += 2, guard data_len < msg_len + 2
    asg = [x for x in f.elements() if x[2]["k"] == "asg" and is_var(x[2]["e"]["l"], "data_len") and is_var(x[2]["e"].get("r"), "msg_len")]
    if asg and any((not p) and is_flag_test(c, lambda x: is_field(x, "flags", "ares_conn"), "ARES_CONN_FLAG_TCP") for c, p in mf.cond_facts_at(asg[0][0], asg[0][1])):
        r.ok("udp-one-frame-per-send", f.loc(asg[0][2]))
        facts = mf.cond_facts_at(asg[0][0], asg[0][1])
        if cond_holds(facts, lambda op, l, rr: op == ">=" and is_var(l, "data_len") and "msg_len" in render(rr) and "2" in render(rr)):
            r.ok("udp-frame-complete", f.loc(asg[0][2]))
        else:
            r.viol("udp-frame-complete", f.name, f.loc(asg[0][2]), "no check that the whole frame (msg_len + 2) is in the buffer before sending a datagram")
    else:
        r.viol("udp-one-frame-per-send", f.name, f.loc(f.ln), "UDP send length is not the frame's own length (several queued messages would be merged into one datagram)")
    # loop only for UDP
    ok = False
    heads = {h for (t, h) in f.back_edges()}
    for bid in f.rpo():
        br = f.branch(bid)
        if br and br[1] is not None:
            c = strip(br[0])
            if c.get("k") == "un" and c["op"] == "!" and is_flag_test(c["e"], lambda x: is_field(x, "flags", "ares_conn"), "ARES_CONN_FLAG_TCP"):
                x = br[1]
                hops = 0
                while x not in heads and len(f.succ(x)) == 1 and not f.blocks[x].els and hops < 4:
                    x = f.succ(x)[0]
                    hops += 1
                if x in heads:
                    ok = True
    if ok:
        r.ok("loop-per-datagram", f.loc(f.ln))
    else:
        r.viol("loop-per-datagram", f.name, f.loc(f.ln), "the flush loop no longer iterates exactly for UDP")
    # prefix read by tag/fetch/rollback (non consuming)
    t = [x for x in f.calls_to("ares_buf_tag_rollback")]
    fb = f.calls_to("ares_buf_fetch_be16")
    if t and fb and (t[0][0].id, t[0][1]) in reach_after(f, fb[0][0].id, fb[0][1]):
        r.ok("prefix-peek-nonconsuming", f.loc(t[0][2]["ln"]))
    else:
        r.viol("prefix-peek-nonconsuming", f.name, f.loc(f.ln), "length prefix read from out_buf is not rolled back (prefix lost before the send)")
    # ares_dns_write_buf_tcp frames: placeholder, body, back-patch
    wt = prog.func("ares_dns_write_buf_tcp")
    names = [c.get("callee") for _, _, c in sorted(wt.calls(), key=lambda x: x[2]["id"])]
    need = ["ares_buf_len", "ares_buf_append_be16", "ares_dns_write_buf"]
    if all(n in names for n in need) and names.index("ares_buf_append_be16") < names.index("ares_dns_write_buf"):
        r.ok("frame-writer-shape", wt.loc(wt.ln))
    else:
        r.viol("frame-writer-shape", wt.name, wt.loc(wt.ln), "framed writer is no longer placeholder -> body -> back-patch (%s)" % names)


def r_zero_tc(prog, R):
    r = R.rule("R-C20-ZERO-TC", "zero-length datagram dropped before parsing; TC arm guarded by TC && UDP && !IGNTC and requeues on TCP", floor=3, analysis="A-DOM")
    f = prog.func("process_answer")
    mf = MustFacts(f)
    ps = f.calls_to("ares_dns_parse")
    if not r.require(len(ps) == 1, "process_answer: parse call not found"):
        return
    facts = mf.cond_facts_at(ps[0][0], ps[0][1])
    if cond_holds(facts, lambda op, l, rr: op == "!=" and is_var(l, "alen") and const_val(rr) == 0):
        r.ok("zero-length-dropped", f.loc(ps[0][2]["ln"]))
    else:
        r.viol("zero-length-dropped", f.name, f.loc(ps[0][2]["ln"]), "a zero-length datagram reaches the parser (and then kills the connection as malformed)")
    # the alen==0 arm returns SUCCESS
    okz = False
    for bid in f.rpo():
        br = f.branch(bid)
        if br:
            c = strip(br[0])
            if c.get("k") == "bin" and c["op"] == "==" and is_var(c["l"], "alen") and const_val(c["r"]) == 0:
                tb = f.blocks[br[1]]
                if any(el["k"] == "ret" and name_of_const(el.get("e")) == "ARES_SUCCESS" for el in tb.els):
                    okz = True
    if okz:
        r.ok("zero-length-harmless", f.loc(f.ln))
    else:
        r.viol("zero-length-harmless", f.name, f.loc(f.ln), "zero-length datagram does not return ARES_SUCCESS (connection would be torn down)")
    sets = [x for x in f.elements() if x[2]["k"] == "asg" and is_field(x[2]["e"]["l"], "using_tcp", "ares_query") and name_of_const(x[2]["e"].get("r")) == "ARES_TRUE"]
    if not sets:
        r.viol("tc-arm", f.name, f.loc(f.ln), "truncated UDP answers no longer switch the query to TCP")
        return
    b, i, el = sets[0]
    facts = mf.cond_facts_at(b, i)
    tc = any(p and is_flag_test(c, lambda x: is_call_to(x, "ares_dns_record_get_flags"), "ARES_FLAG_TC") for c, p in facts)
    nt = any((not p) and is_flag_test(c, lambda x: is_field(x, "flags", "ares_conn"), "ARES_CONN_FLAG_TCP") for c, p in facts)
    ni = any((not p) and is_flag_test(c, lambda x: is_field(x, "flags", "ares_channeldata"), "ARES_FLAG_IGNTC") for c, p in facts)
    rq = can_reach_exit_avoiding(f, b, i, lambda e2: is_call_el(e2, "ares_append_requeue")) is None     # every path from the switch to TCP queues the re-send
    # exact guard: nothing else between the TC test and the arm
    tcblk = None
    for bid in f.rpo():
        br = f.branch(bid)
        if br and is_flag_test(br[0], lambda x: is_call_to(x, "ares_dns_record_get_flags"), "ARES_FLAG_TC"):
            tcblk = bid
    extra = []
    if tcblk is not None:
        for cc, p in guard_delta(mf, (tcblk, 0), (b.id, i)):
            if p and is_flag_test(cc, lambda x: is_call_to(x, "ares_dns_record_get_flags"), "ARES_FLAG_TC"):
                continue
            if (not p) and (is_flag_test(cc, lambda x: is_field(x, "flags", "ares_conn"), "ARES_CONN_FLAG_TCP") or is_flag_test(cc, lambda x: is_field(x, "flags", "ares_channeldata"), "ARES_FLAG_IGNTC")):
                continue
            extra.append(render(cc))
    # a further condition on the way to the arm is harmless exactly if failing it does not let the truncated answer through: the other edge of
    # its branch must not reach delivery (a duplicate TC datagram for a query already on TCP is dropped, not delivered)
    deliver = f.calls_to("ares_qcache_insert") + [x for x in f.calls_to("end_query") if name_of_const(call_arg(x[2], 3)) == "ARES_SUCCESS"]
    leaks = []
    if tcblk is not None and extra:
        from_tc = reach_avoiding(f, tcblk, (), None, 0)
        for cc, p in guard_delta(mf, (tcblk, 0), (b.id, i)):
            if render(cc) not in extra:
                continue
            found = False
            for xb in f.blocks.values():
                if xb.id != tcblk and xb.id not in from_tc:
                    continue
                br = f.branch(xb)
                if not br:
                    continue
                ats = atoms(br[0], True)
                if len(ats) != 1 or render(strip(ats[0][0])) != render(strip(cc)):
                    continue
                found = True
                pol_to_arm = p if ats[0][1] else (not p)
                other = br[2] if pol_to_arm else br[1]
                if other is None:
                    continue
                pr = reach_avoiding(f, other, (), None, 0)
                if any(b2.id == other or b2.id in pr for b2, i2, c2 in deliver):
                    leaks.append(render(cc))
            if not found:
                leaks.append(render(cc))
    if extra and leaks:
        r.viol("tc-arm", f.name, f.loc(el), "TC retry is additionally conditional on %s: some truncated UDP answers are accepted as they are" % leaks)
    elif tc and nt and ni and rq:
        r.ok("tc-arm", f.loc(el))
    else:
        r.viol("tc-arm", f.name, f.loc(el), "TC arm must be guarded by TC && !TCP && !IGNTC and requeue (tc=%s udp=%s !igntc=%s requeue=%s)" % (tc, nt, ni, rq))
    # a truncated answer is never delivered/cached unless IGNTC or TCP: end_query(SUCCESS) facts
    for b2, i2, c in f.calls_to("ares_qcache_insert") + [x for x in f.calls_to("end_query") if name_of_const(call_arg(x[2], 3)) == "ARES_SUCCESS"]:
        t = element_reachable_avoiding(f, b2, i2, [])
        # must not be reachable from the TC arm block
        pred = reach_avoiding(f, b.id, (), None, i)
        if b2.id in pred:
            r.viol("tc-not-delivered:%s" % c["callee"], f.name, f.loc(c["ln"]), "a truncated UDP answer can still be delivered/cached after the TCP requeue")
        else:
            r.ok("tc-not-delivered:%s" % c["callee"], f.loc(c["ln"]))


def r_count(prog, R):
    r = R.rule("R-C20-COUNT", "every success return of the socket/connection read and write primitives has defined the byte count it reports", floor=4, analysis="A-VS must-set of the out parameter")
    summ = Summaries(prog)
    n = 0
    for f in sorted(prog.funcs.values(), key=lambda x: x.key):
        if f.file not in ("src/lib/ares_socket.c", "src/lib/ares_conn.c") or (f.retw or f.ret) != "ares_conn_err_t":
            continue
        outs = [p["n"] for p in f.params if p["ty"].replace(" ", "") in ("unsignedlong*", "size_t*") and p["n"] in ("read_bytes", "written", "bytes")]
        if not outs:
            continue
        n += 1
        outn = outs[0]

        def on_el(extra, blk, i, el, get, outn=outn):
            if el["k"] == "asg":
                l = strip(el["e"]["l"])
                if l is not None and l.get("k") == "un" and l["op"] == "*" and is_var(strip(l["e"]), outn):
                    return ["W"]
            if el["k"] == "call" and any(is_var(strip(a), outn) for a in el["e"].get("args", [])):
                return ["W"]      # delegated: the callee is subject to this same rule
            return [extra]
        vs = ValueSets(prog, f, summaries=summ, on_el=on_el, init_extra="", cap=2048)
        bad = None
        for b, i, el in f.returns():
            for st in vs.states_at(b, i):
                rs = vs.eval(el.get("e"), st[0])
                if (rs is None or "ARES_CONN_ERR_SUCCESS" in rs) and st[1] != "W":
                    bad = el
        k = "fn=%s defines *%s on success" % (f.name, outn)
        if bad:
            r.viol(k, f.name, f.loc(bad), "%s can return ARES_CONN_ERR_SUCCESS ('%s') without storing *%s: the caller appends an uninitialised number of bytes to the connection buffer (a zero-length datagram is enough)" % (f.name, bad.get("t", ""), outn))
        else:
            r.ok(k, f.loc(f.ln))
    r.info["primitives"] = n


def r_reread(prog, R):
    r = R.rule("R-C20-REREAD", "a TCP connection is read again within one pass only when the previous read filled the whole buffer: data already buffered is handed to the "
               "parser before a close seen by a further read can tear the connection (and its input buffer) down", floor=1, analysis="exact guard (guard_delta) on the re-read decision")
    f = prog.func("read_conn_packets")
    mf = MustFacts(f, track_calls=False)
    sets = [(b, i, el) for b, i, el in f.elements() if el["k"] == "asg" and el["e"]["op"] == "=" and is_var(strip(el["e"]["l"]), "read_again") and name_of_const(el["e"].get("r")) == "ARES_TRUE"]
    if not r.require(bool(sets), "read_conn_packets: read_again = ARES_TRUE not found"):
        return
    for b, i, el in sets:
        k = "re-read of a TCP connection only after a full buffer"
        # the store must not be reachable for a TCP connection unless count == len holds: check every incoming edge of its block
        okall = True
        why = None
        for pr in b.preds:
            pblk = f.blocks[pr]
            br = f.branch(pblk)
            edge_ok = False
            if br and br[1] != br[2]:
                pol = (br[1] == b.id)
                for c3, p3 in atoms(br[0], pol):
                    op3, l3, r3 = norm_cmp(c3, p3)
                    t = render(c3)
                    if "ARES_CONN_FLAG_TCP" in t and ((op3 == "false") or (op3 == "==" and r3 is not None and const_val(r3) == 0)):
                        edge_ok = True       # not TCP
                    if op3 == "==" and r3 is not None and {render(strip(l3)), render(strip(r3))} == {"count", "len"}:
                        edge_ok = True       # full buffer
            if not edge_ok:
                okall = False
                why = render(br[0]) if br else "unconditional"
        if okall:
            r.ok(k, f.loc(el))
        else:
            r.viol(k, f.name, f.loc(el), "read_conn_packets decides to read a TCP connection again without 'count == len' (reached through '%s'): when the peer's FIN is readable in the same pass the second read reports the close, handle_conn_error() destroys the input buffer and the answers already received are discarded and re-requested -- the outcome depends on how the stream was cut into reads" % why)


def r_readloss(prog, R):
    r = R.rule("R-C20-READLOSS", "bytes already received in this pass are handed to the parser before a read error seen by a later read of the same pass tears the "
               "connection and its input buffer down", floor=1, analysis="reachability: successful append -> teardown inside the read loop's function")
    f = prog.func("read_conn_packets")
    fins = [(b, i, c) for b, i, c in f.calls_to("ares_buf_append_finish") if const_val(call_arg(c, 1)) != 0]
    if not r.require(bool(fins), "read_conn_packets: ares_buf_append_finish(count) not found"):
        return
    for b, i, c in fins:
        k = "fn=read_conn_packets received bytes parsed before a later read error closes the connection"
        hit = None
        for (bb, ii) in reach_after(f, b.id, i):
            e2 = f.blocks[bb].els[ii]
            if e2["k"] == "call" and e2["e"].get("callee") == "handle_conn_error" and name_of_const(call_arg(e2["e"], 1)) == "ARES_TRUE":
                hit = e2
        if hit is not None:
            r.viol(k, f.name, f.loc(hit), "after ares_buf_append_finish() recorded received bytes the loop can read again, and an error of that further read reaches handle_conn_error(), which destroys conn->in_buf before read_answers() has parsed it: complete answers are discarded and their queries re-sent (today only when a TCP read filled all 65535 bytes and the peer closed right behind it)")
        else:
            r.ok(k, f.loc(c["ln"]))


def run(prog, R, tier):
    R.assume("ares_buf_tag/rollback/clear/consume implement their documented contracts")
    r_tag(prog, R)
    r_udpframe(prog, R)
    r_flush(prog, R)
    r_zero_tc(prog, R)
    r_count(prog, R)
    # a partial TCP write must leave the socket registered for write events, otherwise the tail of the query is never sent
    C10.r_announce(prog, R, rid="R-C20-WRITEINTEREST")
    r_reread(prog, R)
    r_readloss(prog, R)
    # the read loop writes straight into the buffer's spare room: what it wrote must be accounted, whatever the read size
    dsarules.r_append_finish(prog, R, "R-C20-APPENDFIN")
    # a write that fails half way must not leave its length prefix / partial message in the connection's out buffer (framing of what follows)
    C03.r_atomic(prog, R, rid="R-C20-ATOMIC")
