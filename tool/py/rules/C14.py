"""C14 — any single allocation failure is survived cleanly."""
from lib import *  # noqa
import ownrules
import own
import C01
import effects

TECHNIQUE = ("heap-ownership typestate with inferred inter-procedural outcome summaries over every allocation path (leak / double release / release after "
             "hand-over / use after release / unchecked allocation), allocate-before-mutate ordering in the growth routines, request typestate restricted "
             "to OOM paths, who-may-call census of libc allocation")
LEVEL_TEXT = ("static: decides, for every allocation site and every CFG path including the LCOV_EXCL OOM unwinds, that the result is checked before use, "
              "that nothing the function owns is dropped or released twice on any exit, that consuming functions consume on every path, that the "
              "container growth routines allocate before they mutate and restore their size on failure, that requests are still disposed exactly once "
              "on paths through failing allocations, and that all allocation goes through the replaceable allocator. Does not decide 'channel remains "
              "usable' as a behavioural whole; objects held only in channel/server/connection fields are out of scope of the leak rule.")
LEVEL_NOTE = ("trusts clang CFG + extractor; ownership transfer through struct fields is inferred from which fields the library ever releases; five frozen "
              "exemptions (take-back idioms, correlated count/pointer) are listed with reasons in tool/py/ownrules.py")
DESIGN_REF = "DESIGN.md §6/C14"
EXPLANATION = LEVEL_TEXT
NOT_DECIDED = "behavioural 'channel remains usable and destroyable' for every failing allocation index; leaks of objects reachable only from long-lived fields"

ANCHORED = {"src/lib/ares_library_init.c", "src/lib/str/ares_buf.c", "src/lib/dsa/ares_htable.c", "src/lib/dsa/ares_array.c", "src/lib/ares_send.c",
            "src/lib/ares_process.c", "src/lib/ares_conn.c", "src/lib/record/ares_dns_parse.c", "src/lib/ares_qcache.c", "src/lib/ares_getaddrinfo.c",
            "src/lib/ares_init.c"}


_MAYALLOC = {}


def may_alloc(prog):
    """functions that may (transitively) call the allocator"""
    k = id(prog)
    if k in _MAYALLOC:
        return _MAYALLOC[k]
    ma = set()
    changed = True
    while changed:
        changed = False
        for f in prog.funcs.values():
            if f.key in ma:
                continue
            for b, i, c in f.calls():
                if c.get("callee") in own.BASE_ALLOC and c.get("callee") not in ("ares_malloc_data",):
                    ma.add(f.key)
                    changed = True
                    break
                t = prog.resolve(f, c)
                if t is not None and t.key in ma:
                    ma.add(f.key)
                    changed = True
                    break
    _MAYALLOC.clear()
    _MAYALLOC[k] = ma
    return ma


def allocating(prog, o, f, c):
    if c.get("callee") in own.BASE_ALLOC:
        return True
    t = prog.resolve(f, c)
    return t is not None and t.key in may_alloc(prog)


def r_prealloc(prog, R, rid="R-C14-PREALLOC"):
    r = R.rule(rid, "growth routines allocate everything before they mutate; failure exits restore the size", floor=5, analysis="A-DOM ordering + A-VS")
    o = ownrules.get_own(prog)
    specs = [
        ("ares_htable_expand",
         lambda el: (el["k"] == "asg" and any(n.get("k") == "mem" and n["f"] in ("buckets", "num_collisions") and n["rec"] == "ares_htable" for n in walk(el["e"]["l"])))
         or is_call_el(el, "ares_llist_node_mvparent_first", "ares_llist_node_mvparent_last"),
         "moving entries / resetting the collision counter"),
        ("ares_array_insert_at",
         lambda el: is_call_el(el, "ares_array_move") or (el["k"] == "asg" and is_field(el["e"]["l"], "cnt", "ares_array")),
         "shifting members"),
        ("ares_slist_insert",
         lambda el: is_call_el(el, "ares_slist_node_push") or (el["k"] == "asg" and is_field(el["e"]["l"], "cnt", "ares_slist")),
         "linking the node"),
    ]
    for fname, is_mut, what in specs:
        f = prog.func(fname)
        muts = [(b, i, el) for b, i, el in f.elements() if is_mut(el)]
        allocs = [(b, i, c) for b, i, c in f.calls() if allocating(prog, o, f, c)]
        if not r.require(bool(muts) and bool(allocs), "%s: mutation (%d) / allocation (%d) sites not found" % (fname, len(muts), len(allocs))):
            continue
        bad = None
        for mb, mi, mel in muts:
            after = reach_after(f, mb.id, mi)
            for ab, ai, ac in allocs:
                if (ab.id, ai) in after:
                    bad = (mel, ac)
        if bad:
            r.viol("fn=%s allocate-before-mutate" % fname, fname, f.loc(bad[1]["ln"]),
                   "%s() can still fail in %s after %s has begun (line %s): a failure there leaves the container half-updated" % (bad[1]["callee"], fname, what, bad[0]["ln"]))
        else:
            r.ok("fn=%s allocate-before-mutate" % fname, f.loc(f.ln), note="%d allocations precede %d mutation sites" % (len(allocs), len(muts)))
    # htable_expand: size restored on every failing exit
    f = prog.func("ares_htable_expand")

    def on_el(extra, blk, i, el, get):
        if el["k"] == "asg" and is_field(el["e"]["l"], "size", "ares_htable"):
            if el["e"]["op"] in ("<<=", "*=", "+="):
                return ["doubled"]
            if el["e"]["op"] == "=" and is_var(el["e"].get("r"), "old_size"):
                return ["restored"]
            return ["doubled"]
        return [extra]
    vs = ValueSets(prog, f, on_el=on_el, init_extra="orig")
    n = 0
    bad = None
    for b, i, el in f.returns():
        for st in vs.states_at(b, i):
            n += 1
            rs = vs.eval(el.get("e"), st[0])
            if (rs is None or "ARES_FALSE" in rs) and st[1] == "doubled":
                bad = el
    r.require(n >= 2, "ares_htable_expand: return states not observed")
    if bad is not None:
        r.viol("fn=ares_htable_expand size-restored-on-failure", f.name, f.loc(bad), "a failing exit leaves htable->size doubled while the bucket array still has the old size (later lookups index past the end)")
    else:
        r.ok("fn=ares_htable_expand size-restored-on-failure", f.loc(f.ln))
    # ares_buf_ensure_space: realloc result assigned only on success
    g = prog.func("ares_buf_ensure_space")
    okb = False
    for b, i, el in g.elements():
        if el["k"] == "asg" and is_field(el["e"]["l"], "alloc_buf", "ares_buf"):
            mf = MustFacts(g, track_calls=False)
            facts = mf.cond_facts_at(b, i)
            if cond_holds(facts, lambda op, l, rr: (op == "!=" and rr is not None and is_null(rr)) or op == "truth"):
                okb = True
    if okb:
        r.ok("fn=ares_buf_ensure_space keeps-old-block-on-failure", g.loc(g.ln))
    else:
        r.viol("fn=ares_buf_ensure_space keeps-old-block-on-failure", g.name, g.loc(g.ln), "buf->alloc_buf is overwritten with an unchecked realloc result (old block lost on failure)")


def r_allocpath(prog, R):
    r = R.rule("R-C14-ALLOCPATH", "libc allocation is reached only through the replaceable allocator", floor=3, analysis="A-WMC")
    LIBC = {"malloc", "calloc", "realloc", "free", "strdup", "strndup"}
    n = 0
    for f in prog.funcs.values():
        for b, i, c in f.calls():
            if c.get("callee") in LIBC and prog.resolve(f, c) is None:
                n += 1
                key = "libc=%s caller=%s" % (c["callee"], f.name)
                if f.file in ("src/lib/ares_library_init.c",):
                    r.ok(key, f.loc(c["ln"]), nontrivial=False)
                else:
                    r.viol(key, f.name, f.loc(c["ln"]), "libc %s() called directly: this allocation bypasses ares_library_init_mem() and cannot be failed/observed by the application's allocator" % c["callee"])
    # references (not calls) to malloc/realloc/free as defaults
    for g in ("ares_malloc", "ares_free", "ares_realloc"):
        f = prog.func(g)
        ind = [c for _, _, c in f.calls() if not c.get("callee")]
        if ind:
            r.ok("%s goes through the function pointer" % g, f.loc(f.ln))
        else:
            r.viol("%s goes through the function pointer" % g, g, f.loc(f.ln), "%s no longer calls the replaceable allocator hook" % g)


ALLOCOUT_OK = {
    "ares_buf_split_str": "ares_array_finish returns NULL for an empty array, which is the documented result for no elements; it cannot fail otherwise",
    "ares_dns_write": "after a successful ares_dns_write_buf the buffer holds at least the 12 byte header, for which ares_buf_finish_bin does not allocate",
    "ares_uri_write": "after a successful ares_uri_write_buf the buffer holds at least the scheme, for which ares_buf_finish_str does not allocate",
}


def r_allocout(prog, R):
    import own
    r = R.rule("R-C14-ALLOCOUT", "the result of an allocating call handed out through an out-parameter is tested before the function can report success", floor=12, analysis="A-WMC on allocator results + guard presence")
    alloc = set(own.BASE_ALLOC) | {"ares_buf_finish_str", "ares_buf_finish_bin", "ares_array_finish", "ares_strdup", "ares_buf_create", "ares_llist_create",
                                   "ares_malloc_zero", "ares_malloc", "ares_array_create", "ares_dns_multistring_create", "ares_slist_create", "ares_htable_create"}
    for f in sorted(prog.funcs.values(), key=lambda x: x.key):
        if (f.retw or f.ret) != "ares_status_t":
            continue
        pn = {p["n"] for p in f.params if p["ty"].count("*") >= 2}
        for b, i, el in f.elements():
            if el["k"] != "asg" or el["e"]["op"] != "=":
                continue
            l = strip(el["e"]["l"])
            if not (l is not None and l.get("k") == "un" and l["op"] == "*" and is_var(strip(l["e"])) and strip(l["e"])["n"] in pn):
                continue
            rr = strip(el["e"].get("r"))
            if rr is None or rr.get("k") != "call":
                continue
            cn = rr
            if cn.get("ref"):
                x = f.call_by_id(cn["id"])
                cn = x[2] if x else cn
            if cn.get("callee") not in alloc:
                continue
            out = strip(l["e"])["n"]
            k = "fn=%s *%s = %s() tested" % (f.name, out, cn["callee"])
            # a NULL test of *out on some path after the store, leading to a failure status
            tested = False
            reachable = {b.id}
            work = [b.id]
            while work:
                x = work.pop()
                for s2 in f.blocks[x].succs:
                    if s2 is not None and s2 not in reachable:
                        reachable.add(s2)
                        work.append(s2)
            for b2 in f.blocks.values():
                if b2.term and b2.term.get("cond") is not None and b2.id in reachable:
                    for c3, p3 in atoms(b2.term["cond"], True) + atoms(b2.term["cond"], False):
                        op, l3, r3 = norm_cmp(c3, p3)
                        l4 = strip(l3)
                        if l4 is not None and l4.get("k") == "un" and l4["op"] == "*" and is_var(strip(l4["e"]), out):
                            tested = True
            if tested:
                r.ok(k, f.loc(el))
            elif f.name in ALLOCOUT_OK:
                r.ok(k + " (exempt: %s)" % ALLOCOUT_OK[f.name][:60], f.loc(el), nontrivial=False)
            else:
                r.viol(k, f.name, f.loc(el), "%s stores the result of %s() in *%s and can return without ever testing it: when that allocation fails the caller is told the call succeeded and receives NULL" % (f.name, cn["callee"], out))


def r_registered(prog, R):
    r = R.rule("R-C14-REGISTERED", "a hosts entry that the lookup tables already own (it was found by a match and merged into) is never released by the code that failed to extend it", floor=2,
               analysis="A-VS typestate (fresh / registered) on the entry variable")
    f = prog.func("ares_hosts_file_add")
    # variables filled by the match lookup
    matchvars = set()
    for b, i, c in f.calls_to("ares_hosts_file_match"):
        for a in c.get("args", []):
            a2 = strip(a)
            if a2 is not None and a2.get("k") == "un" and a2["op"] == "&" and is_var(strip(a2["e"])):
                matchvars.add(strip(a2["e"])["n"])
    if not r.require(matchvars, "ares_hosts_file_add: match out-parameter not found"):
        return

    def on_el(extra, blk, i, el, get):
        if el["k"] == "asg" and el["e"]["op"] == "=" and is_var(strip(el["e"]["l"])) and is_var(strip(el["e"].get("r"))) and strip(el["e"]["r"])["n"] in matchvars:
            return [tuple(sorted(set(extra) | {strip(el["e"]["l"])["n"]}))]
        return [extra]
    vs = ValueSets(prog, f, on_el=on_el, init_extra=tuple(sorted(matchvars)), cap=4096)
    n = 0
    for b, i, c in sorted(f.calls_to("ares_hosts_entry_destroy"), key=lambda x: x[2]["ln"]):
        a = strip(call_arg(c, 0))
        if a is None or a.get("k") != "var":
            continue
        n += 1
        k = "destroy(%s)@%s" % (a["n"], "merge-failed" if n == 1 else "insert-failed#%d" % (n - 1))
        reg = [st for st in vs.states_at(b, i) if a["n"] in st[1]]
        if reg:
            r.viol(k, f.name, f.loc(c["ln"]), "ares_hosts_entry_destroy(%s) can run when '%s' is the entry found by ares_hosts_file_match, which iphash/hosthash already own: its reference count drops to zero and it is freed while the tables still point at it (after a single failed allocation)" % (a["n"], a["n"]))
        else:
            r.ok(k, f.loc(c["ln"]))
    r.require(n >= 2, "fewer destroy sites in ares_hosts_file_add than confirmed by hand (%d)" % n)


def run(prog, R, tier):
    R.assume("a store into a struct field transfers ownership iff the library releases objects through that field somewhere (inferred), plus 9 container link fields")
    files = None if tier == "thorough" else ANCHORED
    ownrules.own_rule(prog, R, "R-C14-OWN", files, floor=40 if files else 120, include_contract=True)
    r_prealloc(prog, R)
    r_allocpath(prog, R)
    r_allocout(prog, R)
    r_registered(prog, R)
    E = effects.Effects(prog)
    C01.r_once(prog, R, E, rid="R-C14-ONCE")
