"""C14 — any single allocation failure is survived cleanly."""
from lib import *  # noqa
import re
import ownrules
import own
import C01
import effects

TECHNIQUE = ("heap-ownership typestate with inferred inter-procedural outcome summaries over every allocation path (leak / double release / release after "
             "hand-over / use after release / unchecked allocation), allocate-before-mutate ordering in the growth routines, request typestate restricted "
             "to OOM paths, who-may-call census of libc allocation"
             ", path search from every unlink of a request to a settle event with result-edge refinement, loop-exit vocabulary of the requeue flush, release-loop inference of (array, count) pairs with element-null edge refinement")
LEVEL_TEXT = ("static: decides, for every allocation site and every CFG path including the LCOV_EXCL OOM unwinds, that the result is checked before use, "
              "that nothing the function owns is dropped or released twice on any exit, that consuming functions consume on every path, that the "
              "container growth routines allocate before they mutate and restore their size on failure, that requests are still disposed exactly once "
              "on paths through failing allocations, and that all allocation goes through the replaceable allocator. Does not decide 'channel remains "
              "usable' as a behavioural whole; objects held only in channel/server/connection fields are out of scope of the leak rule."
              " Also decides (REQUEUE) that a request taken off its connection and timer is re-sent, parked or completed on every path and that every parked request is re-sent, (COUNTED) that counted string arrays are covered by their count at every exit, (ALLOCOUT/REGISTERED) see DESIGN §11.2.")
# fifth-round additions
TECHNIQUE += "; " + "path search from a successful hash-table insert to a release of the inserted object with the table's remove as barrier (R-C14-UNDO); deviance rule over all allocation-to-member stores (R-C14-ALLOCCHK)"
LEVEL_TEXT += " " + '(UNDO) an object released on a failure path was first taken out of the hash table it had been put into; (ALLOCCHK) the result of an allocation stored into a member of an object is tested in the storing function (77 sites).'
# sixth-round additions
TECHNIQUE += "; " + 'path searches from a parameter kept in a member to a destructor of that member (R-C14-BORROWED) and from a filled member to a bare ares_free of the object (R-C14-SHELLFREE)'
LEVEL_TEXT += " " + "(BORROWED) an object keeping one of the function's parameters in a member is not handed to a destructor of that member unless the member was reset; (SHELLFREE) an object whose member holds an allocation is not released with a bare ares_free."
# seventh-round addition
TECHNIQUE += "; disjunctive forward typestate {not linked, linked?, linked, insert failed} x {status S/F} per local object put into a linked list or skip list (R-C14-UNDOLIST)"
LEVEL_TEXT += " (UNDOLIST) an object released on a failure path was first taken out of the linked list / skip list it had been put into (13 sites)."
LEVEL_NOTE = ("trusts clang CFG + extractor; ownership transfer through struct fields is inferred from which fields the library ever releases; five frozen "
              "exemptions (take-back idioms, correlated count/pointer) are listed with reasons in tool/py/ownrules.py")
DESIGN_REF = "DESIGN.md §6/C14"
EXPLANATION = LEVEL_TEXT
NOT_DECIDED = "behavioural 'channel remains usable and destroyable' for every failing allocation index; leaks of objects reachable only from long-lived fields"

ANCHORED = {"src/lib/ares_library_init.c", "src/lib/str/ares_buf.c", "src/lib/dsa/ares_htable.c", "src/lib/dsa/ares_array.c", "src/lib/ares_send.c",
            "src/lib/ares_process.c", "src/lib/ares_conn.c", "src/lib/record/ares_dns_parse.c", "src/lib/ares_qcache.c", "src/lib/ares_getaddrinfo.c",
            "src/lib/ares_init.c"}


_MAYALLOC = {}


def may_alloc(prog):
    """functions that may (transitively) call the allocator"""
    k = id(prog)
    if k in _MAYALLOC:
        return _MAYALLOC[k]
    ma = set()
    changed = True
    while changed:
        changed = False
        for f in prog.funcs.values():
            if f.key in ma:
                continue
            for b, i, c in f.calls():
                if c.get("callee") in own.BASE_ALLOC and c.get("callee") not in ("ares_malloc_data",):
                    ma.add(f.key)
                    changed = True
                    break
                t = prog.resolve(f, c)
                if t is not None and t.key in ma:
                    ma.add(f.key)
                    changed = True
                    break
    _MAYALLOC.clear()
    _MAYALLOC[k] = ma
    return ma


def allocating(prog, o, f, c):
    if c.get("callee") in own.BASE_ALLOC:
        return True
    t = prog.resolve(f, c)
    return t is not None and t.key in may_alloc(prog)


def r_prealloc(prog, R, rid="R-C14-PREALLOC"):
    r = R.rule(rid, "growth routines allocate everything before they mutate; failure exits restore the size", floor=7, analysis="A-DOM ordering + A-VS")
    o = ownrules.get_own(prog)
    specs = [
        ("ares_htable_expand",
         lambda el: (el["k"] == "asg" and any(n.get("k") == "mem" and n["f"] in ("buckets", "num_collisions") and n["rec"] == "ares_htable" for n in walk(el["e"]["l"])))
         or is_call_el(el, "ares_llist_node_mvparent_first", "ares_llist_node_mvparent_last"),
         "moving entries / resetting the collision counter"),
        ("ares_array_insert_at",
         lambda el: is_call_el(el, "ares_array_move") or (el["k"] == "asg" and is_field(el["e"]["l"], "cnt", "ares_array")),
         "shifting members"),
        ("ares_slist_insert",
         lambda el: is_call_el(el, "ares_slist_node_push") or (el["k"] == "asg" and is_field(el["e"]["l"], "cnt", "ares_slist")),
         "linking the node"),
        ("ares_buf_ensure_space",
         lambda el: el["k"] == "asg" and any(n.get("k") == "mem" and n.get("rec") == "ares_buf" for n in [strip(el["e"]["l"])]),
         "updating the buffer's capacity / pointers"),
        ("ares_array_set_size",
         lambda el: el["k"] == "asg" and any(n.get("k") == "mem" and n.get("rec") == "ares_array" for n in [strip(el["e"]["l"])]),
         "updating the array's capacity / storage pointer"),
    ]
    for fname, is_mut, what in specs:
        f = prog.func(fname)
        muts = [(b, i, el) for b, i, el in f.elements() if is_mut(el)]
        allocs = [(b, i, c) for b, i, c in f.calls() if allocating(prog, o, f, c)]
        if not r.require(bool(muts) and bool(allocs), "%s: mutation (%d) / allocation (%d) sites not found" % (fname, len(muts), len(allocs))):
            continue
        bad = None
        for mb, mi, mel in muts:
            after = reach_after(f, mb.id, mi)
            for ab, ai, ac in allocs:
                if (ab.id, ai) in after:
                    bad = (mel, ac)
        if bad:
            r.viol("fn=%s allocate-before-mutate" % fname, fname, f.loc(bad[1]["ln"]),
                   "%s() can still fail in %s after %s has begun (line %s): a failure there leaves the container half-updated" % (bad[1]["callee"], fname, what, bad[0]["ln"]))
        else:
            r.ok("fn=%s allocate-before-mutate" % fname, f.loc(f.ln), note="%d allocations precede %d mutation sites" % (len(allocs), len(muts)))
    # htable_expand: size restored on every failing exit
    f = prog.func("ares_htable_expand")

    def on_el(extra, blk, i, el, get):
        if el["k"] == "asg" and is_field(el["e"]["l"], "size", "ares_htable"):
            if el["e"]["op"] in ("<<=", "*=", "+="):
                return ["doubled"]
            if el["e"]["op"] == "=" and is_var(el["e"].get("r"), "old_size"):
                return ["restored"]
            return ["doubled"]
        return [extra]
    vs = ValueSets(prog, f, on_el=on_el, init_extra="orig")
    n = 0
    bad = None
    for b, i, el in f.returns():
        for st in vs.states_at(b, i):
            n += 1
            rs = vs.eval(el.get("e"), st[0])
            if (rs is None or "ARES_FALSE" in rs) and st[1] == "doubled":
                bad = el
    r.require(n >= 2, "ares_htable_expand: return states not observed")
    if bad is not None:
        r.viol("fn=ares_htable_expand size-restored-on-failure", f.name, f.loc(bad), "a failing exit leaves htable->size doubled while the bucket array still has the old size (later lookups index past the end)")
    else:
        r.ok("fn=ares_htable_expand size-restored-on-failure", f.loc(f.ln))
    # ares_buf_ensure_space: realloc result assigned only on success
    g = prog.func("ares_buf_ensure_space")
    okb = False
    for b, i, el in g.elements():
        if el["k"] == "asg" and is_field(el["e"]["l"], "alloc_buf", "ares_buf"):
            mf = MustFacts(g, track_calls=False)
            facts = mf.cond_facts_at(b, i)
            if cond_holds(facts, lambda op, l, rr: (op == "!=" and rr is not None and is_null(rr)) or op == "truth"):
                okb = True
    if okb:
        r.ok("fn=ares_buf_ensure_space keeps-old-block-on-failure", g.loc(g.ln))
    else:
        r.viol("fn=ares_buf_ensure_space keeps-old-block-on-failure", g.name, g.loc(g.ln), "buf->alloc_buf is overwritten with an unchecked realloc result (old block lost on failure)")


SETTLE_CALLS = ("ares_send_query", "end_query", "ares_free_query", "ares_requeue_query", "ares_append_requeue")


def r_requeue(prog, R, rid="R-C14-REQUEUE"):
    r = R.rule(rid, "a request taken off its connection and timer is, on every path, re-sent, parked in the requeue array (the insertion succeeded) or completed; "
               "every parked request is re-sent: the flush loop ends only when the array is empty", floor=4,
               analysis="path search from every unlink with result-edge refinement + loop-exit vocabulary")
    n = 0
    # unlink primitives: the function itself plus void wrappers that unlink their own parameter and do nothing to settle it
    unlink = {"ares_query_remove_from_conn"}
    changed = True
    while changed:
        changed = False
        for f in prog.funcs.values():
            if f.name in unlink or f.name in SETTLE_CALLS or f.ret != "void" or not f.params:
                continue
            p0 = f.params[0]["n"]
            cs = [c for _, _, c in f.calls() if c.get("callee") in unlink and c.get("args") and render(strip(c["args"][0])) == p0]
            frees = any(c.get("callee") == "ares_free" and c.get("args") and render(strip(c["args"][0])) == p0 for _, _, c in f.calls())
            if cs and not frees and not any(c.get("callee") in SETTLE_CALLS for _, _, c in f.calls()) and not any(c.get("fnx") is not None for _, _, c in f.calls()):
                unlink.add(f.name)
                changed = True
    r.info["unlink_primitives"] = sorted(unlink)
    for f in sorted(prog.funcs.values(), key=lambda x: x.key):
        sites = f.calls_to(*unlink)
        if not sites or f.name in unlink:
            continue
        ins = {}
        for d in call_result_branches(f, "ares_array_insertdata_last", "ares_array_insert_last"):
            okedge = None
            if name_of_const(d["rhs"]) == "ARES_SUCCESS":
                okedge = d["true"] if d["op"] == "==" else (d["false"] if d["op"] == "!=" else None)
            if okedge is not None:
                ins[d["block"].id] = okedge
        for b, i, c in sites:
            n += 1
            q = render(strip(c["args"][0]))
            k = "fn=%s request %s settled after being unlinked" % (f.name, q)

            def settles(e2):
                if e2["k"] != "call":
                    # `return insert(...)`: handled below (not a settle)
                    return False
                cc = e2["e"]
                return cc.get("callee") in SETTLE_CALLS + ("ares_free",) and any(a is not None and render(strip(a)) == q for a in cc.get("args", []))
            seen, work, bad = set(), [(b.id, i + 1, [b.id])], None
            while work and bad is None:
                bid, st, trail = work.pop()
                blk = f.blocks[bid]
                stop = False
                for j in range(st, len(blk.els)):
                    e2 = blk.els[j]
                    if settles(e2):
                        stop = True
                        break
                    if e2["k"] == "ret":
                        bad = (e2, trail)
                        stop = True
                        break
                if stop:
                    continue
                for s2 in f.succ(bid):
                    if bid in ins and s2 == ins[bid]:
                        continue          # the request is parked: the insertion into the requeue array succeeded
                    if s2 == f.exit:
                        if f.ret == "void":
                            bad = ({"ln": f.ln}, trail)
                        continue
                    if s2 not in seen:
                        seen.add(s2)
                        work.append((s2, 0, trail + [s2]))
            if bad:
                r.viol(k, f.name, f.loc(bad[0]), "%s unlinks %s from its connection and timeout list and can then return without re-sending it, parking it successfully or completing it (e.g. when adding it to the requeue array fails for lack of memory): the request is on no connection and has no timer, so it neither fails nor proceeds until the channel is cancelled or destroyed" % (f.name, q), trail=trail_lines(f, bad[1]))
            else:
                r.ok(k, f.loc(c["ln"]))
    r.require(n >= 3, "fewer than 3 ares_query_remove_from_conn call sites")
    # flush loop
    ra = prog.func("read_answers")
    scs = ra.calls_to("ares_send_query")
    if r.require(bool(scs), "read_answers: deferred re-send not found"):
        lp = None
        for h, body in ra.natural_loops().items():
            if scs[0][0].id in body and (lp is None or len(body) < len(lp[1])):
                lp = (h, body)
        if r.require(lp is not None, "read_answers: flush loop not found"):
            h, body = lp
            claim_blocks = {d["block"].id for d in call_result_branches(ra, "ares_array_claim_at", "ares_array_remove_first", "ares_array_claim_first")}
            k = "read_answers re-sends every parked request"
            bad = None
            for bid in sorted(body):
                for s2 in ra.succ(bid):
                    if s2 in body:
                        continue
                    if bid == h:
                        continue
                    # an early exit: allowed only as the direct consequence of a failed claim
                    preds_ok = bid in claim_blocks or (not ra.blocks[bid].els and all(p in claim_blocks for p in ra.blocks[bid].preds))
                    if not preds_ok:
                        bad = bid
            # and the flush cannot be bypassed: from every call that may park a request (it is handed &requeue) every path to the exit
            # evaluates the flush loop's condition
            arr = None
            for b0, i0, c0 in ra.calls():
                for a in c0.get("args", []):
                    a2 = strip(a)
                    if a2 is not None and a2.get("k") == "un" and a2["op"] == "&" and is_var(strip(a2["e"])) and "requeue" in strip(a2["e"])["n"]:
                        arr = strip(a2["e"])["n"]
                        t = can_reach_exit_avoiding(ra, b0, i0, lambda e2, arr=arr: e2["k"] == "call" and e2["e"].get("callee") in ("ares_array_len", "ares_array_claim_at", "ares_array_remove_first") and any(x is not None and is_var(strip(x), arr) for x in e2["e"].get("args", [])))
                        k2 = "read_answers cannot leave without flushing what %s parked" % (c0.get("callee") or "a callee")
                        if t is not None:
                            r.viol(k2, ra.name, ra.loc(c0["ln"]), "read_answers can return after %s() may have parked requests in '%s' without running the loop that re-sends them (the array is dropped): those requests were taken off their connection and timer and never complete" % (c0.get("callee"), arr), trail=trail_lines(ra, t))
                        else:
                            r.ok(k2, ra.loc(c0["ln"]))
            if bad is not None:
                blk = ra.blocks[bad]
                r.viol(k, ra.name, ra.loc((blk.term or {}).get("ln", ra.ln)), "the loop that re-sends the parked requests can be left while requests are still parked (an exit other than 'array empty' / 'claim failed'): the remaining requests were already taken off their connection and timer and are dropped with the array -- they never complete")
            else:
                r.ok(k, ra.loc(scs[0][2]["ln"]))


def _counted_arrays(prog):
    """(record, array field) -> count field, taken from the release loops: `for (i < X->cnt) free(X->arr[i])`"""
    pairs = {}
    for f in prog.funcs.values():
        for h, body in f.natural_loops().items():
            bounds = []
            for bid in body:
                br = f.branch(bid)
                if not br:
                    continue
                for c, p in atoms(br[0], True):
                    op, l, rr = norm_cmp(c, p)
                    rs = strip(rr) if rr is not None else None
                    if op == "<" and rs is not None and rs.get("k") == "mem":
                        bounds.append(rs)
            if not bounds:
                continue
            for bid in body:
                for el in f.blocks[bid].els:
                    if el["k"] == "call" and el["e"].get("callee") in ("ares_free", "ares_free_string") and el["e"].get("args"):
                        a = strip(el["e"]["args"][0])
                        if a is not None and a.get("k") == "idx":
                            ab = strip(a["b"])
                            for rs in bounds:
                                if ab is not None and ab.get("k") == "mem" and render(strip(ab["b"])) == render(strip(rs["b"])):
                                    pairs[(ab["rec"], ab["f"])] = (rs["f"], f.name)
    return pairs


def r_counted(prog, R):
    r = R.rule("R-C14-COUNTED", "an array of owned strings that is released up to a count field has that count set whenever it can hold a non-NULL element at a return: "
               "a failure while filling it does not leave elements the release loop will not visit", floor=2,
               analysis="release-loop inference of (array, count) pairs + path search store -> return with element-null edge refinement")
    pairs = _counted_arrays(prog)
    r.info["counted_arrays"] = {"%s.%s" % k: v[0] for k, v in pairs.items()}
    if not r.require(("ares_channeldata", "domains") in pairs, "release loop of channel->domains not recognised"):
        return
    n = 0
    for f in sorted(prog.funcs.values(), key=lambda x: x.key):
        for b, i, el in f.elements():
            if el["k"] != "asg" or el["e"]["op"] != "=":
                continue
            l = strip(el["e"]["l"])
            if l is None or l.get("k") != "idx":
                continue
            ab = strip(l["b"])
            if ab is None or ab.get("k") != "mem" or (ab.get("rec"), ab["f"]) not in pairs or is_null(el["e"].get("r")):
                continue
            cf = pairs[(ab["rec"], ab["f"])][0]
            base = render(strip(ab["b"]))
            arrt = render(ab)
            n += 1
            k = "fn=%s %s[%s] counted by %s->%s at every exit" % (f.name, arrt, render(strip(l["i"])), base, cf)

            def is_cnt(e2):
                if e2["k"] != "asg":
                    return False
                l2 = strip(e2["e"]["l"])
                return l2 is not None and l2.get("k") == "mem" and l2["f"] == cf and render(strip(l2["b"])) == base
            if can_reach_from_entry_avoiding(f, b, i, lambda e2: is_cnt(e2) and e2["e"]["op"] == "=" and const_val(e2["e"].get("r")) != 0) is None:
                r.ok(k + " (count set before the fill)", f.loc(el))
                continue
            # from the store: state P (just stored, may be NULL) / Y (a non-NULL element is in the array)
            seen, work, bad = set(), [(b.id, i + 1, "P", [b.id])], None
            while work and bad is None:
                bid, st0, state, trail = work.pop()
                blk = f.blocks[bid]
                stop = False
                for j in range(st0, len(blk.els)):
                    e2 = blk.els[j]
                    if is_cnt(e2):
                        stop = True
                        break
                    if e2["k"] == "ret":
                        bad = (e2, trail)
                        stop = True
                        break
                if stop:
                    continue
                br = f.branch(blk)
                for s2 in f.succ(bid):
                    st2 = state
                    if br:
                        pol = (br[1] == s2)
                        for c3, p3 in atoms(br[0], pol):
                            op, l3, r3 = norm_cmp(c3, p3)
                            ls = strip(l3)
                            if ls is not None and ls.get("k") == "idx" and render(strip(ls["b"])) == arrt:
                                isnull = (op == "false") or (op == "==" and r3 is not None and is_null(r3))
                                notnull = (op == "truth") or (op == "!=" and r3 is not None and is_null(r3))
                                if isnull and st2 == "P":
                                    st2 = None
                                elif notnull:
                                    st2 = "Y"
                    if st2 is None:
                        continue
                    if s2 == f.exit:
                        continue
                    if (s2, st2) not in seen:
                        seen.add((s2, st2))
                        work.append((s2, 0, st2, trail + [s2]))
            if bad:
                r.viol(k, f.name, f.loc(bad[0]), "%s can return while %s holds strings that %s->%s does not cover yet (the count is only set after the fill): the release loop of %s frees 0..%s-1 and leaks them" % (
                    f.name, arrt, base, cf, pairs[(ab["rec"], ab["f"])][1], cf), trail=trail_lines(f, bad[1]))
            else:
                r.ok(k, f.loc(el))
    r.require(n >= 2, "fewer than 2 element stores into counted arrays")


def r_allocpath(prog, R):
    r = R.rule("R-C14-ALLOCPATH", "libc allocation is reached only through the replaceable allocator", floor=3, analysis="A-WMC")
    LIBC = {"malloc", "calloc", "realloc", "free", "strdup", "strndup"}
    n = 0
    for f in prog.funcs.values():
        for b, i, c in f.calls():
            if c.get("callee") in LIBC and prog.resolve(f, c) is None:
                n += 1
                key = "libc=%s caller=%s" % (c["callee"], f.name)
                if f.file in ("src/lib/ares_library_init.c",):
                    r.ok(key, f.loc(c["ln"]), nontrivial=False)
                else:
                    r.viol(key, f.name, f.loc(c["ln"]), "libc %s() called directly: this allocation bypasses ares_library_init_mem() and cannot be failed/observed by the application's allocator" % c["callee"])
    # references (not calls) to malloc/realloc/free as defaults
    for g in ("ares_malloc", "ares_free", "ares_realloc"):
        f = prog.func(g)
        ind = [c for _, _, c in f.calls() if not c.get("callee")]
        if ind:
            r.ok("%s goes through the function pointer" % g, f.loc(f.ln))
        else:
            r.viol("%s goes through the function pointer" % g, g, f.loc(f.ln), "%s no longer calls the replaceable allocator hook" % g)


ALLOCOUT_OK = {
    "ares_buf_split_str": "ares_array_finish returns NULL for an empty array, which is the documented result for no elements; it cannot fail otherwise",
    "ares_dns_write": "after a successful ares_dns_write_buf the buffer holds at least the 12 byte header, for which ares_buf_finish_bin does not allocate",
    "ares_uri_write": "after a successful ares_uri_write_buf the buffer holds at least the scheme, for which ares_buf_finish_str does not allocate",
}


def r_allocout(prog, R):
    import own
    r = R.rule("R-C14-ALLOCOUT", "the result of an allocating call handed out through an out-parameter is tested before the function can report success", floor=12, analysis="A-WMC on allocator results + guard presence")
    alloc = set(own.BASE_ALLOC) | {"ares_buf_finish_str", "ares_buf_finish_bin", "ares_array_finish", "ares_strdup", "ares_buf_create", "ares_llist_create",
                                   "ares_malloc_zero", "ares_malloc", "ares_array_create", "ares_dns_multistring_create", "ares_slist_create", "ares_htable_create"}
    for f in sorted(prog.funcs.values(), key=lambda x: x.key):
        if (f.retw or f.ret) != "ares_status_t":
            continue
        pn = {p["n"] for p in f.params if p["ty"].count("*") >= 2}
        for b, i, el in f.elements():
            if el["k"] != "asg" or el["e"]["op"] != "=":
                continue
            l = strip(el["e"]["l"])
            if not (l is not None and l.get("k") == "un" and l["op"] == "*" and is_var(strip(l["e"])) and strip(l["e"])["n"] in pn):
                continue
            rr = strip(el["e"].get("r"))
            if rr is None or rr.get("k") != "call":
                continue
            cn = rr
            if cn.get("ref"):
                x = f.call_by_id(cn["id"])
                cn = x[2] if x else cn
            if cn.get("callee") not in alloc:
                continue
            out = strip(l["e"])["n"]
            k = "fn=%s *%s = %s() tested" % (f.name, out, cn["callee"])
            # a NULL test of *out on some path after the store, leading to a failure status
            tested = False
            reachable = {b.id}
            work = [b.id]
            while work:
                x = work.pop()
                for s2 in f.blocks[x].succs:
                    if s2 is not None and s2 not in reachable:
                        reachable.add(s2)
                        work.append(s2)
            for b2 in f.blocks.values():
                if b2.term and b2.term.get("cond") is not None and b2.id in reachable:
                    for c3, p3 in atoms(b2.term["cond"], True) + atoms(b2.term["cond"], False):
                        op, l3, r3 = norm_cmp(c3, p3)
                        l4 = strip(l3)
                        if l4 is not None and l4.get("k") == "un" and l4["op"] == "*" and is_var(strip(l4["e"]), out):
                            tested = True
            if tested:
                r.ok(k, f.loc(el))
            elif f.name in ALLOCOUT_OK:
                r.ok(k + " (exempt: %s)" % ALLOCOUT_OK[f.name][:60], f.loc(el), nontrivial=False)
            else:
                r.viol(k, f.name, f.loc(el), "%s stores the result of %s() in *%s and can return without ever testing it: when that allocation fails the caller is told the call succeeded and receives NULL" % (f.name, cn["callee"], out))


def r_registered(prog, R):
    r = R.rule("R-C14-REGISTERED", "a hosts entry that the lookup tables already own (it was found by a match and merged into) is never released by the code that failed to extend it", floor=2,
               analysis="A-VS typestate (fresh / registered) on the entry variable")
    f = prog.func("ares_hosts_file_add")
    # variables filled by the match lookup
    matchvars = set()
    for b, i, c in f.calls_to("ares_hosts_file_match"):
        for a in c.get("args", []):
            a2 = strip(a)
            if a2 is not None and a2.get("k") == "un" and a2["op"] == "&" and is_var(strip(a2["e"])):
                matchvars.add(strip(a2["e"])["n"])
    if not r.require(matchvars, "ares_hosts_file_add: match out-parameter not found"):
        return

    def on_el(extra, blk, i, el, get):
        if el["k"] == "asg" and el["e"]["op"] == "=" and is_var(strip(el["e"]["l"])) and is_var(strip(el["e"].get("r"))) and strip(el["e"]["r"])["n"] in matchvars:
            return [tuple(sorted(set(extra) | {strip(el["e"]["l"])["n"]}))]
        return [extra]
    vs = ValueSets(prog, f, on_el=on_el, init_extra=tuple(sorted(matchvars)), cap=4096)
    n = 0
    for b, i, c in sorted(f.calls_to("ares_hosts_entry_destroy"), key=lambda x: x[2]["ln"]):
        a = strip(call_arg(c, 0))
        if a is None or a.get("k") != "var":
            continue
        n += 1
        k = "destroy(%s)@%s" % (a["n"], "merge-failed" if n == 1 else "insert-failed#%d" % (n - 1))
        reg = [st for st in vs.states_at(b, i) if a["n"] in st[1]]
        if reg:
            r.viol(k, f.name, f.loc(c["ln"]), "ares_hosts_entry_destroy(%s) can run when '%s' is the entry found by ares_hosts_file_match, which iphash/hosthash already own: its reference count drops to zero and it is freed while the tables still point at it (after a single failed allocation)" % (a["n"], a["n"]))
        else:
            r.ok(k, f.loc(c["ln"]))
    r.require(n >= 2, "fewer destroy sites in ares_hosts_file_add than confirmed by hand (%d)" % n)


_INS = re.compile(r"^ares_htable_(\w+)_insert$")


def _callee_names(prog, g, depth=3, seen=None):
    seen = seen if seen is not None else set()
    if g.key in seen or depth < 0:
        return set()
    seen.add(g.key)
    out = set()
    for b, i, c in g.calls():
        if c.get("callee"):
            out.add(c["callee"])
            t = prog.resolve(g, c)
            if t is not None and t.file.startswith("src/lib/") and not t.file.startswith("src/lib/dsa/"):
                out |= _callee_names(prog, t, depth - 1, seen)
    return out


def _frees_param(prog, g, k):
    """g releases its k-th parameter with a direct ares_free(param)"""
    if k >= len(g.params):
        return False
    pn = g.params[k]["n"]
    names = {pn}
    for b, i, el in g.elements():       # the void* parameter of a destructor callback is first copied into a typed local
        if el["k"] == "decl":
            for v in el["vars"]:
                if v.get("init") is not None and is_var(strip(v["init"]), pn):
                    names.add(v["n"])
        if el["k"] == "asg" and el["e"]["op"] == "=" and is_var(strip(el["e"].get("r")), pn) and strip(el["e"]["l"]).get("k") == "var":
            names.add(strip(el["e"]["l"])["n"])
    return any(c.get("callee") == "ares_free" and c.get("args") and strip(c["args"][0]).get("k") == "var" and strip(c["args"][0])["n"] in names for _, _, c in g.calls())


def r_undo(prog, R):
    r = R.rule("R-C14-UNDO", "an object released on a failure path was first taken out of the hash table it had been put into: between a successful ares_htable_*_insert(table, key, obj) "
               "and the release of obj in the same function the table's remove is called (or the release goes through a function that unlinks the object)", floor=6,
               analysis="path search from the success edge of the insert to a release of the object, removal calls as barriers, edges contradicting facts known at the insert pruned")
    nsites = 0
    for f in sorted(prog.funcs.values(), key=lambda x: x.key):
        if not f.file.startswith("src/lib/") or f.file.startswith("src/lib/dsa/"):
            continue
        mf = None
        for b, i, c in f.calls():
            m = _INS.match(c.get("callee") or "")
            if not m or len(c.get("args", [])) < 3:
                continue
            obj = strip(c["args"][-1])
            if obj is None or obj.get("k") != "var" or not (obj.get("ty") or "").rstrip().endswith("*"):
                continue
            nsites += 1
            fam, table, on = m.group(1), render(strip(c["args"][0])), obj["n"]
            mf = mf or MustFacts(f)
            # edges on which the insert failed
            avoid = set()
            for g in call_result_branches(f, c["callee"]):
                if g["call"].get("id") == c.get("id"):
                    pe = status_pass_edge(g)
                    if pe:
                        avoid.add((g["block"].id, pe[1]))
            # edges that contradict what is known at the insert (entry->key != NULL ...)
            known = set()
            for cc, pp in mf.cond_facts_at(b, i):
                op, l, rr = norm_cmp(cc, pp)
                if l is not None:
                    known.add((op, render(strip(l)), render(strip(rr)) if rr is not None else None))
            neg = {"==": "!=", "!=": "==", "truth": "false", "false": "truth", "<": ">=", ">=": "<", ">": "<=", "<=": ">"}
            for blk in f.blocks.values():
                br = f.branch(blk)
                if not br:
                    continue
                for pol, tgt in ((True, br[1]), (False, br[2])):
                    ats = atoms(br[0], pol)
                    if len(ats) != 1 or tgt is None:
                        continue
                    op, l, rr = norm_cmp(ats[0][0], ats[0][1])
                    if l is None or op not in neg:
                        continue
                    if (neg[op], render(strip(l)), render(strip(rr)) if rr is not None else None) in known:
                        avoid.add((blk.id, tgt))

            def removal(el, fam=fam, table=table):
                if el["k"] != "call":
                    return False
                cc = el["e"]
                cn = cc.get("callee") or ""
                if cn in ("ares_htable_%s_remove" % fam, "ares_htable_%s_destroy" % fam) and cc.get("args") and render(strip(cc["args"][0])) == table:
                    return True
                return False

            def release(el, on=on):
                if el["k"] != "call":
                    return None
                cc = el["e"]
                for k2, a in enumerate(cc.get("args", [])):
                    if is_var(strip(a), on):
                        if cc.get("callee") == "ares_free":
                            return "ares_free(%s)" % on
                        t = prog.resolve(f, cc)
                        if t is not None and _frees_param(prog, t, k2) and not any(x.endswith(("_remove", "_node_claim", "_node_destroy")) for x in _callee_names(prog, t)):
                            return "%s(%s), which frees it without taking it out of any table" % (t.name, on)
                return None

            pred = reach_avoiding(f, b.id, avoid, removal, i + 1)
            hit = None
            for bid in [b.id] + list(pred):
                blk = f.blocks[bid]
                lo = i + 1 if (bid == b.id and bid not in pred) else 0
                for j in range(lo, len(blk.els)):
                    if removal(blk.els[j]):
                        break
                    w = release(blk.els[j])
                    if w:
                        hit = (blk, j, w)
                        break
                if hit:
                    break
            k = "fn=%s %s(%s, .., %s) undone before release" % (f.name, c["callee"], table, on)
            if hit:
                blk, j, w = hit
                r.viol(k, f.name, f.loc(blk.els[j]), "after %s succeeded, a path reaches %s without ares_htable_%s_remove(%s, ..): the table keeps a pointer to freed memory and the next lookup of that key reads it" % (c["callee"], w, fam, table),
                       trail=[f.loc(c["ln"])] + [f.loc(f.blocks[x].els[0]) for x in trail_to(pred, blk.id, b.id) if f.blocks[x].els][:8])
            else:
                r.ok(k, f.loc(c["ln"]))
    r.require(nsites >= 6, "fewer hash-table insert sites than confirmed by hand (%d)" % nsites)


_LINS = ("ares_llist_insert_first", "ares_llist_insert_last", "ares_slist_insert")
_LUNDO = ("ares_llist_node_claim", "ares_llist_node_destroy", "ares_slist_node_claim", "ares_slist_node_destroy", "ares_llist_destroy", "ares_slist_destroy",
          "ares_llist_clear")


def r_undolist(prog, R):
    r = R.rule("R-C14-UNDOLIST", "an object released on a failure path was first taken out of the linked list / skip list it had been put into: no path on which "
               "ares_llist_insert_first/last or ares_slist_insert(list, obj) succeeded reaches a release of obj in the same function unless the node was claimed or "
               "destroyed (or the list destroyed) in between; an insert whose result is never tested counts as possibly succeeded", floor=9,
               analysis="disjunctive forward typestate per (function, inserted local): membership {no, ?, in, fail} refined by the tests on the insert's result (directly or "
                        "through the variable holding the node), crossed with the S/F value of the function's status variable so that the `if (status != ARES_SUCCESS)` "
                        "unwind after the last fallible step is not walked on the success path")
    nsites = 0
    for f in sorted(prog.funcs.values(), key=lambda x: x.key):
        if not f.file.startswith("src/lib/") or f.file.startswith("src/lib/dsa/"):
            continue
        sites = {}
        for b, i, c in f.calls():
            if c.get("callee") in _LINS and len(c.get("args", [])) >= 2:
                obj = strip(c["args"][1])
                if obj is not None and obj.get("k") == "var" and (obj.get("ty") or "").rstrip().endswith("*"):
                    sites.setdefault(obj["n"], []).append(c)
        if not sites:
            continue
        status_var = None
        for v in list(f.params) + [v for _, _, el in f.elements() if el["k"] == "decl" for v in el["vars"]]:
            if (v.get("ty") or "") in ("ares_status_t", "enum ares_status_t") or (v.get("tyw") or "") == "ares_status_t":
                status_var = v["n"]
                break
        for on, cs in sorted(sites.items()):
            ids = {c["id"] for c in cs}
            lists = {render(strip(c["args"][0])) for c in cs}
            holders = set()
            for b, i, el in f.elements():
                if el["k"] == "asg" and el["e"]["op"] == "=" and el["e"].get("r") is not None:
                    rr = strip(el["e"]["r"])
                    if rr is not None and rr.get("k") == "call" and rr.get("id") in ids and path(el["e"]["l"]) is not None:
                        holders.add(path(el["e"]["l"]))
                elif el["k"] == "decl":
                    for v in el["vars"]:
                        rr = strip(v.get("init")) if v.get("init") else None
                        if rr is not None and rr.get("k") == "call" and rr.get("id") in ids:
                            holders.add(v["n"])

            def releases(el, on=on):
                if el["k"] != "call":
                    return None
                cc = el["e"]
                for k2, a in enumerate(cc.get("args", [])):
                    if is_var(strip(a), on):
                        if cc.get("callee") == "ares_free":
                            return "ares_free(%s)" % on
                        t = prog.resolve(f, cc)
                        if t is not None and _frees_param(prog, t, k2) and not any(x.endswith(("_node_claim", "_node_destroy")) for x in _callee_names(prog, t)):
                            return "%s(%s), which frees it without unlinking it" % (t.name, on)
                return None

            hits = {}

            def transfer(st, blk, i, el, on=on, ids=ids, lists=lists):
                ins, status = st
                if el["k"] == "call":
                    c = el["e"]
                    if c.get("id") in ids:
                        return [("?", status)]
                    if c.get("callee") in _LUNDO and ins in ("?", "in"):
                        whole = not c["callee"].endswith(("_node_claim", "_node_destroy"))
                        if not whole or (c.get("args") and render(strip(c["args"][0])) in lists):
                            return [("no", status)]
                    if ins in ("?", "in"):
                        w = releases(el)
                        if w:
                            hits.setdefault((blk.id, i), (w, ins))
                            return []
                elif el["k"] in ("asg", "decl"):
                    if el["k"] == "asg" and el["e"]["op"] == "=" and is_var(strip(el["e"]["l"]), on):
                        ins = "no"          # the local now names another object (next loop round)
                    if status_var is not None:
                        tgt = []
                        if el["k"] == "asg" and el["e"]["op"] == "=" and is_var(el["e"]["l"], status_var):
                            tgt = [el["e"]["r"]]
                        elif el["k"] == "decl":
                            tgt = [v.get("init") for v in el["vars"] if v["n"] == status_var and v.get("init")]
                        for rhs in tgt:
                            v = sf_of_expr(rhs)
                            if v is not None:
                                status = v
                            else:
                                return [(ins, "S"), (ins, "F")]
                return [(ins, status)]

            def refine(st, cond, pol, blk=None, ids=ids, holders=holders):
                ins, status = st
                if status_var is not None and status in ("S", "F"):
                    if refine_sf(status, cond, pol, status_var) is None:
                        return None
                for c, p in atoms(cond, pol):
                    op, l, rr = norm_cmp(c, p)
                    ls = strip(l)
                    if ls is None:
                        continue
                    isres = (ls.get("k") == "call" and ls.get("id") in ids) or (path(ls) is not None and path(ls) in holders)
                    if not isres:
                        continue
                    nonnull = None
                    if op == "truth" or (op == "!=" and rr is not None and is_null(rr)):
                        nonnull = True
                    elif op == "false" or (op == "==" and rr is not None and is_null(rr)):
                        nonnull = False
                    if nonnull is None:
                        continue
                    if ins == "?":
                        ins = "in" if nonnull else "fail"
                    elif ins == "in" and not nonnull:
                        return None
                    elif ins == "fail" and nonnull:
                        return None
                return (ins, status)

            forward_states(f, ("no", "S" if status_var is None else "?"), _split_unknown(transfer), refine)
            nsites += 1
            k = "fn=%s %s into a list undone before release" % (f.name, on)
            if hits:
                (bid, j), (w, ins) = sorted(hits.items())[0]
                blk = f.blocks[bid]
                r.viol(k, f.name, f.loc(blk.els[j]), "after %s(.., %s) %s, a path reaches %s without the node being claimed: the list keeps a pointer to freed memory" % (
                    cs[0]["callee"], on, "succeeded" if ins == "in" else "was called (result never tested)", w), trail=[f.loc(cs[0]["ln"])])
            else:
                r.ok(k, f.loc(cs[0]["ln"]))
    r.require(nsites >= 9, "fewer list insert sites of local objects than confirmed by hand (%d)" % nsites)


def _split_unknown(transfer):
    """the initial status '?' stands for both values"""
    def t(st, blk, i, el):
        if st[1] == "?":
            out = []
            for s in ("S", "F"):
                for n in transfer((st[0], s), blk, i, el):
                    if n not in out:
                        out.append(n)
            return out
        return transfer(st, blk, i, el)
    return t


_ALLOCS = ("ares_strdup", "ares_malloc", "ares_malloc_zero", "ares_buf_create", "ares_llist_create", "ares_array_create", "ares_slist_create")


def r_allocchk(prog, R):
    r = R.rule("R-C14-ALLOCCHK", "the result of an allocation stored into a member of an object is tested in the function that stores it: an untested NULL member is later read as "
               "'empty' (the compression table's name) or dereferenced, i.e. an allocation failure is not reported but turned into wrong output", floor=60,
               analysis="every `obj->member = <allocator>(..)` store in src/lib; the member must occur in a branch condition of the same function (76 of 77 sites did on the pinned tree; the "
                        "77th was the defect)")
    n = 0
    for f in sorted(prog.funcs.values(), key=lambda x: x.key):
        if not f.file.startswith("src/lib/"):
            continue
        conds = None
        for b, i, el in f.elements():
            if el["k"] != "asg" or el["e"]["op"] != "=":
                continue
            l, rr = strip(el["e"]["l"]), strip(el["e"].get("r"))
            if l is None or l.get("k") != "mem" or rr is None or rr.get("k") != "call":
                continue
            c = f.call_by_id(rr["id"])[2] if rr.get("ref") else rr
            if c.get("callee") not in _ALLOCS:
                continue
            n += 1
            if conds is None:
                conds = [render(f.branch(blk)[0]) for blk in f.blocks.values() if f.branch(blk)]
            lt = render(l)
            k = "fn=%s %s tested after %s" % (f.name, lt, c["callee"])
            if any(lt in ct for ct in conds):
                r.ok(k, f.loc(el))
            else:
                r.viol(k, f.name, f.loc(el), "%s stores the result of %s in %s and never tests it: when that allocation fails the function reports success with a NULL member, which its readers take for an "
                       "empty value or dereference" % (f.name, c["callee"], lt))
    r.info["sites"] = n


_REL = ("ares_free", "ares_dns_record_destroy", "ares_buf_destroy", "ares_llist_destroy", "ares_array_destroy", "ares_free_hostent", "ares_freeaddrinfo")


def _releases_member(prog, g, k, fld):
    """g releases the member `fld` of its k-th parameter"""
    if k >= len(g.params):
        return False
    pn = g.params[k]["n"]
    names = {pn}
    for b, i, el in g.elements():
        if el["k"] == "decl":
            for v in el["vars"]:
                if v.get("init") is not None and is_var(strip(v["init"]), pn):
                    names.add(v["n"])
        if el["k"] == "asg" and el["e"]["op"] == "=" and is_var(strip(el["e"].get("r")), pn) and is_var(strip(el["e"]["l"])):
            names.add(strip(el["e"]["l"])["n"])
    for b, i, c in g.calls():
        if c.get("callee") in _REL and c.get("args"):
            a = strip(c["args"][0])
            if a is not None and a.get("k") == "mem" and a["f"] == fld and is_var(strip(a["b"])) and strip(a["b"])["n"] in names:
                return True
    return False


def r_borrowed(prog, R):
    r = R.rule("R-C14-BORROWED", "an object that keeps one of the function's pointer parameters in a member (entry->dnsrec = qresp) is not handed to a destructor that releases that member "
               "unless the member was reset first: until the function succeeds the parameter still belongs to the caller, which releases it again on failure", floor=10,
               analysis="path search from the store of a parameter into a member to a call that releases that member of the same object, the reset of the member as barrier")
    n = 0
    for f in sorted(prog.funcs.values(), key=lambda x: x.key):
        if not f.file.startswith("src/lib/") or f.file.startswith(("src/lib/dsa/", "src/lib/str/")):
            continue
        if (f.retw or f.ret) not in ("ares_status_t", "int"):
            continue
        for b, i, el in f.elements():
            if el["k"] != "asg" or el["e"]["op"] != "=":
                continue
            l, rr = strip(el["e"]["l"]), strip(el["e"].get("r"))
            if l is None or l.get("k") != "mem" or not is_var(strip(l["b"])) or strip(l["b"]).get("vk") != "local":
                continue
            if not (is_var(rr) and rr.get("vk") == "param" and (rr.get("ty") or "").rstrip().endswith("*")):
                continue
            obj, fld = strip(l["b"])["n"], l["f"]
            sites = []
            for b2, i2, c in f.calls():
                for k, a in enumerate(c.get("args", [])):
                    if is_var(strip(a), obj):
                        t = prog.resolve(f, c)
                        if t is not None and _releases_member(prog, t, k, fld):
                            sites.append((b2, i2, c, t))
            n += 1
            if not sites:
                r.ok("fn=%s %s->%s = %s: the object is not handed to a destructor of that member here" % (f.name, obj, fld, rr["n"]), f.loc(el), nontrivial=False)
                continue
            reset = lambda e2, obj=obj, fld=fld: e2["k"] == "asg" and is_null(e2["e"].get("r")) and strip(e2["e"]["l"]).get("k") == "mem" and strip(e2["e"]["l"])["f"] == fld and is_var(strip(strip(e2["e"]["l"])["b"]), obj)
            pred = reach_avoiding(f, b.id, (), reset, i + 1)
            for b2, i2, c, t in sites:
                k_ = "fn=%s %s->%s = %s not released through %s" % (f.name, obj, fld, rr["n"], t.name)
                reach = (b2.id in pred) or (b2.id == b.id and i2 > i)
                if reach:
                    blk = f.blocks[b2.id]
                    lo = i + 1 if b2.id == b.id and b2.id not in pred else 0
                    if any(reset(blk.els[j]) for j in range(lo, i2)):
                        reach = False
                if reach:
                    r.viol(k_, f.name, f.loc(c["ln"]), "%s stores its parameter '%s' in %s->%s and can hand %s to %s, which releases that member, without having reset it: the caller still owns '%s' "
                           "(ownership passes on success only), uses it afterwards and releases it a second time" % (f.name, rr["n"], obj, fld, obj, t.name, rr["n"]))
                else:
                    r.ok(k_, f.loc(c["ln"]))
    r.info["parameter_in_member_with_destructor"] = n


_MAKERS = ("dup", "create", "alloc", "strdup", "malloc", "new")


def r_shellfree(prog, R):
    r = R.rule("R-C14-SHELLFREE", "an object one of whose members already holds an allocation is not released with a bare ares_free(): between the store of an allocation result into "
               "obj->member (on the path on which it is non-NULL) and ares_free(obj) the member is released, or the object goes through its destructor", floor=5,
               analysis="path search from `obj->member = <maker>()` to ares_free(obj), the member's release as barrier, NULL edges of tests of that member pruned")
    n = 0
    for f in sorted(prog.funcs.values(), key=lambda x: x.key):
        if not f.file.startswith("src/lib/") or f.file.startswith(("src/lib/dsa/",)):
            continue
        frees = [(b, i, c) for b, i, c in f.calls() if c.get("callee") == "ares_free" and c.get("args") and is_var(strip(c["args"][0]))]
        if not frees:
            continue
        fills = []
        for b, i, el in f.elements():
            if el["k"] == "asg" and el["e"]["op"] == "=":
                l, rr = strip(el["e"]["l"]), strip(el["e"].get("r"))
                if l is None or l.get("k") != "mem" or not is_var(strip(l["b"])) or rr is None or rr.get("k") != "call":
                    continue
                c0 = f.call_by_id(rr["id"])[2] if rr.get("ref") else rr
                cn = c0.get("callee") or ""
                if any(m in cn for m in _MAKERS) and (l.get("ty") or "").rstrip().endswith("*"):
                    fills.append((b, i, el, l, cn, []))
            elif el["k"] == "call":
                cn = el["e"].get("callee") or ""
                if not any(m in cn for m in _MAKERS):
                    continue
                tm = prog.resolve(f, el["e"])
                if tm is None or not tm.file.startswith("src/lib/") or (tm.retw or tm.ret) != "ares_status_t":
                    continue      # only the library's own makers: their status convention is known
                for a in el["e"].get("args", []):
                    a2 = strip(a)
                    if a2 is not None and a2.get("k") == "un" and a2["op"] == "&" and strip(a2["e"]) is not None and strip(a2["e"]).get("k") == "mem" and is_var(strip(strip(a2["e"])["b"])):
                        # filled through an out-parameter: only on the edge on which the maker reported success
                        fe = []
                        for g in call_result_branches(f, cn):
                            if g["call"].get("id") == el["e"].get("id"):
                                pe = status_pass_edge(g)
                                if pe:
                                    fe.append((g["block"].id, pe[1]))
                        fills.append((b, i, el, strip(a2["e"]), cn, fe))
        for b, i, el, l, cn, fail_edges in fills:
            obj, lt = strip(l["b"])["n"], render(l)
            targets = [(b2, i2, c) for b2, i2, c in frees if strip(c["args"][0])["n"] == obj]
            if not targets:
                continue
            n += 1
            avoid = list(fail_edges)
            for blk in f.blocks.values():
                br = f.branch(blk)
                if not br:
                    continue
                for pol, tgt in ((True, br[1]), (False, br[2])):
                    if tgt is None:
                        continue
                    ats = atoms(br[0], pol)
                    for cc, p_ in ats:
                        op, l2, r2 = norm_cmp(cc, p_)
                        if render(strip(l2)) == lt and (op == "false" or (op == "==" and r2 is not None and is_null(r2))) and len(ats) == 1:
                            avoid.append((blk.id, tgt))

            def barrier(e2, lt=lt, obj=obj):
                if e2["k"] == "asg" and render(strip(e2["e"]["l"])) == lt:
                    return True
                if e2["k"] == "call":
                    if any(render(strip(a)) == lt for a in e2["e"].get("args", [])) and ((e2["e"].get("callee") or "") == "ares_free" or (e2["e"].get("callee") or "").endswith(("_free", "_destroy", "_free_string"))):
                        return True
                    if e2["e"].get("callee") != "ares_free" and any(is_var(strip(a), obj) for a in e2["e"].get("args", [])) and (e2["e"].get("callee") or "").endswith(("_free", "_destroy", "free_query", "_cb")):
                        return True
                return False
            pred = reach_avoiding(f, b.id, avoid, barrier, i + 1)
            hit = None
            for b2, i2, c in targets:
                ok_reach = (b2.id in pred) or (b2.id == b.id and i2 > i)
                if ok_reach:
                    blk = f.blocks[b2.id]
                    lo = i + 1 if (b2.id == b.id and b2.id not in pred) else 0
                    if not any(barrier(blk.els[j]) for j in range(lo, i2)):
                        hit = c
            k = "fn=%s %s released before ares_free(%s)" % (f.name, lt, obj)
            if hit is not None:
                r.viol(k, f.name, f.loc(hit["ln"]), "%s fills %s from %s and can then release '%s' with a bare ares_free() while that member still holds the allocation: it is leaked (the object's "
                       "destructor, or a release of the member, belongs in front)" % (f.name, lt, cn, obj))
            else:
                r.ok(k, f.loc(el))
    r.info["filled_members_with_bare_free_in_function"] = n


def run(prog, R, tier):
    R.assume("a store into a struct field transfers ownership iff the library releases objects through that field somewhere (inferred), plus 9 container link fields")
    files = None if tier == "thorough" else ANCHORED
    ownrules.own_rule(prog, R, "R-C14-OWN", files, floor=40 if files else 120, include_contract=True)
    r_prealloc(prog, R)
    r_allocpath(prog, R)
    r_requeue(prog, R)
    r_counted(prog, R)
    ownrules.realloc_rule(prog, R, "R-C14-REALLOC")
    r_allocout(prog, R)
    r_registered(prog, R)
    r_undo(prog, R)
    r_undolist(prog, R)
    r_allocchk(prog, R)
    r_borrowed(prog, R)
    r_shellfree(prog, R)
    E = effects.Effects(prog)
    C01.r_once(prog, R, E, rid="R-C14-ONCE")
