"""C08 — the query cache only replays fresh, matching, successful answers."""
from lib import *  # noqa

TECHNIQUE = ("insert-filter dominance (value-set of rcode, guard facts, clamp pattern), key-composition table, expire-before-lookup ordering, field-discipline census of rr->ttl readers with 'decrement exactly once', flush-on-change must-pass-through"
             ", sentinel typestate to the expiry store, dataflow + injectivity of every key component")
LEVEL_TEXT = ("static: decides on every path (a) the insert filter (rcode in {NOERROR,NXDOMAIN}, not truncated, ttl capped by max_ttl, ttl==0 never cached, "
              "expiry = now+ttl), (b) what the key is composed of and that the map is case-insensitive, (c) expire-before-lookup and decrement-before-hand-out, "
              "(d) that no reader of a record TTL bypasses the cache age and none applies it twice, (e) that every server-set mutation and a successful "
              "reinit flush the cache. Does not decide numeric expiry boundaries over virtual time.")
# fifth-round additions
TECHNIQUE += "; " + 'typestate over ares_servers_update extended to position changes and to every return (failure paths included)'
LEVEL_TEXT += " " + '(FLUSH) adding, removing or moving a server makes the update dirty, and a dirty update is flushed on every return, also one that reports an error after part of the change was made.'
# seventh-round addition
TECHNIQUE += "; exact evaluation of calc_minttl's section loop and skip condition for every (section, record type) pair of the public enums"
LEVEL_TEXT += (" (FILTER, seventh round) the TTL minimum is taken over the answer, authority and additional sections and over every record type except OPT, SIG and an SOA outside the "
               "answer section, decided by interpreting the function's own conditions for all 3 x 20 pairs.")
# seventh/eighth-round addition
TECHNIQUE += "; " + 'exact evaluation of the lifetime decision of ares_qcache_insert_int over (rcode, TC, smallest TTL, SOA lifetime, max_ttl) with the callee results as inputs (R-C08-LIFETIME) and of the expiry comparator over 81 pairs of expiry times (R-C08-ORDER)'
LEVEL_TEXT += " " + "(LIFETIME, seventh round) the stored lifetime is, for every combination of response code, truncation, smallest record TTL or none, SOA negative lifetime or none, and max_ttl in {0, 3, 3600}, no longer than the response's own TTLs allow -- one row (NOERROR with an authority SOA and other TTLs) is a known finding; (ORDER) the expiry index is ordered by a total order also for lifetimes more than 2^31 s apart."
LEVEL_NOTE = "trusts clang CFG + extractor; rr->ttl readers are enumerated over the whole library (field access by record type, not by name)"
DESIGN_REF = "DESIGN.md §6/C08"
EXPLANATION = LEVEL_TEXT
NOT_DECIDED = "numeric expiry over time; lifetime values of negative answers"


def r_filter(prog, R):
    r = R.rule("R-C08-FILTER", "nothing enters the cache unless rcode/TC/ttl filters passed", floor=8, analysis="A-VS + A-DOM")
    f = prog.func("ares_qcache_insert_int")
    inserts = [x for x in f.calls() if x[2].get("callee") in ("ares_htable_strvp_insert", "ares_slist_insert")]
    if not r.require(len(inserts) == 2, "ares_qcache_insert_int: expected the map insert and the expiry-list insert"):
        return
    resp = f.params[1]["n"]
    # sources of rcode / flags
    src = {}
    for b, i, el in f.elements():
        if el["k"] == "decl":
            for v in el["vars"]:
                if v.get("init") is not None:
                    src.setdefault(v["n"], []).append(v["init"])
        elif el["k"] == "asg" and el["e"]["op"] == "=":
            p = path(el["e"]["l"])
            if p:
                src.setdefault(p, []).append(el["e"]["r"])

    def from_call_on_resp(var, callee):
        ss = src.get(var, [])
        if len(ss) != 1:
            return False
        c = strip(ss[0])
        if c.get("k") != "call" or c.get("callee") != callee:
            return False
        full = f.call_by_id(c["id"])
        return full is not None and is_var(call_arg(full[2], 0), resp)
    # the lifetime of every stored entry is bounded by the smallest TTL the response itself carries, whatever its rcode
    mins = f.calls_to("ares_qcache_calc_minttl")
    k = "lifetime bounded by the response's own TTLs on every path"
    exp = [(b, i, el) for b, i, el in f.elements() if el["k"] == "asg" and is_field(el["e"]["l"], "expire_ts")]
    if not mins or not exp:
        r.viol(k, f.name, f.loc(f.ln), "ares_qcache_insert_int does not compute the minimum TTL of the response's records")
    else:
        eb, ei, eel = exp[0]
        t = can_reach_from_entry_avoiding(f, eb, ei, lambda e2: e2["k"] == "call" and e2["e"].get("callee") == "ares_qcache_calc_minttl")
        used = True
        for mb, mi, mc in mins:
            h = None
            blk = mb
            for j in range(mi + 1, len(blk.els)):
                e2 = blk.els[j]
                rr = None
                if e2["k"] == "asg" and e2["e"]["op"] == "=":
                    rr, nm = strip(e2["e"].get("r")), path(e2["e"]["l"])
                elif e2["k"] == "decl":
                    for v in e2["vars"]:
                        if v.get("init") is not None and strip(v["init"]).get("k") == "call" and strip(v["init"]).get("id") == mc.get("id"):
                            rr, nm = strip(v["init"]), v["n"]
                if rr is not None and rr.get("k") == "call" and rr.get("id") == mc.get("id"):
                    h = nm
                    break
            if h is None:
                used = False
            elif h != "ttl":
                # a separate variable: it must be compared against ttl and assigned to it
                okc = any(e2["k"] == "asg" and is_var(strip(e2["e"]["l"]), "ttl") and h in [v["n"] for v in vars_in(e2["e"].get("r"))] for _, _, e2 in f.elements())
                used = used and okc
        if t is not None:
            r.viol(k, f.name, f.loc(eel), "a response can be stored with a lifetime that never looked at the TTLs of its own records (e.g. an NXDOMAIN whose lifetime comes from the SOA alone although it carries a short-lived CNAME): it is replayed after those records have expired", trail=trail_lines(f, t))
        elif not used:
            r.viol(k, f.name, f.loc(eel), "the minimum TTL of the response's records is computed but does not limit the stored lifetime")
        else:
            r.ok(k, f.loc(eel))
    if from_call_on_resp("rcode", "ares_dns_record_get_rcode"):
        r.ok("rcode-of-response", f.loc(f.ln))
    else:
        r.viol("rcode-of-response", f.name, f.loc(f.ln), "rcode used by the filter is not ares_dns_record_get_rcode(<response>)")
    if from_call_on_resp("flags", "ares_dns_record_get_flags"):
        r.ok("flags-of-response", f.loc(f.ln))
    else:
        r.viol("flags-of-response", f.name, f.loc(f.ln), "flags used by the filter are not ares_dns_record_get_flags(<response>)")
    vs = ValueSets(prog, f, names={"rcode"})
    mf = MustFacts(f)
    for b, i, c in inserts:
        key = c["callee"]
        sts = vs.states_at(b, i)
        rc = set()
        for st in sts:
            rc |= set(vs.get(st, "rcode") or ())
        if not sts:
            r.broke("insert %s unreachable in value-set analysis" % key)
        elif rc <= {"ARES_RCODE_NOERROR", "ARES_RCODE_NXDOMAIN"}:
            r.ok("rcode-filter@" + key, f.loc(c["ln"]), note="rcode in %s" % sorted(rc))
        else:
            r.viol("rcode-filter@" + key, f.name, f.loc(c["ln"]), "a response with rcode %s can be cached" % sorted(rc - {"ARES_RCODE_NOERROR", "ARES_RCODE_NXDOMAIN"})[:4])
        facts = mf.cond_facts_at(b, i)
        if any((not p) and is_flag_test(cc, lambda x: is_var(x, "flags"), "ARES_FLAG_TC") for cc, p in facts):
            r.ok("tc-filter@" + key, f.loc(c["ln"]))
        else:
            r.viol("tc-filter@" + key, f.name, f.loc(c["ln"]), "a truncated response can be cached (no dominating !(flags & ARES_FLAG_TC))")
        if cond_holds(facts, lambda op, l, rr: op == "!=" and is_var(l, "ttl") and const_val(rr) == 0) or \
                cond_holds(facts, lambda op, l, rr: op in (">",) and is_var(l, "ttl") and const_val(rr) == 0):
            r.ok("ttl-zero-filter@" + key, f.loc(c["ln"]))
        else:
            r.viol("ttl-zero-filter@" + key, f.name, f.loc(c["ln"]), "an answer with ttl 0 (or max_ttl 0) can be cached")
        caps = [cl for cl in find_clamps(f, "ttl") if cl["kind"] == "cap" and is_field(cl["bound"], "max_ttl")]
        okcap = False
        for cl in caps:
            tb, ti = cl["asg"]
            later = [w for w in f.elements() if w[2]["k"] == "asg" and path(w[2]["e"]["l"]) == "ttl" and (w[0].id, w[1]) in reach_after(f, tb.id, ti)]
            if cl["block"].id in f.dominators().get(b.id, ()) and not later:
                okcap = True
        if okcap:
            r.ok("max-ttl-cap@" + key, f.loc(c["ln"]))
        else:
            r.viol("max-ttl-cap@" + key, f.name, f.loc(c["ln"]), "ttl not capped by qcache->max_ttl on every path to the insert (or modified after the cap)")
    # ttl source per rcode
    asg = [(b, i, el) for b, i, el in f.elements() if el["k"] == "asg" and el["e"]["op"] == "=" and is_var(el["e"]["l"], "ttl") and strip(el["e"]["r"]).get("k") == "call"]
    names = {}
    for b, i, el in asg:
        cal = strip(el["e"]["r"])["callee"]
        sts = vs.states_at(b, i)
        rc = set()
        for st in sts:
            rc |= set(vs.get(st, "rcode") or ())
        names[cal] = rc
    if names.get("ares_qcache_soa_minimum") == {"ARES_RCODE_NXDOMAIN"} and "ARES_RCODE_NXDOMAIN" not in names.get("ares_qcache_calc_minttl", {"ARES_RCODE_NXDOMAIN"}):
        r.ok("ttl-source", f.loc(f.ln), note=str({k: sorted(v)[:3] for k, v in names.items()}))
    else:
        r.viol("ttl-source", f.name, f.loc(f.ln), "ttl source per rcode changed: %s (negative answers must use the SOA minimum, others the minimum RR ttl)" % {k: sorted(v)[:3] for k, v in names.items()})
    # expire_ts = now + ttl ; insert_ts = now
    ex = [(b, i, el) for b, i, el in f.elements() if el["k"] == "asg" and is_field(el["e"]["l"], "expire_ts")]
    okx = False
    for b, i, el in ex:
        rr = strip(el["e"]["r"])
        vs_ = {path(n) for n in walk(rr) if path(n)}
        if rr.get("k") == "bin" and rr["op"] == "+" and "ttl" in vs_ and "now->sec" in vs_:
            okx = True
    if okx:
        r.ok("expire=now+ttl", f.loc(ex[0][2]))
    else:
        r.viol("expire=now+ttl", f.name, f.loc(f.ln), "entry->expire_ts is not now->sec + ttl")
    ins = [(b, i, el) for b, i, el in f.elements() if el["k"] == "asg" and is_field(el["e"]["l"], "insert_ts")]
    if ins and any("now->sec" in render(el["e"]["r"]) and "ttl" not in render(el["e"]["r"]) for _, _, el in ins):
        r.ok("insert_ts=now", f.loc(ins[0][2]))
    else:
        r.viol("insert_ts=now", f.name, f.loc(f.ln), "entry->insert_ts is not now->sec (cache age would be wrong)")
    # an accepted response is held by exactly one entry whose lifetime was computed from it:
    # (1) success is reported only after both inserts, (2) every store of a record into an entry is
    # accompanied by stores of that entry's expire_ts and insert_ts
    mfx = MustFacts(f)
    for b, i, el in f.returns():
        if name_of_const(el.get("e")) == "ARES_SUCCESS":
            miss = [nm for nm in ("ares_htable_strvp_insert", "ares_slist_insert") if not mfx.passed_call(b, i, nm)]
            if miss:
                r.viol("success=>inserted", f.name, f.loc(el), "success (cache took ownership) reported without %s: the response is held under a lifetime that was not computed for it" % miss)
            else:
                r.ok("success=>inserted", f.loc(el))
    for g, b, i, el, n, w in field_accesses(prog, "ares_qcache_entry_t", "dnsrec"):
        if not w:
            continue
        base = path(n["b"])
        for fld in ("expire_ts", "insert_ts"):
            def wr(e2, fld=fld, base=base):
                return e2["k"] == "asg" and is_field(e2["e"]["l"], fld) and path(strip(e2["e"]["l"])["b"]) == base
            before = can_reach_from_entry_avoiding(g, b, i, wr) is None
            after = can_reach_exit_avoiding(g, b, i, wr) is None
            key = "entry-record-with-%s@%s" % (fld, g.name)
            if before or after:
                r.ok(key, g.loc(el))
            else:
                r.viol(key, g.name, g.loc(el), "a response is stored into cache entry '%s' without setting its %s: it would be replayed under another response's lifetime" % (base, fld))
    # calc_minttl: takes the minimum; soa_minimum: min(MINIMUM, ttl)
    g = prog.func("ares_qcache_calc_minttl")
    fl = [cl for cl in find_clamps(g, "minttl")]
    lows = []
    for bid in g.rpo():
        br = g.branch(bid)
        if br:
            c0 = strip(br[0])
            if c0.get("k") == "bin" and c0["op"] in ("<", "<=") and is_var(c0["l"], "ttl") and is_var(c0["r"], "minttl"):
                tb = g.blocks[br[1]]
                if any(el["k"] == "asg" and is_var(el["e"]["l"], "minttl") and is_var(el["e"]["r"], "ttl") for el in tb.els):
                    lows.append(bid)
    if lows:
        r.ok("minttl-is-minimum", g.loc(g.ln))
    else:
        r.viol("minttl-is-minimum", g.name, g.loc(g.ln), "calc_minttl no longer keeps the smallest TTL (ttl < minttl -> minttl = ttl)")
    _minttl_domain(prog, r, g, lows)
    s = prog.func("ares_qcache_soa_minimum")
    oks = False
    for bid in s.rpo():
        br = s.branch(bid)
        if br:
            c0 = strip(br[0])
            if c0.get("k") == "bin" and c0["op"] in (">", ">=") and is_var(c0["l"], "ttl") and is_var(c0["r"], "minimum"):
                t_ret = [el for el in s.blocks[br[1]].els if el["k"] == "ret" and is_var(el.get("e"), "minimum")]
                f_ret = [el for el in s.blocks[br[2]].els if el["k"] == "ret" and is_var(el.get("e"), "ttl")]
                if t_ret and f_ret:
                    oks = True
    if oks:
        r.ok("soa-min(minimum,ttl)", s.loc(s.ln))
    else:
        r.viol("soa-min(minimum,ttl)", s.name, s.loc(s.ln), "negative-cache lifetime is not min(SOA MINIMUM, SOA ttl)")


def _minttl_domain(prog, r, g, lows):
    """which (section, record type) pairs take part in the minimum: decided by walking calc_minttl's own conditions for every section value the
    outer loop produces and every record type of the public enum (evalx.run_cfg; nothing is executed)"""
    import evalx
    k1 = "calc_minttl visits the answer, authority and additional sections"
    k2 = "calc_minttl counts every record type except OPT, SIG and an SOA outside the answer section"
    if not lows:
        return
    want_sect = {it["n"]: it["v"] for it in prog.enum("ares_dns_section_t")["items"]}
    types = {it["n"]: it["v"] for it in prog.enum("ares_dns_rec_type_t")["items"]}
    need = {want_sect.get("ARES_SECTION_ANSWER"), want_sect.get("ARES_SECTION_AUTHORITY"), want_sect.get("ARES_SECTION_ADDITIONAL")}
    incs = [(b, i) for b, i, el in g.elements() if el["k"] == "asg" and el["e"]["op"] in ("++", "+=") and is_var(strip(el["e"]["l"]), "sect")]
    tdecl = [(b, i) for b, i, el in g.elements() if el["k"] == "decl" and any(v["n"] == "type" for v in el["vars"])]
    if not r.require(len(incs) == 1 and len(tdecl) == 1 and None not in need, "calc_minttl: section loop step or the record-type local not found"):
        return
    try:
        sects, out = [], {}
        res = evalx.run_cfg(g, {"sect": 0}, out=out)
        hdr = res[1] if res[0] == "open" else None
        while res[0] == "open" and res[1] == hdr and len(sects) < 8:
            sects.append(out["sect"])
            res = evalx.run_cfg(g, {"sect": out["sect"]}, start=incs[0][0].id, start_idx=incs[0][1], out=out)
        if res[0] != "ret":
            r.broke("calc_minttl: section loop not interpretable (%s)" % (res,))
            return
        if need <= set(sects):
            r.ok(k1, g.loc(g.ln), note="sections %s" % sorted(sects))
        else:
            r.viol(k1, g.name, g.loc(g.ln), "the TTL minimum is taken over sections %s only: a record with a shorter TTL in section %s does not shorten the lifetime, so the response is replayed after "
                   "one of its own records has expired" % (sorted(sects), sorted(need - set(sects))))
        tb, ti = tdecl[0]
        wrong = []
        for sv in sorted(set(sects) & need):
            for tn, tv in sorted(types.items()):
                res = evalx.run_cfg(g, {"sect": sv, "type": tv}, start=tb.id, start_idx=len(tb.els))
                counted = res[0] == "open" and res[1] in lows
                expect = not (tn in ("ARES_REC_TYPE_OPT", "ARES_REC_TYPE_SIG") or (tn == "ARES_REC_TYPE_SOA" and sv != want_sect["ARES_SECTION_ANSWER"]))
                if counted != expect:
                    wrong.append("%s in section %d is %s" % (tn, sv, "counted" if counted else "skipped"))
        if not wrong:
            r.ok(k2, g.loc(g.ln), note="%d (section, type) pairs" % (len(set(sects) & need) * len(types)))
        else:
            r.viol(k2, g.name, g.loc(g.ln), "; ".join(wrong[:4]) + ": a record whose TTL is an ordinary lifetime must bound the cache lifetime; OPT/SIG carry no lifetime in that field")
    except evalx.Unknown as ex:
        r.broke("calc_minttl: not interpretable: %s" % ex)


def r_lifetime(prog, R):
    r = R.rule("R-C08-LIFETIME", "the lifetime a response is stored with is never longer than its own TTLs allow: decision table of ares_qcache_insert_int over rcode, the smallest "
               "record TTL (or none), the negative lifetime of an authority SOA (or none), and max_ttl", floor=5,
               analysis="exact evaluation (evalx.run_cfg) of the function's own statements from entry to the allocation of the cache entry, with the results of "
                        "ares_qcache_calc_minttl / ares_qcache_soa_minimum / the rcode and flag getters supplied as inputs of a finite domain; nothing is executed")
    import evalx
    f = prog.func("ares_qcache_insert_int")
    g = prog.func("ares_qcache_calc_minttl")
    sent = None
    for b, i, el in g.elements():
        if el["k"] == "decl":
            for v in el["vars"]:
                if v["n"] == "minttl" and v.get("init") is not None:
                    sent = const_val(v["init"])
    stops = {(b.id, i) for b, i, c in f.calls() if c.get("callee") in ("ares_malloc_zero", "ares_malloc")}
    stops |= {(b.id, i) for b, i, el in f.elements() if el["k"] == "asg" and "expire_ts" in render(el["e"]["l"])}
    rc = {it["n"]: it["v"] for it in prog.enum("ares_dns_rcode_t")["items"]}
    tc = None
    for it in prog.enum("ares_dns_flags_t")["items"]:
        if it["n"] == "ARES_FLAG_TC":
            tc = it["v"]
    if not r.require(sent is not None and stops and tc is not None and "ARES_RCODE_NOERROR" in rc and "ARES_RCODE_NXDOMAIN" in rc,
                     "insert_int: sentinel of calc_minttl, the entry allocation, ARES_FLAG_TC or the rcode enum not found"):
        return
    locs = {v["n"] for _, _, el in f.elements() if el["k"] == "decl" for v in el["vars"]}

    def stored(rcode, flags, mt, soa, mx):
        env = {n: 0 for n in locs if n not in ("entry",)}
        env.update({"qcache": 1, "qresp": 1, "qcache->max_ttl": mx, "ares_dns_record_get_rcode()": rcode, "ares_dns_record_get_flags()": flags,
                    "ares_qcache_calc_minttl()": mt, "ares_qcache_soa_minimum()": soa})
        env.pop("entry", None)
        out = {}
        res = evalx.run_cfg(f, env, stop_at=stops, out=out, max_steps=48)
        if res[0] == "stop":
            return out.get("ttl")
        if res[0] == "ret":
            return None
        raise evalx.Unknown("walk ended at an undecidable condition in block %s" % (res[1],))

    K = {"nx": "NXDOMAIN: stored for at most min(SOA negative lifetime, smallest record TTL); not stored without an SOA",
         "plain": "NOERROR without an authority SOA: stored for at most the smallest record TTL; not stored when no record carries one",
         "soa": "NOERROR with an authority SOA: stored for at most the SOA's negative lifetime (and the smallest record TTL)",
         "max": "stored lifetime never exceeds max_ttl; max_ttl 0 stores nothing",
         "other": "truncated responses and rcodes other than NOERROR/NXDOMAIN are not stored"}
    bad = {}
    n = 0
    try:
        for rn, rv in sorted(rc.items()):
            for flags in (0, tc):
                if rn in ("ARES_RCODE_NOERROR", "ARES_RCODE_NXDOMAIN") and flags == 0:
                    continue
                n += 1
                t = stored(rv, flags, 600, 600, 3600)
                if t is not None:
                    bad.setdefault("other", "%s%s is stored (lifetime %s)" % (rn, " with TC" if flags else "", t))
        for rn in ("ARES_RCODE_NOERROR", "ARES_RCODE_NXDOMAIN"):
            for mt in (1, 5, 600, sent):
                for soa in (0, 1, 5, 600):
                    for mx in (0, 3, 3600):
                        n += 1
                        t = stored(rc[rn], 0, mt, soa, mx)
                        if rn == "ARES_RCODE_NXDOMAIN":
                            base, key = (0 if soa == 0 else min(soa, mt)), "nx"
                        elif soa == 0:
                            base, key = (0 if mt == sent else mt), "plain"
                        else:
                            base, key = (soa if mt == sent else min(mt, soa)), "soa"
                        what = "%s, smallest record TTL %s, SOA negative lifetime %s, max_ttl %d: stored for %s s" % (
                            rn, "none" if mt == sent else mt, "none" if soa == 0 else soa, mx, t)
                        if t is not None and t > mx or (mx == 0 and t is not None):
                            bad.setdefault("max", what)
                        elif t is not None and (base == 0 or t > base):
                            bad.setdefault(key, what + (" instead of at most %d" % base if base else " instead of not at all"))
    except evalx.Unknown as ex:
        r.broke("insert_int: lifetime decision not interpretable: %s" % ex)
        return
    for k in ("nx", "plain", "soa", "max", "other"):
        if k in bad:
            r.viol(K[k], f.name, f.loc(f.ln), bad[k] + ": the response is replayed after one of its own lifetimes has run out")
        else:
            r.ok(K[k], f.loc(f.ln), note="%d input combinations evaluated" % n)


def r_nottl(prog, R):
    r = R.rule("R-C08-NOTTL", "a response without any TTL-bearing record never gets the 'no TTL found' sentinel as its lifetime", floor=2, analysis="A-VS typestate from the sentinel to the expiry store")
    g = prog.func("ares_qcache_calc_minttl")
    sent = None
    for b, i, el in g.elements():
        if el["k"] == "decl":
            for v in el["vars"]:
                if v["n"] == "minttl" and v.get("init") is not None:
                    sent = const_val(v["init"])
    if not r.require(sent is not None, "calc_minttl: initial value of minttl not found"):
        return
    r.info["sentinel"] = sent
    f = prog.func("ares_qcache_insert_int")

    def from_calc(el):
        if el["k"] != "asg" or not is_var(strip(el["e"]["l"]), "ttl"):
            return None
        rr = strip(el["e"].get("r"))
        if rr is not None and rr.get("k") == "call":
            c = rr
            if c.get("ref"):
                x = f.call_by_id(c["id"])
                c = x[2] if x else c
            return c.get("callee")
        return "<other>"

    def on_el(extra, blk, i, el, get):
        src = from_calc(el)
        if src == "ares_qcache_calc_minttl":
            return ["RAW"]
        if src is not None:
            return ["OK"]
        return [extra]

    def on_edge(extra, blk, cond, pol, get):
        if extra != "RAW":
            return extra
        for c, p in atoms(cond, pol):
            op, l, rr = norm_cmp(c, p)
            if rr is not None and is_var(strip(l), "ttl") and const_val(rr) == sent:
                if op == "==":
                    return "SENT"
                if op == "!=":
                    return "OK"
        return extra
    vs = ValueSets(prog, f, on_el=on_el, on_edge=on_edge, init_extra="OK", cap=2048)
    n = 0
    for b, i, el in f.elements():
        if el["k"] == "asg" and is_field(el["e"]["l"], "expire_ts"):
            n += 1
            bad = [st[1] for st in vs.states_at(b, i) if st[1] in ("RAW", "SENT")]
            if bad:
                r.viol("expiry never computed from the sentinel", f.name, f.loc(el), "the lifetime reaches 'expire_ts = now + ttl' straight from ares_qcache_calc_minttl without the 'no TTL-bearing record' value (%d) having been replaced: a NODATA answer is cached for max_ttl whatever its SOA says" % sent)
            else:
                r.ok("expiry never computed from the sentinel", f.loc(el))
    r.require(n >= 1, "expire_ts store not found")
    # calc_minttl counts an answer-section SOA (its TTL is an ordinary TTL there)
    mf = MustFacts(g, track_calls=False)
    skipped_answer_soa = False
    for b in g.blocks.values():
        br = g.branch(b)
        if br and "ARES_REC_TYPE_SOA" in render(br[0]) and "ARES_SECTION_ANSWER" not in " ".join(render(x.term["cond"]) for x in g.blocks.values() if x.term and x.term.get("cond") is not None):
            skipped_answer_soa = True
    if skipped_answer_soa:
        r.viol("answer-section SOA counts", g.name, g.loc(g.ln), "calc_minttl skips SOA records in every section: an SOA answer is cached for max_ttl (or not at all) instead of for its own TTL")
    else:
        r.ok("answer-section SOA counts", g.loc(g.ln))


def r_key(prog, R):
    r = R.rule("R-C08-KEY", "key = opcode, RD, CD, per question type/class/name; map is case-insensitive; same key function for insert and fetch", floor=9, analysis="A-TAB")
    f = prog.func("ares_qcache_calc_key")
    callees = [c.get("callee") for _, _, c in f.calls()]
    for need, what in (("ares_dns_record_query_get", "question"), ("ares_dns_record_query_cnt", "question count")):
        if need in callees:
            r.ok("key-has:%s" % what, f.loc(f.ln))
        else:
            r.viol("key-has:%s" % what, f.name, f.loc(f.ln), "cache key no longer includes the %s" % what)
    # opcode, question type and question class reach the key buffer, and reach it injectively: either as a number or through a
    # name function that gives every value its own string
    qg = f.calls_to("ares_dns_record_query_get")
    tvar = cvar = None
    if qg:
        for k2, nm in ((3, "t"), (4, "c")):
            a = strip(call_arg(qg[0][2], k2))
            if a is not None and a.get("k") == "un" and a["op"] == "&" and is_var(strip(a["e"])):
                if nm == "t":
                    tvar = strip(a["e"])["n"]
                else:
                    cvar = strip(a["e"])["n"]

    def source(e):
        """which key component an appended expression carries: 'opcode' / 'type' / 'class' / None, and through which name function"""
        via = None
        comp = None
        for n in walk(e):
            if n.get("k") == "call":
                cn = n
                if cn.get("ref"):
                    x = f.call_by_id(cn["id"])
                    cn = x[2] if x else cn
                cal = cn.get("callee") or ""
                if cal.endswith("_tostr"):
                    via = cal
                if cal == "ares_dns_record_get_opcode":
                    comp = "opcode"
                for a in cn.get("args", []):
                    s2 = source(a)
                    if s2[0]:
                        comp = comp or s2[0]
                        via = via or s2[1]
            if n.get("k") == "var":
                if n["n"] == tvar:
                    comp = comp or "question type"
                if n["n"] == cvar:
                    comp = comp or "question class"
        return comp, via
    seen = {}
    for b, i, c in f.calls():
        if not (c.get("callee") or "").startswith("ares_buf_append"):
            continue
        comp, via = source(call_arg(c, 1))
        if comp:
            seen[comp] = (via, c)
    for what in ("opcode", "question type", "question class"):
        if what not in seen:
            r.viol("key-has:%s" % what, f.name, f.loc(f.ln), "cache key no longer includes the %s" % what)
            continue
        via, c = seen[what]
        if via is None:
            r.ok("key-has:%s (numeric)" % what, f.loc(c["ln"]))
            continue
        g = (prog.by_name.get(via) or [None])[0]
        shared = None
        if g is not None:
            # a return of a string constant that is not under a case label (the "UNKNOWN" fall-back) is shared by every value without a case
            case_blocks = set()
            for bb in g.blocks.values():
                if bb.term and bb.term.get("cls") == "SwitchStmt":
                    for succ, vals in g.switch_cases(bb):
                        if isinstance(vals, list):
                            case_blocks.add(succ)
            for bb, ii, el in g.returns():
                e = strip(el.get("e"))
                if e is not None and e.get("k") == "str" and bb.id not in case_blocks:
                    shared = e.get("s")
        if shared is not None:
            r.viol("key-has:%s" % what, f.name, f.loc(c["ln"]), "the %s enters the cache key through %s(), which renders every value it has no name for as \"%s\": two requests that differ only in such a %s share one cache entry and the second is answered with the first one's answer" % (what, via, shared, what))
        else:
            r.ok("key-has:%s (via %s, injective)" % (what, via), f.loc(c["ln"]))
    mf = MustFacts(f)
    flagparts = {}
    for b, i, c in f.calls_to("ares_buf_append_str"):
        a = strip(call_arg(c, 1))
        if a is not None and a.get("k") == "str":
            for cc, p in mf.cond_facts_at(b, i):
                cs = strip(cc)
                if p and cs.get("k") == "bin" and cs["op"] == "&" and is_var(cs["l"], "flags"):
                    flagparts[name_of_const(cs["r"])] = a.get("s")
    for fl in ("ARES_FLAG_RD", "ARES_FLAG_CD"):
        if fl in flagparts:
            r.ok("key-has:%s" % fl, f.loc(f.ln), note=flagparts[fl])
        else:
            r.viol("key-has:%s" % fl, f.name, f.loc(f.ln), "cache key no longer distinguishes %s" % fl)
    if len(set(flagparts.values())) != len(flagparts):
        r.viol("key-flag-tokens-distinct", f.name, f.loc(f.ln), "two flags share one key token: %s" % flagparts)
    extra = set(flagparts) - {"ARES_FLAG_RD", "ARES_FLAG_CD"}
    r.info["key_flag_tokens"] = flagparts
    # name appended with its computed length; trailing dot stripped
    nm = [c for _, _, c in f.calls_to("ares_buf_append") if any(is_var(n, "name") for n in walk(call_arg(c, 1))) and is_var(call_arg(c, 2), "name_len")]
    if nm:
        r.ok("key-has:name", f.loc(nm[0]["ln"]))
    else:
        r.viol("key-has:name", f.name, f.loc(f.ln), "cache key no longer includes the question name (with its computed length)")
    dot = False
    for bid in f.rpo():
        br = f.branch(bid)
        if br:
            c0 = strip(br[0])
            if c0.get("k") == "bin" and c0["op"] == "==" and const_val(c0["r"]) == ord(".") and strip(c0["l"]).get("k") == "idx":
                tb = f.blocks[br[1]]
                if any(el["k"] == "asg" and is_var(el["e"]["l"], "name_len") and el["e"]["op"] in ("--", "-=") for el in tb.els):
                    dot = True
    if dot:
        r.ok("key:trailing-dot-stripped", f.loc(f.ln))
    else:
        r.viol("key:trailing-dot-stripped", f.name, f.loc(f.ln), "trailing '.' no longer stripped from the key name: 'a.b.' and 'a.b' would be cached apart")
    # case-insensitive map
    cr = prog.func("ares_qcache_create")
    mk = [c for _, _, c in cr.calls() if c.get("callee", "").startswith("ares_htable_") and c["callee"].endswith("_create")]
    if [c["callee"] for c in mk] == ["ares_htable_strvp_create"]:
        r.ok("map=strvp", cr.loc(mk[0]["ln"]))
    else:
        r.viol("map=strvp", cr.name, cr.loc(cr.ln), "cache map is not ares_htable_strvp (%s)" % [c["callee"] for c in mk])
    hs = prog.func("hash_func", "dsa/ares_htable_strvp.c")
    eq = prog.func("key_eq", "dsa/ares_htable_strvp.c")
    if any(c.get("callee") == "ares_htable_hash_FNV1a_casecmp" for _, _, c in hs.calls()):
        r.ok("hash-casefold", hs.loc(hs.ln))
    else:
        r.viol("hash-casefold", hs.name, hs.loc(hs.ln), "strvp hash is not the case-folding FNV1a: names differing in case land in different buckets")
    if any(c.get("callee") == "ares_strcaseeq" for _, _, c in eq.calls()):
        r.ok("eq-casefold", eq.loc(eq.ln))
    else:
        r.viol("eq-casefold", eq.name, eq.loc(eq.ln), "strvp key equality is not case-insensitive")
    # same key function on both sides
    for fn, argn in (("ares_qcache_insert_int", 2), ("ares_qcache_fetch", 2)):
        g = prog.func(fn)
        ks = g.calls_to("ares_qcache_calc_key")
        if len(ks) == 1 and is_var(call_arg(ks[0][2], 0), g.params[argn]["n"]):
            r.ok("keyfn@%s" % fn, g.loc(ks[0][2]["ln"]))
        else:
            r.viol("keyfn@%s" % fn, g.name, g.loc(g.ln), "%s does not compute its key with ares_qcache_calc_key(<request>)" % fn)


def _expiry_comparator(prog, r):
    """the expiry index is ordered by a comparator that is a total order on expire_ts: decided by evaluating ares_qcache_entry_sort_cb for pairs around the
    int / unsigned boundaries (a difference squeezed into an int flips its sign for lifetimes more than 2^31 s apart, which max_ttl = 0xFFFFFFFF permits)"""
    import evalx
    f = prog.func("ares_qcache_entry_sort_cb", required=False)
    k = "expiry comparator orders every pair of expiry times (no truncated difference)"
    if f is None:
        r.broke("ares_qcache_entry_sort_cb not found")
        return
    names = [p_["n"] for p_ in f.params]
    loc = {}
    for b, i, el in f.elements():
        if el["k"] == "decl":
            for v in el["vars"]:
                if v.get("init") is not None and strip(v["init"]).get("k") == "var" and strip(v["init"])["n"] in names:
                    loc[strip(v["init"])["n"]] = v["n"]
    if not r.require(len(names) == 2 and len(loc) == 2, "sort_cb: typed locals of the two arguments not found"):
        return
    a_, b_ = loc[names[0]] + "->expire_ts", loc[names[1]] + "->expire_ts"
    vals = (0, 1, 5, 0x7FFFFFFF, 0x80000000, 3000000000, 0xFFFFFFFF, 0x100000005, 1 << 40)
    bad = None
    try:
        for x in vals:
            for y in vals:
                env = {a_: x, b_: y}
                res = evalx.run_cfg(f, env)
                if res[0] != "ret":
                    raise evalx.Unknown("no return reached")
                v = evalx.ev(evalx._leafify(res[1].get("e")), env)
                sg = (v > 0) - (v < 0)
                if sg != (x > y) - (x < y) and bad is None:
                    bad = (x, y, v)
    except evalx.Unknown as ex:
        r.broke("sort_cb not interpretable: %s" % ex)
        return
    if bad is None:
        r.ok(k, f.loc(f.ln), note="%d pairs" % (len(vals) ** 2))
    else:
        r.viol(k, f.name, f.loc(f.ln), "expiry times %d and %d compare as %d: the later entry sorts in front, ares_qcache_expire() stops at it and the expired entries behind it are still replayed" % bad)


def r_order(prog, R):
    r = R.rule("R-C08-ORDER", "expire before lookup, decrement before hand-out, fetch before allocating a query", floor=7, analysis="A-DOM")
    _expiry_comparator(prog, r)
    f = prog.func("ares_qcache_fetch")
    mf = MustFacts(f)
    look = f.calls_to("ares_htable_strvp_get_direct")
    if not r.require(len(look) == 1, "ares_qcache_fetch: lookup not found"):
        return
    b, i, c = look[0]
    if mf.passed_call(b, i, "ares_qcache_expire"):
        r.ok("expire<lookup", f.loc(c["ln"]))
    else:
        r.viol("expire<lookup", f.name, f.loc(c["ln"]), "cache looked up on a path that did not first expire old entries")
    ex = f.calls_to("ares_qcache_expire")
    if ex and is_var(call_arg(ex[0][2], 1), f.params[1]["n"]):
        r.ok("expire-uses-now", f.loc(ex[0][2]["ln"]))
    else:
        r.viol("expire-uses-now", f.name, f.loc(f.ln), "ares_qcache_expire is not given the current time (NULL flushes, anything else is stale)")
    outs = [(bb, ii, el) for bb, ii, el in f.elements() if el["k"] == "asg" and path(el["e"]["l"]) == "*" + f.params[3]["n"]]
    r.require(len(outs) >= 1, "ares_qcache_fetch: hand-out store not found")
    for bb, ii, el in outs:
        if mf.passed_call(bb, ii, "ares_dns_record_ttl_decrement"):
            r.ok("decrement<handout", f.loc(el))
        else:
            r.viol("decrement<handout", f.name, f.loc(el), "cached record handed out without recording its cache age")
    dec = f.calls_to("ares_dns_record_ttl_decrement")
    for bb, ii, cc in dec:
        a = strip(call_arg(cc, 1))
        txt = render(a)
        if "now->sec" in txt and "insert_ts" in txt and any(n.get("k") == "bin" and n["op"] == "-" for n in walk(a)):
            r.ok("decrement=now-insert", f.loc(cc["ln"]))
        else:
            r.viol("decrement=now-insert", f.name, f.loc(cc["ln"]), "cache age passed is '%s', expected now->sec - entry->insert_ts" % txt)
    # expire(): removes while expire_ts <= now
    e = prog.func("ares_qcache_expire")
    okb = False
    for bid in e.rpo():
        br = e.branch(bid)
        if br:
            for cc, p in atoms(br[0], True):
                op, l, rr = norm_cmp(cc, p)
                if rr is not None and is_field(l, "expire_ts") and "now->sec" in render(rr):
                    if op == ">":
                        okb = True
                    else:
                        r.viol("expire-boundary", e.name, e.loc(e.blocks[bid].term["ln"]), "entries are kept while expire_ts %s now: an entry can be replayed at or after its lifetime" % op)
                        okb = None
    if okb:
        r.ok("expire-boundary", e.loc(e.ln))
    elif okb is False:
        r.viol("expire-boundary", e.name, e.loc(e.ln), "expiry comparison 'entry->expire_ts > now->sec' not found")
    rem = {c.get("callee") for _, _, c in e.calls()}
    if {"ares_htable_strvp_remove", "ares_slist_node_destroy"} <= rem:
        r.ok("expire-removes-both", e.loc(e.ln))
    else:
        r.viol("expire-removes-both", e.name, e.loc(e.ln), "expired entries are not removed from both the map and the expiry list")
    # send: fetch dominates allocation; skipped only under NOCACHE
    s = prog.func("ares_send_nolock")
    ms = MustFacts(s)
    fetch = s.calls_to("ares_qcache_fetch")
    if not r.require(len(fetch) == 1, "ares_send_nolock: cache fetch not found"):
        return
    fb, fi, fc = fetch[0]
    facts = ms.cond_facts_at(fb, fi)
    guards = [(cc, p) for cc, p in facts if not is_defensive_fact(s, cc, p) and "ares_slist_len" not in render(cc)]
    if len(guards) == 1 and (not guards[0][1]) and is_flag_test(guards[0][0], lambda x: is_var(x, "flags"), "ARES_SEND_FLAG_NOCACHE"):
        r.ok("fetch-skipped-only-by-NOCACHE", s.loc(fc["ln"]))
    else:
        r.viol("fetch-skipped-only-by-NOCACHE", s.name, s.loc(fc["ln"]), "cache lookup is conditional on %s" % [(render(cc), p) for cc, p in guards])
    # a miss (ENOTFOUND) is the only way past the fetch to the allocation
    for cf, b2, i2, c2 in prog.callers_of("ares_send_nolock"):
        fl = const_names(call_arg(c2, 2))
        key = "nocache-caller=%s" % cf.name
        if "ARES_SEND_FLAG_NOCACHE" in fl:
            if cf.name == "ares_probe_failed_server":
                r.ok(key, cf.loc(c2["ln"]))
            else:
                r.viol(key, cf.name, cf.loc(c2["ln"]), "only server probes may bypass the cache")
        else:
            r.ok(key + "#%d" % c2["id"], cf.loc(c2["ln"]), nontrivial=False)


def r_ttl(prog, R):
    r = R.rule("R-C08-TTL", "every reader of a record TTL sees the cache age subtracted exactly once", floor=3, analysis="A-WMC field discipline + flow count")
    readers = {}
    for f, b, i, el, n, w in field_accesses(prog, "ares_dns_rr", "ttl"):
        readers.setdefault(f.key, {"f": f, "r": 0, "w": 0, "loc": f.loc(el if isinstance(el, dict) and "ln" in el else f.ln)})
        readers[f.key]["w" if w else "r"] += 1
    r.require(any(v["r"] for v in readers.values()), "no reader of ares_dns_rr.ttl found")

    def subtracts(f):
        """does f read ttl_decrement (of the parent record) and subtract it?"""
        reads = [x for x in field_accesses(prog, "ares_dns_record", "ttl_decrement", [f]) if not x[5]]
        sub = False
        for b, i, tree in all_exprs_with_points(f):
            for n in walk(tree):
                if n.get("k") in ("bin", "asg") and n.get("op") in ("-", "-=") and n.get("r") is not None and any(is_field(m, "ttl_decrement") for m in walk(n["r"])):
                    sub = True
        return bool(reads) and sub
    direct_dec = set()
    for k, v in readers.items():
        f = v["f"]
        if not v["r"]:
            r.ok("writer-only:%s" % f.name, v["loc"], nontrivial=False)
            continue
        if subtracts(f):
            direct_dec.add(f.name)
            r.ok("reader-decrements:%s" % f.name, v["loc"])
        else:
            r.viol("reader-decrements:%s" % f.name, f.name, v["loc"],
                   "%s reads rr->ttl without subtracting the parent's ttl_decrement: TTLs of a cached answer are reported undecremented" % f.name)
    # inside a decrementing reader every return that hands out the stored TTL applies the decrement (no per-type bypass),
    # except for records that have no parent
    for name in sorted(direct_dec):
        f = prog.func(name)
        mf = MustFacts(f, track_calls=False)
        for b, i, el in f.returns():
            e = el.get("e")
            if e is None or not any(is_field(n, "ttl", "ares_dns_rr") for n in walk(e)):
                continue
            sub = any(n.get("k") == "bin" and n["op"] == "-" and any(is_field(m, "ttl_decrement") for m in walk(n["r"])) for n in walk(e))
            facts = mf.cond_facts_at(b, i)
            noparent = cond_holds(facts, lambda op, l, rr: is_field(l, "parent", "ares_dns_rr") and ((op == "==" and rr is not None and is_null(rr)) or op == "false"))
            key = "every-ttl-return-aged:%s" % name
            if sub or noparent:
                r.ok(key, f.loc(el), nontrivial=False)
            else:
                extra = [render(cc) for cc, p in facts]
                r.viol(key, name, f.loc(el), "a path returns the stored TTL without subtracting the cache age (guards: %s): those records look fresh on every cache hit" % extra)
    # no double decrement: callers of a decrementing reader must not subtract again
    for name in sorted(direct_dec):
        for cf, b, i, c in prog.callers_of(name):
            if subtracts(cf) and cf.name != name:
                r.viol("double-decrement:%s" % cf.name, cf.name, cf.loc(c["ln"]), "%s subtracts ttl_decrement from a value %s already decremented" % (cf.name, name))
            else:
                r.ok("single-decrement:%s<-%s" % (cf.name, name), cf.loc(c["ln"]), nontrivial=False)
    # clamp at zero in the decrementing reader
    for name in sorted(direct_dec):
        f = prog.func(name)
        ok = False
        for bid in f.rpo():
            br = f.branch(bid)
            if br:
                for cc, p in atoms(br[0], True):
                    op, l, rr = norm_cmp(cc, p)
                    if rr is not None and op in (">", ">=") and is_field(l, "ttl_decrement") and (is_field(rr, "ttl") or is_var(rr)):
                        ok = True
                    if rr is not None and op in ("<", "<=") and is_field(rr, "ttl_decrement"):
                        ok = True
        if ok:
            r.ok("clamp-at-zero:%s" % name, f.loc(f.ln))
        else:
            r.viol("clamp-at-zero:%s" % name, name, f.loc(f.ln), "ttl - ttl_decrement can wrap below zero (no ttl_decrement > ttl test)")
    # only the cache sets ttl_decrement
    for f, b, i, el, n, w in field_accesses(prog, "ares_dns_record", "ttl_decrement"):
        if w:
            if f.name == "ares_dns_record_ttl_decrement":
                r.ok("ttl_decrement-writer", f.loc(el), nontrivial=False)
            else:
                r.viol("ttl_decrement-writer:%s" % f.name, f.name, f.loc(el), "ttl_decrement written outside ares_dns_record_ttl_decrement")
    cs = prog.callers_of("ares_dns_record_ttl_decrement")
    for cf, b, i, c in cs:
        if cf.name != "ares_qcache_fetch":
            r.viol("ttl_decrement-caller:%s" % cf.name, cf.name, cf.loc(c["ln"]), "cache age set outside ares_qcache_fetch")


def r_flush(prog, R):
    r = R.rule("R-C08-FLUSH", "every server-set mutation and a successful reinit flush the cache", floor=5, analysis="A-WMC + A-VS")
    # who mutates channel->servers
    MUT = {"ares_slist_insert", "ares_slist_node_destroy", "ares_slist_node_claim", "ares_slist_destroy"}
    allowed = {"ares_server_create", "ares_servers_remove_stale", "ares_servers_trim_single", "ares_destroy_servers_state", "ares_init_options", "ares_destroy", "init_by_defaults"}
    muts = []
    for f in prog.funcs.values():
        for b, i, c in f.calls():
            if c.get("callee") in MUT and any(is_field(m, "servers", "ares_channeldata") for a in c.get("args", []) for m in walk(a)):
                muts.append((f, c))
            if c.get("callee") == "ares_slist_node_destroy" and f.name == "ares_servers_remove_stale":
                muts.append((f, c))
    names = sorted({f.name for f, c in muts})
    r.info["server_set_mutators"] = names
    for f, c in muts:
        key = "mutator=%s" % f.name
        if f.name in allowed:
            r.ok(key, f.loc(c["ln"]), nontrivial=False)
        else:
            r.viol(key, f.name, f.loc(c["ln"]), "channel->servers mutated by %s, which is not on the flush-guarded path" % f.name)
    r.require(any(f.name == "ares_server_create" for f, c in muts), "ares_server_create no longer inserts into channel->servers (anchor)")
    # ares_server_create / remove_stale / trim are only called from ares_servers_update
    for name in ("ares_server_create", "ares_servers_remove_stale", "ares_servers_trim_single"):
        for cf, b, i, c in prog.callers_of(name):
            if cf.name != "ares_servers_update":
                r.viol("caller-of-%s=%s" % (name, cf.name), cf.name, cf.loc(c["ln"]), "%s called outside ares_servers_update (no flush follows)" % name)
            else:
                r.ok("caller-of-%s=%s" % (name, cf.name), cf.loc(c["ln"]), nontrivial=False)
    u = prog.func("ares_servers_update")
    # typestate: dirty after create success / remove_stale true; must be flushed at a SUCCESS return
    create_ids = {c["id"] for _, _, c in u.calls_to("ares_server_create")}

    def on_el(extra, blk, i, el, get):
        dirty, stale = extra
        if el["k"] == "call":
            cal = el["e"].get("callee")
            if cal == "ares_qcache_flush":
                return [(False, "no")]
            if cal == "ares_servers_remove_stale":
                return [(dirty, "maybe")]      # resolved by a branch on the result, else stays pending
            if cal == "ares_slist_node_reinsert":
                return [(True, stale)]         # a server moved to another position: the order of preference is part of the list
        if el["k"] == "asg" and is_field(el["e"]["l"], "idx", "ares_server"):
            return [(True, stale)]
        if el["k"] == "asg" and el["e"]["op"] == "=" and strip(el["e"].get("r")) is not None and strip(el["e"]["r"]).get("k") == "call" \
                and strip(el["e"]["r"]).get("id") in create_ids:
            st = get(path(el["e"]["l"]))
            if st is not None and st == frozenset(["ARES_SUCCESS"]):
                return [(True, stale)]
        return [extra]

    def on_edge(extra, blk, cond, pol, get):
        dirty, stale = extra
        for cc, p in atoms(cond, pol):
            if is_call_to(cc, "ares_servers_remove_stale") and stale == "maybe":
                if p:
                    dirty = True
                stale = "no"
        return (dirty, stale)
    summ = Summaries(prog)
    vs = ValueSets(prog, u, summaries=summ, on_el=on_el, on_edge=on_edge, init_extra=(False, "no"), cap=2048)
    nret = 0
    bad = None
    for b, i, el in u.returns():
        for st in vs.states_at(b, i):
            nret += 1
            rs = vs.eval(el.get("e"), st[0])
            # whatever the function reports: servers that were added, removed or moved before it gave up (allocation failure) have changed the list
            if st[1][0] or st[1][1] == "maybe":
                bad = el
    r.require(nret >= 2, "ares_servers_update: value-set analysis reached %d return states" % nret)
    if bad is not None:
        r.viol("update:mutation=>flush", u.name, u.loc(bad), "ares_servers_update can return (with success, or with an error after part of the change was made) after adding, removing or moving a server without flushing the cache")
    else:
        r.ok("update:mutation=>flush", u.loc(u.ln))
    rt = prog.func("ares_reinit_thread")
    mf = MustFacts(rt)
    fl = rt.calls_to("ares_qcache_flush")
    if not fl:
        r.viol("reinit-flush", rt.name, rt.loc(rt.ln), "reinit no longer flushes the cache")
    for b, i, c in fl:
        facts = mf.cond_facts_at(b, i)
        extra = [(cc, p) for cc, p in facts if not (cond_holds([(cc, p)], lambda op, l, rr: op == "==" and is_var(l, "status") and name_of_const(rr) == "ARES_SUCCESS")
                                                    or (p and is_field(cc, "qcache")))]
        locked = mf.passed_call(b, i, "ares_channel_lock")
        if not extra and locked:
            r.ok("reinit-flush", rt.loc(c["ln"]))
        else:
            r.viol("reinit-flush", rt.name, rt.loc(c["ln"]), "reinit flush is conditional on %s / locked=%s" % ([render(x) for x, _ in extra], locked))
    # flush really empties: ares_qcache_flush = expire(NULL)
    qf = prog.func("ares_qcache_flush")
    ex = qf.calls_to("ares_qcache_expire")
    if ex and is_null(call_arg(ex[0][2], 1)):
        r.ok("flush=expire(all)", qf.loc(ex[0][2]["ln"]))
    else:
        r.viol("flush=expire(all)", qf.name, qf.loc(qf.ln), "ares_qcache_flush does not expire every entry")
    e = prog.func("ares_qcache_expire")
    okn = False
    for bid in e.rpo():
        br = e.branch(bid)
        if br:
            for cc, p in atoms(br[0], True):
                op, l, rr = norm_cmp(cc, p)
                if (op == "!=" and is_var(l, "now") and rr is not None and is_null(rr)) or (op == "truth" and is_var(l, "now")):
                    okn = True
    if okn:
        r.ok("expire(NULL)-removes-all", e.loc(e.ln))
    else:
        r.viol("expire(NULL)-removes-all", e.name, e.loc(e.ln), "ares_qcache_expire(cache, NULL) no longer bypasses the time test")


def run(prog, R, tier):
    R.assume("container primitives behave as their ADTs (C19)")
    r_filter(prog, R)
    r_nottl(prog, R)
    r_lifetime(prog, R)
    r_key(prog, R)
    r_order(prog, R)
    r_ttl(prog, R)
    r_flush(prog, R)
