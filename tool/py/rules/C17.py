"""C17 — DNS cookies follow the RFC 7873 client state machine."""
from lib import *  # noqa
import C06

TECHNIQUE = ("transition-relation check of the field cookie->state by value-set abstract interpretation (prior-state set x new state x dominating guards at every store), guard dominance for TCP/accept, gate flow for the server-cookie copy bound, who-may-write census"
             ", edge-cut gate of every response action behind the cookie check, exact finite-domain evaluation of the timestamp predicate and of the response-cookie length filter, exact guard on the regression-start store, must-precede of connect before the local address is read")
LEVEL_TEXT = ("static: decides on every path that the transition relation of the per-server cookie state is a subset of the RFC 7873 client "
              "machine (in particular: no transition out of SUPPORTED except under the regression timer), that no cookie is attached on TCP, "
              "that a response without a server cookie is never accepted while SUPPORTED, that the BADCOOKIE resend counter forces TCP at three, "
              "that cookie application precedes every serialisation of a query, that the client cookie is regenerated only for the three "
              "enumerated reasons, and that the server-cookie copy is bounded by its destination. Does not decide timer arithmetic over virtual time."
              " Also decides (CONST/GATE/DISARM) reflexive address test, nothing acted on before the cookie gate, timer disarmed by every valid cookie, (TIMER) the timestamp predicate and the response-cookie length filter exactly, the regression start recorded once, the local address read after connect.")
LEVEL_NOTE = "trusts clang CFG + extractor; the regression/unsupported timer guards are recognised as calls to timeval_expired on cookie->unsupported_ts (callee resolved by declaration)"
DESIGN_REF = "DESIGN.md §6/C17"
EXPLANATION = LEVEL_TEXT
NOT_DECIDED = "timer arithmetic (timeval_expired / timeval_is_set numeric behaviour) and constancy of the client cookie across calls as a runtime value"

STATES = ("ARES_COOKIE_INITIAL", "ARES_COOKIE_GENERATED", "ARES_COOKIE_SUPPORTED", "ARES_COOKIE_UNSUPPORTED")


def _expired_guard(func, facts, field="unsupported_ts"):
    """is timeval_expired(&cookie-><field>, now, X) known true? returns macro name of X or None"""
    for c, p in facts:
        cs = strip(c)
        if p and cs.get("k") == "call" and cs.get("callee") == "timeval_expired":
            full = func.call_by_id(cs["id"])
            if full and field in render(call_arg(full[2], 0)):
                return name_of_const(call_arg(full[2], 2)) or "?"
    return None


def state_events(prog, f):
    """[(blk, i, el, prior_set, new_state, facts)] for every store to cookie->state in f (direct or via ares_cookie_clear)"""
    dom = {"cookie->state": frozenset(STATES)}

    def call_assign(c):
        if c.get("callee") == "ares_cookie_clear":
            return {"cookie->state": frozenset(["ARES_COOKIE_INITIAL"])}
        return {}
    vs = ValueSets(prog, f, names=set(), extra_domains=dom, call_assign=call_assign)
    mf = MustFacts(f)
    ev = []
    for b, i, el in f.elements():
        new = None
        if el["k"] == "asg" and path(el["e"]["l"]) == "cookie->state":
            new = name_of_const(el["e"].get("r"))
        elif is_call_el(el, "ares_cookie_clear"):
            new = "ARES_COOKIE_INITIAL"
        if new is None:
            continue
        prior = set()
        for st in vs.states_at(b, i):
            prior |= set(vs.get(st, "cookie->state"))
        ev.append((b, i, el, prior, new, mf.cond_facts_at(b, i)))
    return ev, vs


def r_fsm(prog, R, rid="R-C17-FSM"):
    r = R.rule(rid, "transition relation of cookie->state is a subset of the RFC 7873 client machine", floor=6, analysis="A-VS on a field")
    en = prog.enum("ares_cookie_state_t")
    r.require({it["n"] for it in en["items"]} == set(STATES), "ares_cookie_state_t enumerators changed: %s" % [it["n"] for it in en["items"]])
    # who writes the state
    writers = set()
    for f, b, i, el, n, w in field_accesses(prog, "ares_cookie_t", "state"):
        if w:
            writers.add(f.name)
            if f.file != "src/lib/ares_cookie.c":
                r.viol("state-writer=%s" % f.name, f.name, f.loc(el), "cookie state written outside ares_cookie.c")
    r.info["state_writers"] = sorted(writers)
    cl = prog.func("ares_cookie_clear")
    okc = any(el["k"] == "asg" and path(el["e"]["l"]) == "cookie->state" and name_of_const(el["e"].get("r")) == "ARES_COOKIE_INITIAL" for _, _, el in cl.elements())
    if okc:
        r.ok("clear=>INITIAL", cl.loc(cl.ln))
    else:
        r.viol("clear=>INITIAL", cl.name, cl.loc(cl.ln), "ares_cookie_clear no longer resets the state to INITIAL")
    n_ev = 0
    for fn in ("ares_cookie_apply", "ares_cookie_validate"):
        f = prog.func(fn)
        ev, vs = state_events(prog, f)
        for k, (b, i, el, prior, new, facts) in enumerate(ev):
            n_ev += 1
            loc = f.loc(el)
            tag = "%s:%s->%s#%d" % (fn.replace("ares_cookie_", ""), "|".join(sorted(p.replace("ARES_COOKIE_", "") for p in prior)), new.replace("ARES_COOKIE_", ""), k)
            problems = []
            if "ARES_COOKIE_SUPPORTED" in prior and new != "ARES_COOKIE_SUPPORTED":
                g = _expired_guard(f, facts)
                isset = any(p and is_call_to(c, "timeval_is_set") for c, p in facts)
                if g != "COOKIE_REGRESSION_TIMEOUT_MS" or not isset:
                    problems.append("leaves SUPPORTED without the regression timer having expired (downgrade: a spoofer that strips cookies wins)")
            if new == "ARES_COOKIE_UNSUPPORTED":
                if fn != "ares_cookie_validate" or not prior <= {"ARES_COOKIE_INITIAL", "ARES_COOKIE_GENERATED"}:
                    problems.append("UNSUPPORTED entered from %s in %s" % (sorted(prior), fn))
            if new == "ARES_COOKIE_GENERATED" and not prior <= {"ARES_COOKIE_INITIAL"}:
                problems.append("GENERATED entered from %s" % sorted(prior))
            if new == "ARES_COOKIE_INITIAL" and "ARES_COOKIE_UNSUPPORTED" in prior:
                if _expired_guard(f, facts) is None:
                    problems.append("UNSUPPORTED forgotten without its timer having expired")
            if new == "ARES_COOKIE_INITIAL" and "ARES_COOKIE_GENERATED" in prior and fn == "ares_cookie_apply" and prior == {"ARES_COOKIE_GENERATED"}:
                problems.append("GENERATED reset in apply")
            if new == "ARES_COOKIE_SUPPORTED" and fn != "ares_cookie_validate":
                problems.append("SUPPORTED set outside response validation")
            if problems:
                r.viol(tag, fn, loc, "; ".join(problems))
            else:
                r.ok(tag, loc, note="prior=%s" % sorted(prior))
        # UNSUPPORTED store is reached only when the state was GENERATED before the clear
        if fn == "ares_cookie_validate":
            for k, (b, i, el, prior, new, facts) in enumerate(ev):
                if is_call_el(el, "ares_cookie_clear"):
                    if prior <= {"ARES_COOKIE_GENERATED"}:
                        r.ok("validate:clear-only-from-GENERATED", f.loc(el))
                    else:
                        r.viol("validate:clear-only-from-GENERATED", fn, f.loc(el), "state cleared during validation from %s" % sorted(prior))
    r.require(n_ev >= 5, "fewer cookie state transitions than confirmed by hand (%d)" % n_ev)


def r_tcp(prog, R):
    r = R.rule("R-C17-TCP", "no cookie is ever attached on TCP", floor=2, analysis="A-DOM")
    f = prog.func("ares_cookie_apply")
    mf = MustFacts(f)
    sets = [x for x in f.calls_to("ares_dns_rr_set_opt") if name_of_const(call_arg(x[2], 2)) == "ARES_OPT_PARAM_COOKIE"]
    r.require(len(sets) >= 1, "ares_cookie_apply: cookie option store not found")
    for b, i, c in sets:
        facts = mf.cond_facts_at(b, i)
        if any((not p) and is_flag_test(cc, lambda x: is_field(x, "flags", "ares_conn"), "ARES_CONN_FLAG_TCP") for cc, p in facts):
            r.ok("set-opt-not-on-tcp", f.loc(c["ln"]))
        else:
            r.viol("set-opt-not-on-tcp", f.name, f.loc(c["ln"]), "cookie option can be attached on a TCP connection")
    okdel = False
    for b, i, c in f.calls_to("ares_dns_rr_del_opt_byid"):
        facts = mf.cond_facts_at(b, i)
        if any(p and is_flag_test(cc, lambda x: is_field(x, "flags", "ares_conn"), "ARES_CONN_FLAG_TCP") for cc, p in facts) and name_of_const(call_arg(c, 2)) == "ARES_OPT_PARAM_COOKIE":
            okdel = True
    if okdel:
        r.ok("tcp-arm-deletes-cookie", f.loc(f.ln))
    else:
        r.viol("tcp-arm-deletes-cookie", f.name, f.loc(f.ln), "a cookie left in the request from a UDP attempt is not removed on TCP")
    # other writers of the COOKIE option
    for g in prog.funcs.values():
        for b, i, c in g.calls():
            if c.get("callee") in ("ares_dns_rr_set_opt", "ares_dns_rr_set_opt_own") and name_of_const(call_arg(c, 2)) == "ARES_OPT_PARAM_COOKIE" and g.name != "ares_cookie_apply":
                r.viol("cookie-opt-writer=%s" % g.name, g.name, g.loc(c["ln"]), "cookie option written outside ares_cookie_apply")


def r_accept(prog, R, rid="R-C17-ACCEPT"):
    r = R.rule(rid, "once SUPPORTED, a response without a valid server cookie is never accepted", floor=3, analysis="A-VS + A-DOM")
    f = prog.func("ares_cookie_validate")
    ev, vs = state_events(prog, f)
    mf = MustFacts(f)
    n = 0
    for b, i, el in f.returns():
        if name_of_const(el.get("e")) != "ARES_SUCCESS":
            continue
        n += 1
        facts = mf.cond_facts_at(b, i)
        no_req = cond_holds(facts, lambda op, l, rr: (op == "==" and is_var(l, "req_cookie") and rr is not None and is_null(rr)) or (op == "false" and is_var(l, "req_cookie")))
        has_srv = cond_holds(facts, lambda op, l, rr: op == ">" and is_var(l, "resp_cookie_len") and const_val(rr) is not None and const_val(rr) >= 8)
        sts = set()
        for st in vs.states_at(b, i):
            sts |= set(vs.get(st, "cookie->state"))
        key = "success#%d" % n
        if no_req:
            r.ok(key + " (no cookie requested)", f.loc(el))
        elif has_srv:
            r.ok(key + " (server cookie present)", f.loc(el))
        elif "ARES_COOKIE_SUPPORTED" not in sts and sts:
            r.ok(key + " (state not SUPPORTED)", f.loc(el), note=str(sorted(sts)))
        else:
            r.viol(key, f.name, f.loc(el), "response accepted with state possibly SUPPORTED and no server cookie (states %s)" % sorted(sts))
    r.require(n >= 3, "ares_cookie_validate: fewer SUCCESS returns than confirmed (%d)" % n)
    # SUPPORTED + missing cookie => EBADRESP and regression timestamp started
    # length window
    ok = False
    for bid in f.rpo():
        br = f.branch(bid)
        if br:
            c0 = strip(br[0])
            if c0.get("k") == "bin" and c0["op"] == ">" and is_var(c0["l"], "resp_cookie_len") and const_val(c0["r"]) == 40:
                ok = True
    if ok:
        r.ok("length-window<=40", f.loc(f.ln))
    else:
        r.viol("length-window<=40", f.name, f.loc(f.ln), "cookie longer than 40 bytes is no longer rejected")


def r_bound(prog, R):
    r = R.rule("R-C17-BOUND", "server-cookie copy is bounded by its destination", floor=3, analysis="gate flow + constant arithmetic on extracted sizes")
    f = prog.func("ares_cookie_validate")
    rec = prog.record("ares_cookie_t")
    size = {fl["n"]: fl.get("arr") for fl in rec["fields"]}
    dst = size.get("server")
    r.require(dst is not None, "ares_cookie_t.server is not an array")
    import evalx
    # the lengths that get past the length filter right behind the fetch (exact evaluation of that fragment for every length)
    start = None
    for b0, i0, el0 in f.elements():
        if el0["k"] == "asg" and is_var(strip(el0["e"]["l"]), "resp_cookie"):
            start = b0
    if not r.require(start is not None, "resp_cookie fetch not found"):
        return
    accepted = []
    try:
        for n_ in range(0, 1024):
            env = {"resp_cookie": 1, "resp_cookie_len": n_}
            br0 = f.branch(start)
            if br0:
                bid0 = br0[1] if evalx.ev(evalx._leafify(strip(br0[0])), env) else br0[2]
            else:
                bid0 = [x for x in start.succs if x is not None][0]
            kind, x = evalx.run_cfg(f, env, start=bid0)
            if not (kind == "ret" and name_of_const(x.get("e")) not in (None, "ARES_SUCCESS")):
                accepted.append(n_)
    except evalx.Unknown as e:
        r.broke("cookie length filter not interpretable: %s" % e)
        return
    upper = max(accepted) if accepted else 0
    if upper >= 1023:
        r.viol("server_len-bounded", f.name, f.loc(start.els[-1] if start.els else f.ln), "no response cookie length is rejected unconditionally right after the option is fetched (the length filter depends on something else, or is gone): the server-cookie copy is not bounded by its %d-byte destination on every path" % dst)
        return
    doms = f.dominators()
    rewrites = [el for _, _, el in f.elements() if el["k"] == "asg" and is_var(strip(el["e"]["l"]), "resp_cookie_len")]
    sub = None
    for b, i, el in f.elements():
        if el["k"] == "asg" and is_field(el["e"]["l"], "server_len") and el["e"]["op"] == "=":
            rr = strip(el["e"]["r"])
            if rr.get("k") == "bin" and rr["op"] == "-" and is_var(rr["l"], "resp_cookie_len") and const_val(rr["r"]) is not None:
                sub = const_val(rr["r"])
                if not (start.id == b.id or start.id in doms.get(b.id, ())) or rewrites:
                    r.viol("server_len-bounded", f.name, f.loc(el), "server_len assigned on a path where resp_cookie_len was not bounded")
                elif upper - sub > dst:
                    r.viol("server_len-bounded", f.name, f.loc(el), "server cookie of up to %d bytes copied into a %d-byte field" % (upper - sub, dst))
                else:
                    r.ok("server_len-bounded", f.loc(el), note="<= %d - %d <= sizeof(server)=%d" % (upper, sub, dst))
            else:
                r.viol("server_len-shape", f.name, f.loc(el), "server_len assigned %s" % render(rr))
    r.require(sub is not None, "no `server_len = resp_cookie_len - K` store")
    cps = [x for x in f.calls_to("memcpy") if is_field(call_arg(x[2], 0), "server")]
    for b, i, c in cps:
        if is_field(call_arg(c, 2), "server_len"):
            r.ok("memcpy-len=server_len", f.loc(c["ln"]))
        else:
            r.viol("memcpy-len=server_len", f.name, f.loc(c["ln"]), "copy length is %s" % render(call_arg(c, 2)))
    # all writers of server_len
    for g, b, i, el, n, w in field_accesses(prog, "ares_cookie_t", "server_len"):
        if w:
            rr = el["e"].get("r") if el["k"] == "asg" else None
            if g.name == "ares_cookie_validate" or (rr is not None and const_val(rr) == 0):
                r.ok("server_len-writer=%s" % g.name, g.loc(el), nontrivial=False)
            else:
                r.viol("server_len-writer=%s" % g.name, g.name, g.loc(el), "server_len written with an unbounded value")
    # apply(): c[] holds client + server
    a = prog.func("ares_cookie_apply")
    csz = None
    for b, i, el in a.elements():
        if el["k"] == "decl":
            for v in el["vars"]:
                if v["n"] == "c" and v.get("arr"):
                    csz = v["arr"]
    cl = size.get("client")
    if csz is not None and cl is not None and csz >= cl + dst:
        r.ok("apply-buffer-holds-both", a.loc(a.ln), note="c[%d] >= %d+%d" % (csz, cl, dst))
    else:
        r.viol("apply-buffer-holds-both", a.name, a.loc(a.ln), "assembly buffer c[%s] cannot hold client(%s)+server(%s)" % (csz, cl, dst))


def r_order(prog, R):
    r = R.rule("R-C17-ORDER", "cookie applied before every serialisation of a query; client cookie regenerated only for the enumerated reasons", floor=4, analysis="A-DOM + A-WMC")
    f = prog.func("ares_conn_query_write")
    mf = MustFacts(f)
    ws = f.calls_to("ares_dns_write_buf_tcp")
    r.require(len(ws) == 1, "ares_conn_query_write: serialisation call not found")
    for b, i, c in ws:
        g = [x for x in call_result_branches(f, "ares_cookie_apply")]
        ok = mf.passed_call(b, i, "ares_cookie_apply")
        cut = False
        for x in g:
            pe = status_pass_edge(x)
            if pe and element_reachable_avoiding(f, b, i, [(x["block"].id, pe[0])]) is None:
                cut = True
        if ok and cut:
            r.ok("apply<write", f.loc(c["ln"]))
        else:
            r.viol("apply<write", f.name, f.loc(c["ln"]), "query serialised on a path where ares_cookie_apply did not run successfully")
    for cf, b, i, c in prog.callers_of("ares_dns_write_buf_tcp"):
        if cf.name != "ares_conn_query_write":
            r.viol("tcp-writer=%s" % cf.name, cf.name, cf.loc(c["ln"]), "framed serialisation outside ares_conn_query_write bypasses cookie handling")
        else:
            r.ok("tcp-writer=%s" % cf.name, cf.loc(c["ln"]), nontrivial=False)
    for cf, b, i, c in prog.callers_of("ares_cookie_apply"):
        a = render(call_arg(c, 0))
        if a == "query->query":
            r.ok("apply-on-request", cf.loc(c["ln"]))
        else:
            r.viol("apply-on-request", cf.name, cf.loc(c["ln"]), "cookie applied to %s" % a)
    # regenerate reasons
    a = prog.func("ares_cookie_apply")
    ma = MustFacts(a)
    ev, vs = state_events(prog, a)
    for k, (b, i, c) in enumerate(sorted(a.calls_to("ares_cookie_generate"), key=lambda x: x[2]["id"])):
        facts = ma.cond_facts_at(b, i)
        sts = set()
        for st in vs.states_at(b, i):
            sts |= set(vs.get(st, "cookie->state"))
        initial = sts == {"ARES_COOKIE_INITIAL"}
        ipchg = any((not p) and is_call_to(cc, "ares_addr_equal") for cc, p in facts)
        rot = _expired_guard(a, facts, "client_ts") == "COOKIE_CLIENT_TIMEOUT_MS"
        if initial or ipchg or rot:
            r.ok("generate#%d reason=%s" % (k, "initial" if initial else ("source-address-changed" if ipchg else "rotation")), a.loc(c["ln"]))
        else:
            r.viol("generate#%d" % k, a.name, a.loc(c["ln"]), "client cookie regenerated without one of: first use, source address change, rotation timeout")
    for g, b, i, el, n, w in field_accesses(prog, "ares_cookie_t", "client"):
        pass
    gen_callers = {cf.name for cf, _, _, _ in prog.callers_of("ares_cookie_generate")}
    if gen_callers <= {"ares_cookie_apply"}:
        r.ok("generate-callers", a.loc(a.ln), nontrivial=False)
    else:
        r.viol("generate-callers", "ares_cookie_generate", a.loc(a.ln), "client cookie generated from %s" % sorted(gen_callers))
    # ip change / rotation also drop the server cookie
    for k, (b, i, c) in enumerate(sorted(a.calls_to("ares_cookie_generate"), key=lambda x: x[2]["id"])):
        facts = ma.cond_facts_at(b, i)
        if any((not p) and is_call_to(cc, "ares_addr_equal") for cc, p in facts) or _expired_guard(a, facts, "client_ts"):
            if ma.passed_call(b, i, "ares_cookie_clear_server"):
                r.ok("regen#%d clears server cookie" % k, a.loc(c["ln"]))
            else:
                r.viol("regen#%d clears server cookie" % k, a.name, a.loc(c["ln"]), "client cookie replaced but the old server cookie kept (server would answer BADCOOKIE)")


def r_const(prog, R):
    r = R.rule("R-C17-CONST", "the 'local address changed' test that regenerates the client cookie is reflexive for every address family a connection's local address can have", floor=3, analysis="A-TAB switch coverage x producers of conn->self_ip")
    fams = {}
    # producers of conn->self_ip
    for f in prog.funcs.values():
        for b, i, c in f.calls():
            if c.get("callee") == "memset" and const_val(call_arg(c, 1)) == 0:
                a = strip(call_arg(c, 0))
                if a is not None and a.get("k") == "un" and a["op"] == "&" and is_field(a["e"], "self_ip", "ares_conn"):
                    fams[0] = f.loc(c["ln"])
            if c.get("callee") == "ares_sockaddr_to_ares_addr":
                a = strip(call_arg(c, 0))
                if a is not None and a.get("k") == "un" and a["op"] == "&" and is_field(a["e"], "self_ip", "ares_conn"):
                    g = prog.func("ares_sockaddr_to_ares_addr")
                    for _, _, el in g.elements():
                        if el["k"] == "asg" and is_field(el["e"]["l"], "family") and const_val(el["e"].get("r")) is not None:
                            fams[const_val(el["e"]["r"])] = g.loc(el)
    if not r.require(len(fams) >= 2, "producers of conn->self_ip not recognised: %s" % fams):
        return
    r.info["self_ip_families"] = sorted(fams)
    eq = prog.func("ares_addr_equal", file="src/lib/ares_cookie.c")
    # which test guards the regeneration
    ap = prog.func("ares_cookie_apply")
    if not any(c.get("callee") == "ares_addr_equal" for _, _, c in ap.calls()):
        r.broke("ares_cookie_apply no longer compares addresses with ares_addr_equal")
        return
    covered = {}
    for b in eq.blocks.values():
        if b.term and b.term.get("cls") == "SwitchStmt":
            for succ, vals in eq.switch_cases(b):
                if not isinstance(vals, list):
                    continue
                # can this arm reach `return ARES_TRUE` without leaving through the common `return ARES_FALSE`?
                seen, work, hit = set(), [succ], False
                while work:
                    x = work.pop()
                    if x in seen:
                        continue
                    seen.add(x)
                    for el in eq.blocks[x].els:
                        if el["k"] == "ret" and name_of_const(el.get("e")) == "ARES_TRUE":
                            hit = True
                    work.extend(s2 for s2 in eq.blocks[x].succs if s2 is not None)
                for v in vals:
                    covered[const_val(v)] = hit
    for fam, where in sorted(fams.items()):
        k = "family %d comparable" % fam
        if covered.get(fam):
            r.ok(k, eq.loc(eq.ln))
        else:
            r.viol(k, eq.name, eq.loc(eq.ln), "a connection's local address can have family %d (set at %s) but ares_addr_equal can never report two such addresses equal: the client cookie is regenerated, and the server cookie dropped, on every transmission" % (fam, where))


def r_gateorder(prog, R):
    import C05
    r = R.rule("R-C17-GATE", "nothing in process_answer acts on a response (deliver, cache, count, downgrade EDNS, requeue) before the cookie check passed", floor=7, analysis="A-DOM (edge cut) on the cookie gate")
    f = prog.func("process_answer")
    res = C05.gates_of_process_answer(prog, r, f)
    if res is None:
        return
    gates, _ = res
    cg = [g for g in gates if g[0] == "cookie-valid"]
    if not r.require(len(cg) == 1, "cookie gate not found in process_answer"):
        return
    name, gb, ps, fl = cg[0]
    acts = [(b, i, c) for b, i, c in f.calls() if c.get("callee") in C05.EFFECTS + ("rewrite_without_edns", "issue_might_be_edns")]
    r.require(len(acts) >= 8, "process_answer: fewer response-driven actions than confirmed by hand (%d)" % len(acts))
    seen = {}
    for b, i, c in acts:
        seen[c["callee"]] = seen.get(c["callee"], 0) + 1
        key = "action=%s#%d behind cookie check" % (c["callee"], seen[c["callee"]])
        t = element_reachable_avoiding(f, b, i, [(gb.id, ps)])
        if t is not None:
            r.viol(key, f.name, f.loc(c["ln"]), "%s is reachable before ares_cookie_validate() has passed: a reply without a valid cookie from a cookie-proven server is acted on (e.g. the query is re-sent without EDNS/cookie and anything is accepted afterwards)" % c["callee"], trail=trail_lines(f, t))
        else:
            r.ok(key, f.loc(c["ln"]))


def r_disarm(prog, R):
    r = R.rule("R-C17-DISARM", "every valid server cookie disarms the regression timer (unsupported_ts is cleared whenever a server cookie is accepted)", floor=2, analysis="must-pass-through + exact guard")
    f = prog.func("ares_cookie_validate")
    stores = [(b, i, el) for b, i, el in f.elements() if el["k"] == "asg" and is_field(el["e"]["l"], "state", "ares_cookie_t") and name_of_const(el["e"]["r"]) == "ARES_COOKIE_SUPPORTED"]
    clears = [(b, i, c) for b, i, c in f.calls_to("memset") if any(n.get("k") == "mem" and n["f"] == "unsupported_ts" for n in walk(call_arg(c, 0))) and const_val(call_arg(c, 1)) == 0]
    if not r.require(stores and clears, "ares_cookie_validate: SUPPORTED store / unsupported_ts clear not found"):
        return
    mf = MustFacts(f, track_calls=False)
    cb, ci, cc = clears[0]
    # the clear is guarded by exactly 'response carries a server cookie' (resp_cookie && len > 8) plus the spoof checks before it
    extra = []
    for c3, p3 in mf.cond_facts_at(cb, ci):
        t = render(c3)
        if "resp_cookie" in t or "req_cookie" in t or "memcmp" in t:
            continue
        extra.append(("" if p3 else "!") + t)
    # ... and by nothing more than what guards the SUPPORTED store next to it (a condition on the cookie's *value* is an extra guard)
    sb0, si0, _ = stores[0]
    extra += [("" if p3 else "!") + render(c3) for c3, p3 in guard_delta(mf, (sb0.id, si0), (cb.id, ci))]
    if extra:
        r.viol("timer cleared whenever a server cookie arrives", f.name, f.loc(cc["ln"]), "unsupported_ts is cleared only when %s: after one dropped cookie-less reply the regression timer stays armed although valid cookies keep arriving, and 120 s later the whole cookie state is thrown away" % extra)
    else:
        r.ok("timer cleared whenever a server cookie arrives", f.loc(cc["ln"]))
    # and SUPPORTED is (re)asserted under the same guard
    sb, si, sel = stores[0]
    extra = [("" if p3 else "!") + render(c3) for c3, p3 in mf.cond_facts_at(sb, si) if not any(x in render(c3) for x in ("resp_cookie", "req_cookie", "memcmp"))]
    if extra:
        r.viol("SUPPORTED asserted whenever a server cookie arrives", f.name, f.loc(sel), "state = SUPPORTED is conditional on %s" % extra)
    else:
        r.ok("SUPPORTED asserted whenever a server cookie arrives", f.loc(sel))


def r_timer(prog, R):
    import evalx
    r = R.rule("R-C17-TIMER", "the regression period is counted from the first cookie-less reply: a timestamp is 'set' exactly when it is not all zero, the start is "
               "recorded only while no start is recorded, a response COOKIE option is accepted only with a possible length (8, or 16..40), and the local "
               "address that keys the client cookie is read after the socket is connected", floor=4,
               analysis="exact evaluation of the predicate / length filter over a finite domain + exact guard + must-precede")
    # (1) timeval_is_set
    f = prog.func("timeval_is_set", file="src/lib/ares_cookie.c")
    tv = f.params[0]["n"]
    k = "timeval_is_set(tv) <=> tv != {0,0}"
    bad = None
    try:
        for sec in (0, 5):
            for usec in (0, 7):
                kind, el = evalx.run_cfg(f, {"%s->sec" % tv: sec, "%s->usec" % tv: usec})
                if kind != "ret":
                    raise evalx.Unknown("no return reached")
                got = name_of_const(el.get("e")) in ("ARES_TRUE",) or const_val(el.get("e")) == 1
                want = (sec != 0 or usec != 0)
                if got != want:
                    bad = (sec, usec, got)
        if bad:
            r.viol(k, f.name, f.loc(f.ln), "timeval_is_set() reports %s for {sec=%d, usec=%d}: a timestamp taken on a second boundary (or from a coarse clock) looks unset, so the start of the regression period is not recorded and the period does not end" % (
                "set" if bad[2] else "unset", bad[0], bad[1]))
        else:
            r.ok(k, f.loc(f.ln))
    except evalx.Unknown as e:
        r.broke("timeval_is_set not interpretable: %s" % e)
    # (2) start recorded only when none is
    v = prog.func("ares_cookie_validate")
    mf = MustFacts(v, track_calls=False)
    n = 0
    for b, i, c in v.calls_to("memcpy"):
        a0 = call_arg(c, 0)
        if not any(nd.get("k") == "mem" and nd["f"] == "unsupported_ts" for nd in walk(a0)) or not is_var(strip(call_arg(c, 1))):
            continue
        if not any(p3 and "ARES_COOKIE_SUPPORTED" in render(c3) and norm_cmp(c3, p3)[0] == "==" for c3, p3 in mf.cond_facts_at(b, i)):
            continue          # the UNSUPPORTED period starts from a cleared state: unconditional by design
        n += 1
        k = "regression start recorded only while none is recorded"
        unset = False
        for c3, p3 in mf.cond_facts_at(b, i):
            op3, l3, r3 = norm_cmp(c3, p3)
            cs = strip(l3)
            if cs is not None and cs.get("k") == "call" and op3 == "false":
                full = v.call_by_id(cs["id"]) if cs.get("ref") else None
                cn = full[2] if full else cs
                if cn.get("callee") == "timeval_is_set" and any(nd.get("k") == "mem" and nd["f"] == "unsupported_ts" for nd in walk(cn["args"][0])):
                    unset = True
        if unset:
            r.ok(k, v.loc(c["ln"]))
        else:
            r.viol(k, v.name, v.loc(c["ln"]), "unsupported_ts is overwritten with the current time without '!timeval_is_set(&cookie->unsupported_ts)': every dropped cookie-less reply restarts the regression period, so a server that lost cookie support stays unusable as long as queries keep arriving")
    r.require(n >= 1, "ares_cookie_validate: recording of the regression start not found")
    # (3) accepted response cookie lengths
    start = None
    for b, i, el in v.elements():
        if el["k"] == "asg" and is_var(strip(el["e"]["l"]), "resp_cookie"):
            start = b
    k = "response COOKIE option accepted only with length 8 or 16..40"
    if r.require(start is not None, "ares_cookie_validate: resp_cookie fetch not found"):
        try:
            wrong = []
            nxt = [x for x in start.succs if x is not None]
            # run from the block that holds the fetch (elements are calls/assignments of names outside env except the two)
            for ln_ in range(0, 64):
                env = {"resp_cookie": 1, "resp_cookie_len": ln_}
                bid = start.id
                # skip the defining block's own elements by starting at its branch: emulate with run_cfg on successors
                br = v.branch(start)
                if br:
                    val = evalx.ev(evalx._leafify(strip(br[0])), env)
                    bid = br[1] if val else br[2]
                else:
                    bid = nxt[0]
                kind, x = evalx.run_cfg(v, env, start=bid)
                rejected = (kind == "ret" and name_of_const(x.get("e")) == "ARES_EBADRESP")
                valid = (ln_ == 8) or (16 <= ln_ <= 40)
                if rejected == valid:
                    wrong.append(ln_)
            if wrong:
                r.viol(k, v.name, v.loc(start.els[-1] if start.els else v.ln), "response COOKIE options of length %s are %s: RFC 7873 allows the 8 octet client cookie alone or followed by a server cookie of 8..32 octets; a shorter 'server cookie' must not prove cookie support or be echoed" % (
                    ", ".join(str(x) for x in wrong[:10]), "accepted" if not ((wrong[0] == 8) or (16 <= wrong[0] <= 40)) else "rejected"))
            else:
                r.ok(k, v.loc(v.ln))
        except evalx.Unknown as e:
            r.broke("cookie length filter not interpretable: %s" % e)
    # (4) self ip after connect
    oc = prog.func("ares_open_connection")
    mfo = MustFacts(oc, track_calls=True)
    cs = oc.calls_to("ares_conn_set_self_ip")
    if r.require(bool(cs), "ares_open_connection: ares_conn_set_self_ip call not found"):
        for b, i, c in cs:
            k = "local address read after the socket is connected"
            if mfo.passed_call(b, i, "ares_conn_connect"):
                r.ok(k, oc.loc(c["ln"]))
            else:
                r.viol(k, oc.name, oc.loc(c["ln"]), "ares_conn_set_self_ip runs before ares_conn_connect: an unconnected UDP socket reports the wildcard address, so a change of the source address is never noticed and the same client cookie (and the old server cookie) go out from the new address")


def run(prog, R, tier):
    R.assume("timeval_expired computes what its name says (numeric behaviour over real time not decided)")
    r_fsm(prog, R)
    r_tcp(prog, R)
    r_accept(prog, R)
    r_bound(prog, R)
    r_order(prog, R)
    r_const(prog, R)
    r_gateorder(prog, R)
    r_disarm(prog, R)
    r_timer(prog, R)
    C06.r_resend(prog, R, rid="R-C17-RESEND")
