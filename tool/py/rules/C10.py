"""C10 — sockets are opened, announced, used and closed in a consistent protocol."""
from lib import *  # noqa
import ownrules

EXPLANATION = (
    "Decides the call-protocol clauses of C10 on every CFG path of the analysed configuration: "
    "(OWNERS) which functions may reach each socket-function slot and the raw close/open wrappers; "
    "(CLOSE) unlink -> final notification -> close -> free order in ares_close_connection with no use of the "
    "descriptor after close; (OPEN) typestate of the descriptor in ares_open_connection and the private probe "
    "socket of ares_sortaddrinfo: closed exactly once on every failing path, never on success, registration "
    "before announcement, no failure path after the first announcement; (ANNOUNCE) the application's socket-state "
    "callback is invoked from one function, only on change, and the flags are stored on every path; leftover TCP "
    "bytes / would-block request WRITE interest; (UDPMAX) per-socket query accounting; (LEGACY) the three legacy "
    "descriptor enumerators agree on structure, filter and WRITE condition.")
NOT_DECIDED = ("Equality of the reported descriptor sets with 'the sockets that matter' as a runtime set for every "
               "history; behaviour of user-supplied socket functions.")

TECHNIQUE = ("who-may-call census of socket slots + descriptor typestate (open/close/announce) by disjunctive forward dataflow over the clang CFG + must-pass-through ordering + sibling agreement of legacy enumerators"
             ", definition census of the connection chosen for a query, path search 'descriptor handed out or closed' in ares_socket_open")
LEVEL_TEXT = ("static: decides the call-protocol clauses of C10 (owners, close order, open unwind typestate, announcement discipline, "
              "per-socket accounting, legacy enumerator agreement) on every CFG path, including OOM and failure unwinds the suite "
              "marks LCOV_EXCL; does not decide equality of reported descriptor sets over runtime histories"
              " Also decides that the connection a query is written to comes only from the limit-testing lookup or a fresh open, and that ares_socket_open hands out or closes every descriptor it obtained.")
# fifth-round additions
TECHNIQUE += "; " + 'branch-atom and fact comparison of the write-interest test in both legacy enumerators'
LEVEL_TEXT += " " + '(LEGACY) the write interest reported by ares_fds and ares_getsock depends on STATE_WRITE alone, for UDP as for TCP.'
EXPLANATION += " The write interest both enumerators report depends on the STATE_WRITE flag alone, for UDP connections as for TCP ones."
LEVEL_NOTE = "trusts clang's CFG and the extractor; user socket functions assumed to behave like the defaults; configuration linux+threads"
DESIGN_REF = "DESIGN.md §6/C10"

SOCK_SLOTS = {
    # slot -> (allowed functions or None, allowed files)
    "asocket": ({"ares_socket_open"}, None),
    "aclose": ({"ares_socket_close"}, None),
    "asendto": (None, {"src/lib/ares_socket.c"}),
    "arecvfrom": (None, {"src/lib/ares_socket.c"}),
    "aconnect": (None, {"src/lib/ares_socket.c"}),
    "asetsockopt": (None, {"src/lib/ares_socket.c"}),
    "abind": (None, {"src/lib/ares_socket.c"}),
    "agetsockname": (None, {"src/lib/ares_conn.c", "src/lib/ares_sortaddrinfo.c"}),
}
CLOSE_CALLERS = {"ares_close_connection", "ares_open_connection", "find_src_addr",
                 "ares_socket_open"}      # may close a descriptor it obtained itself and does not hand out (checked by R-C10-OPEN)
OPEN_CALLERS = {"ares_open_connection", "find_src_addr"}
LIBC_SOCK = {"socket", "closesocket", "sendto", "recvfrom", "connect", "send", "recv", "bind", "setsockopt", "getsockname"}
LIBC_SOCK_FILES = {"src/lib/ares_set_socket_functions.c"}


def r_owners(prog, R):
    r = R.rule("R-C10-OWNERS", "socket-function slots and raw open/close are reached only from their owners", floor=16, analysis="A-WMC")
    seen_slots = set()
    for f, b, i, c, slot in indirect_calls(prog):
        if slot[0] == "field" and slot[1] == "ares_socket_functions_ex" and slot[2] in SOCK_SLOTS:
            fns, files = SOCK_SLOTS[slot[2]]
            seen_slots.add(slot[2])
            key = "slot=%s caller=%s" % (slot[2], f.name)
            if (fns is not None and f.name not in fns) or (files is not None and f.file not in files):
                r.viol(key, f.name, f.loc(c["ln"]), "socket function slot '%s' is invoked from %s (%s); allowed: %s" % (
                    slot[2], f.name, f.file, sorted(fns) if fns else sorted(files)))
            else:
                r.ok(key, f.loc(c["ln"]))
    for s in ("asocket", "aclose", "asendto", "arecvfrom", "aconnect"):
        r.require(s in seen_slots, "no call through sock_funcs.%s found (anchor vanished)" % s)
    for (name, allowed) in (("ares_socket_close", CLOSE_CALLERS), ("ares_socket_open", OPEN_CALLERS)):
        prog.func(name)
        cs = prog.callers_of(name)
        r.require(len(cs) > 0, "no callers of %s" % name)
        for f, b, i, c in cs:
            key = "callee=%s caller=%s" % (name, f.name)
            if f.name not in allowed:
                r.viol(key, f.name, f.loc(c["ln"]), "%s is called from %s; only %s may" % (name, f.name, sorted(allowed)))
            else:
                r.ok(key, f.loc(c["ln"]))
    # libc socket calls only in the default socket-function table
    n = 0
    for f in prog.funcs.values():
        for b, i, c in f.calls():
            if c.get("callee") in LIBC_SOCK and prog.resolve(f, c) is None:
                n += 1
                key = "libc=%s caller=%s" % (c["callee"], f.name)
                if f.file not in LIBC_SOCK_FILES:
                    r.viol(key, f.name, f.loc(c["ln"]), "libc %s() called outside the default socket function table" % c["callee"])
                else:
                    r.ok(key, f.loc(c["ln"]), nontrivial=False)
    r.require(n >= 5, "libc socket calls in ares_set_socket_functions.c not found (positive control)")


def r_close(prog, R):
    r = R.rule("R-C10-CLOSE", "ares_close_connection: unlink, notify NONE, close once, free last, no use after", floor=6, analysis="A-DOM")
    f = prog.func("ares_close_connection")
    mf = MustFacts(f)
    closes = f.calls_to("ares_socket_close")
    if not r.require(len(closes) == 1, "expected exactly one ares_socket_close call in ares_close_connection, found %d" % len(closes)):
        return
    cb, ci, cc = closes[0]
    if cb.id in f.loop_blocks():
        r.viol("close-in-loop", f.name, f.loc(cc["ln"]), "ares_socket_close inside a loop: may close twice")
    # every path reaches the close
    t = can_reach_exit_avoiding(f, f.entry, -1, lambda el: is_call_el(el, "ares_socket_close"))
    if t is not None:
        r.viol("close-on-every-path", f.name, f.loc(f.ln), "a path through ares_close_connection returns without closing the socket", trail=trail_lines(f, t))
    else:
        r.ok("close-on-every-path", f.loc(cc["ln"]))
    # unlink before anything that can run callbacks, and before close
    for need in ("ares_htable_asvp_remove", "ares_llist_node_claim"):
        if mf.passed_call(cb, ci, need):
            r.ok("unlink:%s<close" % need, f.loc(cc["ln"]))
        else:
            r.viol("unlink:%s<close" % need, f.name, f.loc(cc["ln"]), "socket closed on a path that has not executed %s (connection still indexed)" % need)
    rq = f.calls_to("ares_requeue_queries")
    for b, i, c in rq:
        for need in ("ares_htable_asvp_remove", "ares_llist_node_claim"):
            if mf.passed_call(b, i, need):
                r.ok("unlink:%s<requeue" % need, f.loc(c["ln"]))
            else:
                r.viol("unlink:%s<requeue" % need, f.name, f.loc(c["ln"]), "queries are requeued (callbacks may run) before %s unlinked the connection" % need)
    # final notification with NONE precedes close
    notif = [(b, i, c) for b, i, c in f.calls_to("ares_conn_sock_state_cb_update") if name_of_const(call_arg(c, 1)) == "ARES_CONN_STATE_NONE"]
    if not notif:
        r.viol("notify-none<close", f.name, f.loc(cc["ln"]), "no ares_conn_sock_state_cb_update(conn, ARES_CONN_STATE_NONE) in ares_close_connection")
    else:
        ids = {c["id"] for _, _, c in notif}
        if any(fk[0] == "call" and fk[2] in ids for fk in mf.facts_at(cb, ci)):
            r.ok("notify-none<close", f.loc(cc["ln"]))
        else:
            r.viol("notify-none<close", f.name, f.loc(cc["ln"]), "socket closed on a path that did not first tell the application to stop watching it")
        for b, i, c in notif:
            if mf.passed_call(b, i, "ares_socket_close"):
                r.viol("notify-after-close", f.name, f.loc(c["ln"]), "application notified about a descriptor that is already closed")
    # no use of conn->fd after close
    fdarg = call_arg(cc, 1)
    us = uses_after(f, cb, ci, lambda n: n.get("k") == "mem" and n["f"] == "fd" and n["rec"] == "ares_conn")
    if us:
        for blk, j, el in us:
            r.viol("fd-use-after-close", f.name, f.loc(el if isinstance(el, dict) else cc), "conn->fd used after ares_socket_close")
    else:
        r.ok("fd-use-after-close", f.loc(cc["ln"]), note="fd arg: " + render(fdarg))
    # ares_free(conn) last
    frees = [(b, i, c) for b, i, c in f.calls_to("ares_free") if is_var(call_arg(c, 0), "conn")]
    if not r.require(len(frees) == 1, "expected one ares_free(conn) in ares_close_connection"):
        return
    fb, fi, fc = frees[0]
    us = uses_after(f, fb, fi, lambda n: n.get("k") == "var" and n["n"] == "conn")
    if us:
        r.viol("conn-use-after-free", f.name, f.loc(fc["ln"]), "conn used after ares_free(conn)")
    else:
        r.ok("conn-use-after-free", f.loc(fc["ln"]))
    if mf.passed_call(fb, fi, "ares_socket_close"):
        r.ok("close<free", f.loc(fc["ln"]))
    else:
        r.viol("close<free", f.name, f.loc(fc["ln"]), "connection freed on a path that did not close its socket")
    # ares_close_connection has the expected callers
    cs = prog.callers_of("ares_close_connection")
    r.info["close_connection_callers"] = sorted({c[0].name for c in cs})


def _open_close_typestate(prog, r, f, status_var, success_keeps):
    """descriptor typestate inside f: res in {none, ?, OK, FAIL}, closed count, status S/F."""
    opens = f.calls_to("ares_socket_open")
    if not r.require(len(opens) == 1, "expected one ares_socket_open call in %s" % f.name):
        return
    ob, oi, oc = opens[0]
    open_id = oc["id"]
    # variable receiving the result, if any
    res_var = None
    for b, i, el in f.elements():
        if el["k"] == "asg" and el["e"].get("r") and strip(el["e"]["r"]).get("k") == "call" and strip(el["e"]["r"]).get("id") == open_id:
            res_var = path(el["e"]["l"])

    def is_res(e):
        e = strip(e)
        if e is None:
            return False
        if e.get("k") == "call" and e.get("id") == open_id:
            return True
        return res_var is not None and path(e) == res_var

    # state: (res, closed, status, announced, registered)
    init = ("none", 0, "S" if status_var is None else "?", False, False)

    def transfer(st, blk, i, el):
        res, closed, status, ann, reg = st
        if el["k"] == "call":
            c = el["e"]
            cal = c.get("callee")
            if cal == "ares_socket_open":
                res = "?"
            elif cal == "ares_socket_close":
                closed = min(closed + 1, 2)
            elif cal == "ares_conn_sock_state_cb_update" and name_of_const(call_arg(c, 1)) != "ARES_CONN_STATE_NONE":
                ann = True
            elif cal == "ares_htable_asvp_insert":
                reg = True
        elif el["k"] in ("asg", "decl") and status_var is not None:
            tgt = []
            if el["k"] == "asg" and el["e"]["op"] == "=" and is_var(el["e"]["l"], status_var):
                tgt = [el["e"]["r"]]
            elif el["k"] == "decl":
                tgt = [v.get("init") for v in el["vars"] if v["n"] == status_var and v.get("init")]
            for rhs in tgt:
                v = sf_of_expr(rhs)
                if v is not None:
                    status = v
                else:
                    return [(res, closed, "S", ann, reg), (res, closed, "F", ann, reg)]
        return [(res, closed, status, ann, reg)]

    def refine(st, cond, pol, blk=None):
        res, closed, status, ann, reg = st
        if status_var is not None and status in ("S", "F"):
            ns = refine_sf(status, cond, pol, status_var)
            if ns is None:
                return None
        for c, p in atoms(cond, pol):
            op, l, rr = norm_cmp(c, p)
            if op in ("==", "!=") and is_res(l) and res == "?":
                nm = name_of_const(rr)
                if nm == "ARES_CONN_ERR_SUCCESS":
                    res = "OK" if op == "==" else "FAIL"
                elif nm is not None and op == "==":
                    res = "FAIL"
        return (res, closed, status, ann, reg)

    at = forward_states(f, init, transfer, refine)
    nret = 0
    for b, i, el in f.returns():
        for st in at.get((b.id, i), ()):
            nret += 1
            res, closed, status, ann, reg = st
            if status_var is not None and sf_of_expr(el.get("e")) is not None:
                status = sf_of_expr(el.get("e"))
            opened = res in ("?", "OK")
            key = "ret@%s res=%s status=%s" % (render(el.get("e")) if el.get("e") else "void", res, status)
            loc = f.loc(el)
            bad = None
            if status_var is not None and status == "S" and success_keeps:
                if closed != 0:
                    bad = "socket closed on a path that returns success (connection keeps a dead descriptor)"
                elif opened and not reg:
                    bad = "success return without registering the connection in connnode_by_socket"
            else:
                if opened and closed == 0:
                    bad = "socket opened but not closed on a failing/finishing path (descriptor leak)"
                elif closed >= 2:
                    bad = "socket closed twice on one path"
                elif status_var is not None and ann:
                    bad = "failure unwind reachable after the application was already told to watch the socket"
            if bad:
                r.viol(key, f.name, loc, bad)
            else:
                r.ok(key, loc)
    r.require(nret >= 2, "typestate of %s reached fewer than 2 return states" % f.name)
    return at


def r_open(prog, R):
    r = R.rule("R-C10-OPEN", "descriptor typestate: closed once on failure, kept on success, register before announce", floor=6, analysis="A-TS over forward_states")
    f = prog.func("ares_open_connection")
    _open_close_typestate(prog, r, f, "status", True)
    mf = MustFacts(f)
    for b, i, c in f.calls_to("ares_conn_sock_state_cb_update"):
        if name_of_const(call_arg(c, 1)) == "ARES_CONN_STATE_NONE":
            continue
        if mf.passed_call(b, i, "ares_htable_asvp_insert"):
            r.ok("register<announce", f.loc(c["ln"]))
        else:
            r.viol("register<announce", f.name, f.loc(c["ln"]), "socket announced to the application before it is registered in connnode_by_socket")
    g = prog.func("find_src_addr", "ares_sortaddrinfo.c")
    _open_close_typestate(prog, r, g, None, False)
    _socket_open_hands_out(prog, r)


def _socket_open_hands_out(prog, r):
    """ares_socket_open: once the socket callback returned a descriptor, every exit either hands it out through *sock or closes it"""
    f = prog.func("ares_socket_open")
    outp = f.params[0]["n"]
    src = None
    for b, i, el in f.elements():
        if el["k"] == "asg" and el["e"]["op"] == "=" and is_var(strip(el["e"]["l"])):
            rr = strip(el["e"].get("r"))
            if rr is not None and rr.get("k") == "call":
                full = f.call_by_id(rr["id"]) if rr.get("ref") else None
                cn = full[2] if full else rr
                if cn.get("fnx") is not None and "asocket" in render(cn["fnx"]):
                    src = (b, i, strip(el["e"]["l"])["n"])
    if not r.require(src is not None, "ares_socket_open: descriptor variable filled by the asocket callback not found"):
        return
    sb, si, sv = src
    k = "ares_socket_open: an obtained descriptor is handed out or closed on every exit"

    def settles(e2):
        if e2["k"] == "asg" and e2["e"]["op"] == "=" and render(strip(e2["e"]["l"])) in ("*" + outp, "(*%s)" % outp) and is_var(strip(e2["e"].get("r")), sv):
            return True
        if e2["k"] == "call":
            c = e2["e"]
            cal = c.get("callee") or render(c.get("fnx")) if c.get("fnx") is not None or c.get("callee") else ""
            if ("close" in (cal or "")) and any(a is not None and is_var(strip(a), sv) for a in c.get("args", [])):
                return True
        return False
    seen, work, bad = set(), [(sb.id, si + 1, [sb.id])], None
    while work and bad is None:
        bid, st, trail = work.pop()
        blk = f.blocks[bid]
        done = False
        for j in range(st, len(blk.els)):
            e2 = blk.els[j]
            if settles(e2):
                done = True
                break
            if e2["k"] == "ret":
                bad = (e2, trail)
                done = True
                break
        if done:
            continue
        br = f.branch(blk)
        for n2, s2 in enumerate(blk.succs):
            if s2 is None:
                continue
            # the edge on which the descriptor is known to be invalid needs nothing
            if br:
                pol = (br[1] == s2)
                if any(norm_cmp(c3, p3)[0] == "==" and is_var(strip(norm_cmp(c3, p3)[1]), sv) and name_of_const(norm_cmp(c3, p3)[2]) == "ARES_SOCKET_BAD" for c3, p3 in atoms(br[0], pol)):
                    continue
            if s2 == f.exit:
                continue
            if s2 not in seen:
                seen.add(s2)
                work.append((s2, 0, trail + [s2]))
    if bad:
        r.viol(k, f.name, f.loc(bad[0]), "ares_socket_open returns after the socket callback produced descriptor '%s' without storing it in *%s or closing it: the callers' cleanup sees ARES_SOCKET_BAD and the descriptor is lost (never closed, survives ares_destroy)" % (sv, outp), trail=trail_lines(f, bad[1]))
    else:
        r.ok(k, f.loc(f.ln))


def r_announce(prog, R, rid="R-C10-ANNOUNCE"):
    r = R.rule(rid, "sock_state_cb only from ares_conn_sock_state_cb_update, on change, flags always stored; WRITE interest requested when bytes remain", floor=5, analysis="A-WMC + A-DOM")
    n = 0
    for f, b, i, c, slot in indirect_calls(prog):
        if slot == ("field", "ares_channeldata", "sock_state_cb"):
            n += 1
            if f.name != "ares_conn_sock_state_cb_update":
                r.viol("invoker=%s" % f.name, f.name, f.loc(c["ln"]), "channel->sock_state_cb invoked outside ares_conn_sock_state_cb_update")
            else:
                r.ok("invoker=%s" % f.name, f.loc(c["ln"]))
                mf = MustFacts(f)
                facts = mf.cond_facts_at(b, i)

                def changed(op, l, rr):
                    if op != "!=":
                        return False
                    ls, rs = strip(l), strip(rr)
                    for x, y in ((ls, rs), (rs, ls)):
                        if x.get("k") == "bin" and x["op"] == "&" and any(is_field(m, "state_flags") for m in walk(x)) and is_var(y, "flags"):
                            return True
                    return False
                if cond_holds(facts, changed):
                    r.ok("only-on-change", f.loc(c["ln"]))
                else:
                    r.viol("only-on-change", f.name, f.loc(c["ln"]), "socket-state callback not guarded by (state_flags & CBFLAGS) != flags")
    r.require(n >= 1, "no invocation of channel->sock_state_cb found")
    f = prog.func("ares_conn_sock_state_cb_update")
    stores = [(b, i, el) for b, i, el in f.elements() if el["k"] == "asg" and is_field(el["e"]["l"], "state_flags", "ares_conn")]
    r.require(len(stores) >= 2, "expected the clear and set stores to conn->state_flags")
    setst = [s for s in stores if s[2]["e"]["op"] == "|=" and is_var(s[2]["e"]["r"], "flags")]
    if not setst:
        r.viol("flags-stored", f.name, f.loc(f.ln), "new flags are not stored into conn->state_flags")
    else:
        t = can_reach_exit_avoiding(f, f.entry, -1, lambda el: el["k"] == "asg" and is_field(el["e"]["l"], "state_flags", "ares_conn") and el["e"]["op"] == "|=")
        if t is not None:
            r.viol("flags-stored", f.name, f.loc(f.ln), "a path returns without storing the announced flags (later change detection is wrong)", trail=trail_lines(f, t))
        else:
            r.ok("flags-stored", f.loc(setst[0][2]))
    # flush: leftover TCP bytes => WRITE requested, and the update is reached
    fl = prog.func("ares_conn_flush")
    mf = MustFacts(fl)
    wr = [(b, i, el) for b, i, el in fl.elements() if el["k"] == "asg" and el["e"]["op"] == "|=" and is_var(el["e"]["l"], "flags")
          and name_of_const(el["e"]["r"]) == "ARES_CONN_STATE_WRITE"]
    found = False
    for b, i, el in wr:
        facts = mf.cond_facts_at(b, i)
        has_len = cond_holds(facts, lambda op, l, rr: op == "truth" and is_call_to(l, "ares_buf_len"))
        others = [(c, p) for c, p in facts if not (
            (p and is_call_to(c, "ares_buf_len"))
            or (norm_cmp(c, p)[0] == "==" and is_var(norm_cmp(c, p)[1], "status") and name_of_const(norm_cmp(c, p)[2]) == "ARES_SUCCESS")
            or is_defensive_fact(fl, c, p))]
        if has_len:
            found = True
            if others:
                r.viol("flush-write-interest", fl.name, fl.loc(el), "WRITE interest for leftover bytes is additionally conditional on: %s (bytes left in out_buf on any other kind of connection, e.g. a UDP datagram the socket would not take, are then never flushed until the timeout)" % [render(c) for c, _ in others])
            else:
                t = can_reach_exit_avoiding(fl, b, i, lambda e2: is_call_el(e2, "ares_conn_sock_state_cb_update"))
                if t is not None:
                    r.viol("flush-write-interest", fl.name, fl.loc(el), "WRITE interest computed but ares_conn_sock_state_cb_update not reached", trail=trail_lines(fl, t))
                else:
                    r.ok("flush-write-interest", fl.loc(el))
    if not found:
        r.viol("flush-write-interest", fl.name, fl.loc(fl.ln), "ares_conn_flush never requests WRITE interest when bytes remain in out_buf")
    # conn_write: WOULDBLOCK -> READ|WRITE
    cw = prog.func("ares_conn_write")
    mf = MustFacts(cw)
    okw = False
    for b, i, c in cw.calls_to("ares_conn_sock_state_cb_update"):
        names = const_names(call_arg(c, 1))
        facts = mf.cond_facts_at(b, i)
        if cond_holds(facts, lambda op, l, rr: op == "==" and is_var(l, "err") and name_of_const(rr) == "ARES_CONN_ERR_WOULDBLOCK"):
            if {"ARES_CONN_STATE_READ", "ARES_CONN_STATE_WRITE"} <= names:
                okw = True
                r.ok("wouldblock-write-interest", cw.loc(c["ln"]))
            else:
                r.viol("wouldblock-write-interest", cw.name, cw.loc(c["ln"]), "would-block does not request READ|WRITE")
                okw = True
    if not okw:
        r.viol("wouldblock-write-interest", cw.name, cw.loc(cw.ln), "no WRITE interest requested when the socket would block")


def r_udpmax(prog, R):
    r = R.rule("R-C10-UDPMAX", "per-socket query accounting and limit", floor=4, analysis="A-DOM")
    f = prog.func("ares_send_query")
    sets = [(b, i, el) for b, i, el in f.elements() if el["k"] == "asg" and el["e"]["op"] == "=" and is_field(el["e"]["l"], "conn", "ares_query")]
    r.require(len(sets) >= 1, "no store to query->conn in ares_send_query")

    def is_inc(el):
        return el["k"] == "asg" and el["e"]["op"] in ("++", "+=") and is_field(el["e"]["l"], "total_queries", "ares_conn")
    for b, i, el in sets:
        t = can_reach_exit_avoiding(f, b, i, is_inc)
        mf = None
        if t is not None:
            # maybe the increment precedes the store
            mf = can_reach_from_entry_avoiding(f, b, i, is_inc)
        if t is not None and mf is not None:
            r.viol("assign-counts", f.name, f.loc(el), "query assigned to a connection on a path that does not increment conn->total_queries", trail=trail_lines(f, t))
        else:
            r.ok("assign-counts", f.loc(el))
    # the connection a query is written to comes from the limit-testing lookup or was just opened: nothing else may choose it
    cvars = {strip(el["e"]["r"])["n"] for b, i, el in sets if is_var(strip(el["e"].get("r")))}
    for cv in sorted(cvars):
        for b, i, el in f.elements():
            if el["k"] == "asg" and el["e"]["op"] == "=" and is_var(strip(el["e"]["l"]), cv):
                rr = strip(el["e"].get("r"))
                k = "conn-source %s" % (render(rr)[:40])
                if rr is None or is_null(rr):
                    continue
                cn = None
                if rr.get("k") == "call":
                    full = f.call_by_id(rr["id"]) if rr.get("ref") else None
                    cn = full[2] if full else rr
                if cn is not None and cn.get("callee") == "ares_fetch_connection":
                    r.ok("conn-source ares_fetch_connection", f.loc(el))
                else:
                    r.viol("conn-source other", f.name, f.loc(el), "ares_send_query picks the connection for a query with '%s = %s' instead of ares_fetch_connection (which applies udp_max_queries) or a freshly opened one: a UDP socket that reached its per-socket limit keeps carrying queries" % (cv, render(rr)))
    incs = [x for x in f.elements() if is_inc(x[2])]
    for b, i, el in incs:
        if b.id in f.loop_blocks():
            r.viol("inc-once", f.name, f.loc(el), "total_queries incremented in a loop")
    # writers of total_queries
    for g, b, i, el, n, w in field_accesses(prog, "ares_conn", "total_queries"):
        if w:
            if g.name not in ("ares_send_query",):
                r.viol("writer=%s" % g.name, g.name, g.loc(el), "conn->total_queries written outside ares_send_query")
            else:
                r.ok("writer=%s" % g.name, g.loc(el), nontrivial=False)
    # fetch_connection: reused UDP conn passed the limit test
    fc = prog.func("ares_fetch_connection")
    mf = MustFacts(fc)
    nret = 0
    for b, i, el in fc.returns():
        e = strip(el.get("e"))
        if e is None or is_null(e):
            continue
        if is_field(e, "tcp_conn"):
            facts = mf.cond_facts_at(b, i)
            if cond_holds(facts, lambda op, l, rr: op == "truth" and is_field(l, "using_tcp")):
                r.ok("tcp-conn-only-for-tcp", fc.loc(el))
            else:
                r.viol("tcp-conn-only-for-tcp", fc.name, fc.loc(el), "TCP connection handed out without query->using_tcp")
            continue
        nret += 1
        facts = mf.cond_facts_at(b, i)
        # limit test failed: NOT (udp_max_queries > 0 && total >= max)  -- clang splits the &&, so on the
        # fall-through edge only a disjunction is known; accept: the return is not reachable from the
        # true edge of `total_queries >= udp_max_queries`
        limit_blocks = []
        for bb in fc.blocks.values():
            br = fc.branch(bb)
            if br:
                c = strip(br[0])
                if c.get("k") == "bin" and c["op"] in (">=", ">") and is_field(c["l"], "total_queries") and is_field(c["r"], "udp_max_queries"):
                    limit_blocks.append((bb, br, c["op"]))
        if not limit_blocks:
            r.viol("udp-limit-test", fc.name, fc.loc(el), "no conn->total_queries >= channel->udp_max_queries test before reusing a UDP connection")
            continue
        for bb, br, op in limit_blocks:
            if op != ">=":
                r.viol("udp-limit-test", fc.name, fc.loc(bb.term["ln"]), "limit test uses '%s' (one query too many per socket)" % op)
                continue
            tsucc = br[1]
            reach = {tsucc}
            st = [tsucc]
            while st:
                n = st.pop()
                for s in fc.succ(n):
                    if s not in reach:
                        reach.add(s)
                        st.append(s)
            if b.id in reach:
                r.viol("udp-limit-test", fc.name, fc.loc(el), "exhausted UDP connection can still be returned for reuse")
            else:
                r.ok("udp-limit-test", fc.loc(el))
        if not cond_holds(facts, lambda op, l, rr: op == "false" and is_flag_test(l, lambda x: is_field(x, "flags", "ares_conn"), "ARES_CONN_FLAG_TCP")):
            r.viol("udp-reuse-not-tcp", fc.name, fc.loc(el), "UDP reuse path may hand out a TCP connection")
        else:
            r.ok("udp-reuse-not-tcp", fc.loc(el))
    r.require(nret >= 1, "no reuse return in ares_fetch_connection")
    # cleanup closes exhausted idle UDP conns
    cc = prog.func("ares_check_cleanup_conns")
    has = False
    for bb in cc.blocks.values():
        br = cc.branch(bb)
        if br:
            c = strip(br[0])
            if c.get("k") == "bin" and c["op"] == ">=" and is_field(c["l"], "total_queries") and is_field(c["r"], "udp_max_queries"):
                has = True
    if has:
        r.ok("cleanup-exhausted", cc.loc(cc.ln))
    else:
        r.viol("cleanup-exhausted", cc.name, cc.loc(cc.ln), "ares_check_cleanup_conns no longer closes idle UDP connections that reached udp_max_queries")


def _conn_filter_signature(f):
    """conditions (rendered, normalised) mentioned in branch terminators of a legacy enumerator"""
    sig = set()
    for b in f.blocks.values():
        br = f.branch(b)
        if not br:
            continue
        c = strip(br[0])
        while c.get("k") == "un" and c["op"] == "!":
            c = strip(c["e"])
        txt = render(c)
        if "active_queries" in txt:
            sig.add("active_queries")
        if is_flag_test(c, lambda x: is_field(x, "flags", "ares_conn"), "ARES_CONN_FLAG_TCP"):
            sig.add("tcp")
        if is_flag_test(c, lambda x: is_field(x, "state_flags", "ares_conn"), "ARES_CONN_STATE_WRITE"):
            sig.add("write:state_flags&WRITE")
        if c.get("k") == "bin" and c["op"] == "==" and is_field(c["l"], "fd") and "ARES_SOCKET_BAD" in render(c["r"]):
            sig.add("skip-bad")
    return sig


def r_legacy(prog, R):
    r = R.rule("R-C10-LEGACY", "ares_fds / ares_getsock / channel_socket_list agree on iteration, filter and WRITE condition (STATE_WRITE alone, for UDP and TCP)", floor=6, analysis="A-TAB")
    fds = prog.func("ares_fds")
    gs = prog.func("ares_getsock")
    sl = prog.func("channel_socket_list")
    for f in (fds, gs, sl):
        its = {c.get("callee") for _, _, c in f.calls()}
        need = {"ares_slist_node_first", "ares_slist_node_next", "ares_llist_node_first", "ares_llist_node_next"}
        if need <= its:
            r.ok("iterates-all:%s" % f.name, f.loc(f.ln))
        else:
            r.viol("iterates-all:%s" % f.name, f.name, f.loc(f.ln), "does not iterate servers x connections (%s missing)" % sorted(need - its))
    s1, s2 = _conn_filter_signature(fds), _conn_filter_signature(gs)
    r.info["ares_fds"] = sorted(s1)
    r.info["ares_getsock"] = sorted(s2)
    for item in ("active_queries", "tcp", "write:state_flags&WRITE"):
        if (item in s1) and (item in s2):
            r.ok("agree:%s" % item, fds.loc(fds.ln))
        else:
            r.viol("agree:%s" % item, "ares_fds/ares_getsock", fds.loc(fds.ln), "legacy enumerators disagree on '%s': ares_fds=%s ares_getsock=%s" % (item, item in s1, item in s2))
    # the WRITE interest is reported for every connection that has unsent bytes, UDP as much as TCP (a datagram that met EWOULDBLOCK is parked in
    # out_buf exactly like a TCP frame): the test is the STATE_WRITE flag alone, in both enumerators
    for f in (fds, gs):
        mf = MustFacts(f)
        found = False
        for b in f.blocks.values():
            br = f.branch(b)
            if not br:
                continue
            ats = atoms(br[0], True)
            if not any(is_flag_test(strip(c), lambda x: is_field(x, "state_flags", "ares_conn"), "ARES_CONN_STATE_WRITE") and p for c, p in ats):
                continue
            found = True
            extra = [render(strip(c)) for c, p in ats if not is_flag_test(strip(c), lambda x: is_field(x, "state_flags", "ares_conn"), "ARES_CONN_STATE_WRITE")]
            for c, p in mf.cond_facts_at(b, len(b.els)):
                if p and is_flag_test(strip(c), lambda x: is_field(x, "flags", "ares_conn"), "ARES_CONN_FLAG_TCP"):
                    extra.append(render(strip(c)))
            k = "write-interest:%s depends on STATE_WRITE only" % f.name
            if extra:
                r.viol(k, f.name, f.loc(b.term.get("ln", f.ln)), "%s reports a socket as writable only if additionally '%s': a UDP socket holding an unsent datagram (send met EWOULDBLOCK, bytes parked in out_buf) is "
                       "never reported, the application never gets a write event and the request is never sent" % (f.name, "' and '".join(extra)))
            else:
                r.ok(k, f.loc(b.term.get("ln", f.ln)))
        if not found:
            r.broke("no branch on ARES_CONN_STATE_WRITE in %s" % f.name)
    # idle-UDP omission: the `continue` guard is !active_queries && !(flags & TCP) in both
    for f in (fds, gs):
        mf = MustFacts(f)
        ok = False
        for b in f.blocks.values():
            br = f.branch(b)
            if not br:
                continue
            c = strip(br[0])
            if is_flag_test(strip(c["e"]) if c.get("k") == "un" and c["op"] == "!" else None, lambda x: is_field(x, "flags", "ares_conn"), "ARES_CONN_FLAG_TCP"):
                facts = mf.cond_facts_at(b, len(b.els))
                if cond_holds(facts, lambda op, l, rr: op == "false" and is_var(l, "active_queries")):
                    ok = True
        if ok:
            r.ok("idle-udp-omitted:%s" % f.name, f.loc(f.ln))
        else:
            r.viol("idle-udp-omitted:%s" % f.name, f.name, f.loc(f.ln), "rule 'no active queries => UDP sockets omitted' not found in this shape")


def run(prog, R, tier):
    R.assume("user-supplied socket functions behave like the defaults (close really closes)")
    R.assume("ares_socket_close ignores ARES_SOCKET_BAD (checked: it is the first test in that function)")
    r_owners(prog, R)
    r_close(prog, R)
    r_open(prog, R)
    r_announce(prog, R)
    r_udpmax(prog, R)
    r_legacy(prog, R)
    # a connection object that was closed and freed is referenced from nowhere (a dangling server->tcp_conn means I/O on a closed socket)
    ownrules.own_rule(prog, R, "R-C10-OWN", {"src/lib/ares_conn.c", "src/lib/ares_close_sockets.c", "src/lib/ares_socket.c"}, floor=2)
    # ares_socket_close ignores BAD
    r = R.rule("R-C10-BADFD", "ares_socket_close returns early for ARES_SOCKET_BAD", floor=1, analysis="A-DOM")
    f = prog.func("ares_socket_close")
    mf = MustFacts(f)
    for f2, b, i, c, slot in indirect_calls(prog, [f]):
        facts = mf.cond_facts_at(b, i)
        if cond_holds(facts, lambda op, l, rr: op == "!=" and is_var(l, "s") and "ARES_SOCKET_BAD" in render(rr)):
            r.ok("aclose-guarded", f.loc(c["ln"]))
        else:
            r.viol("aclose-guarded", f.name, f.loc(c["ln"]), "aclose may be called with ARES_SOCKET_BAD (unwind paths rely on the guard)")
