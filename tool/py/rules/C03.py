"""C03 — write then parse is the identity (structural preconditions only)."""
from lib import *  # noqa
import order
import codecrules
from order import nocast, key

TECHNIQUE = ("parser/writer sibling agreement per RR type bound through the two dispatch switches, offset-kind dataflow with an empty-buffer proof at "
             "every entry of the name-list owner, dominating-bound checks for every narrowing of a length onto the wire, failure-path restore "
             "(must-pass-through), error-discipline typestate over the codec, who-may-append on the connection out buffer"
             ", guard-vocabulary check of every failure on the parse path against frozen protocol limits, def-use purity of numeric setter arguments, sibling agreement of per-key constraints between parser call flags and writer guards")
LEVEL_TEXT = ("static: decides the structural preconditions of the round trip for all records and buffer states: (SYM) for each of the record types the "
              "parser and the writer handle the same keys with the same wire primitive in the same order, and both dispatch switches cover the enum; "
              "(OFF) name-compression offsets are message relative (the function owning the name list is entered only with an empty buffer); (PTR14) only "
              "offsets a 14-bit pointer can hold are remembered; (NARROW/TOTAL) no length or count is narrowed onto the wire without a dominating bound and no "
              "success return produces more than 65535 bytes; (ATOMIC) a failed write leaves the caller's buffer as it was; (ERR) no failure of a "
              "primitive is turned into success inside the codec; (ONEWRITER) only the framed writer appends to a connection's out buffer and the legacy "
              "builders/adapters serialise through the one writer. Does NOT decide byte-level equality of write(parse(x)) for all x."
              " Also decides (LIMIT) that the parse path fails on magnitudes only at frozen protocol limits, (PURE) that numeric wire fields reach the record unmodified, (VALID) that the writer refuses character-strings the parser rejects, (RCODE) that header values are not substituted (one known finding).")
# fifth-round additions
TECHNIQUE += "; " + 'induction-variable shape of the OPT lookup, sibling agreement of the question-count guards of parser and writer, forward (value NULL?, length 0?) analysis of the option setter'
LEVEL_TEXT += " " + '(OPTSCAN) the OPT lookup walks the whole additional section; (QDCOUNT) the writer fails for a question count the parser rejects; (OPTLEN) an option cannot be stored with a length and no value.'
# sixth-round additions
TECHNIQUE += "; " + 'sibling agreement on the empty CAA value (parser guard vs forward analysis of the writer)'
LEVEL_TEXT += " " + '(CAAVAL) the writer cannot finish without failing on an empty CAA value while the parser rejects one.'
LEVEL_NOTE = "trusts clang CFG + extractor; equality of re-parsed field values for all inputs needs execution and is outside this family"
DESIGN_REF = "DESIGN.md §6/C03"
EXPLANATION = LEVEL_TEXT
NOT_DECIDED = "byte-for-byte and field-for-field equality for all records (needs execution); escaping round trip of arbitrary label bytes; numeric field ranges"

WRITE_C = "src/lib/record/ares_dns_write.c"
NAME_C = "src/lib/record/ares_dns_name.c"
PARSE_C = "src/lib/record/ares_dns_parse.c"
CODEC = (WRITE_C, NAME_C, PARSE_C, "src/lib/record/ares_dns_multistring.c")

WKIND = {"ares_dns_write_rr_name": "name", "ares_dns_write_rr_str": "str", "ares_dns_write_rr_abin": "abin", "ares_dns_write_rr_be32": "be32",
         "ares_dns_write_rr_be16": "be16", "ares_dns_write_rr_u8": "u8", "ares_dns_rr_get_addr": "addr4", "ares_dns_rr_get_addr6": "addr6",
         "ares_dns_rr_get_bin": "bin", "ares_dns_rr_get_opt_cnt": "opt", "ares_dns_rr_get_opt": "opt", "ares_dns_rr_get_u8": "u8",
         "ares_dns_rr_get_u16": "be16", "ares_dns_rr_get_u32": "be32", "ares_dns_rr_get_str": "rawstr", "ares_dns_rr_get_abin_cnt": "abin", "ares_dns_rr_get_abin": "abin"}
PKIND = {"ares_dns_parse_and_set_dns_name": "name", "ares_dns_parse_and_set_dns_str": "str", "ares_dns_parse_and_set_dns_abin": "abin",
         "ares_dns_parse_and_set_be32": "be32", "ares_dns_parse_and_set_be16": "be16", "ares_dns_parse_and_set_u8": "u8", "ares_dns_rr_set_addr": "addr4",
         "ares_dns_rr_set_addr6": "addr6", "ares_dns_rr_set_bin_own": "bin", "ares_dns_rr_set_bin": "bin", "ares_dns_rr_set_opt_own": "opt", "ares_dns_rr_set_opt": "opt",
         "ares_dns_rr_set_u8": "u8", "ares_dns_rr_set_u16": "be16", "ares_dns_rr_set_u32": "be32", "ares_dns_rr_set_str_own": "rawstr", "ares_dns_rr_set_str": "rawstr",
         "ares_dns_rr_set_abin_own": "abin"}


def _dispatch(prog, f, r):
    out = {}
    for b in f.blocks.values():
        if b.term and b.term.get("cls") == "SwitchStmt":
            for succ, vals in f.switch_cases(b):
                if not isinstance(vals, list):
                    continue
                calls = [el["e"] for el in f.blocks[succ].els if el["k"] == "call" and el["e"].get("callee")]
                for v in vals:
                    t = None
                    for c in calls:
                        t = prog.resolve(f, c) or t
                    out[v["n"]] = t
    return out


def _keyseq(f, kinds):
    seq = []
    unknown = []
    for b, i, el in exec_order(f):
        if el["k"] != "call":
            continue
        c = el["e"]
        ks = [strip(a)["n"] for a in c.get("args", []) if strip(a) is not None and strip(a).get("k") == "enum" and strip(a).get("et") == "ares_dns_rr_key_t"]
        if not ks:
            continue
        kd = kinds.get(c.get("callee"))
        if kd is None:
            unknown.append(c.get("callee"))
            continue
        if (c.get("callee") or "").startswith("ares_dns_rr_get_") and kinds is WKIND:
            # a getter is a write only when what it returns reaches the output buffer; a value that is merely inspected (validated) is not
            holder = None
            for j in range(i + 1, len(b.els)):
                e2 = b.els[j]
                rr = None
                if e2["k"] == "asg" and e2["e"]["op"] == "=":
                    rr, nm = strip(e2["e"].get("r")), path(e2["e"]["l"])
                elif e2["k"] == "decl":
                    for v in e2["vars"]:
                        if v.get("init") is not None and strip(v["init"]).get("k") == "call" and strip(v["init"]).get("id") == c.get("id"):
                            rr, nm = strip(v["init"]), v["n"]
                if rr is not None and rr.get("k") == "call" and rr.get("id") == c.get("id"):
                    holder = nm
                    break
            if holder is not None:
                feeds = False
                for _, _, e3 in f.elements():
                    if e3["k"] == "call" and ((e3["e"].get("callee") or "").startswith("ares_buf_append") or (e3["e"].get("callee") or "") in ("memcpy",)):
                        if any(holder in [v["n"] for v in vars_in(a)] for a in e3["e"].get("args", []) if a):
                            feeds = True
                if not feeds:
                    continue
        item = (ks[0], kd)
        if not seq or seq[-1] != item:
            seq.append(item)
    return seq, unknown


def r_sym(prog, R):
    r = R.rule("R-C03-SYM", "parser and writer agree per record type on the ordered (key, wire primitive) sequence; both dispatches cover the type enum", floor=22, analysis="A-TAB sibling agreement")
    wf = prog.func("ares_dns_write_rr")
    pf = prog.func("ares_dns_parse_rr_data")
    W, P = _dispatch(prog, wf, r), _dispatch(prog, pf, r)
    en = prog.enum("ares_dns_rec_type_t")
    if not r.require(en is not None, "enum ares_dns_rec_type_t not found"):
        return
    for it in en["items"]:
        t = it["n"]
        for side, D, f in (("writer", W, wf), ("parser", P, pf)):
            if t in D:
                r.ok("%s dispatch covers %s" % (side, t), f.loc(f.ln), nontrivial=False)
            else:
                r.viol("%s dispatch covers %s" % (side, t), f.name, f.loc(f.ln), "%s has no case for %s: records of that type cannot be %s" % (f.name, t, "written" if side == "writer" else "parsed"))
        w, p = W.get(t), P.get(t)
        if w is None and p is None:
            r.ok("type %s refused by both sides" % t, wf.loc(wf.ln))
            continue
        if w is None or p is None:
            r.viol("type %s handled by both sides" % t, wf.name, wf.loc(wf.ln), "%s is handled by only one of parser/writer" % t)
            continue
        ws, wu = _keyseq(w, WKIND)
        ps, pu = _keyseq(p, PKIND)
        if wu or pu:
            r.broke("%s: primitive(s) not in the kind table: %s" % (t, sorted(set(wu + pu))))
            continue
        k = "type %s parser==writer" % t
        if ws == ps and ws:
            r.ok(k + " (%d fields)" % len(ws), w.loc(w.ln))
        else:
            # first difference
            d = next((j for j in range(min(len(ws), len(ps))) if ws[j] != ps[j]), min(len(ws), len(ps)))
            r.viol(k, w.name, w.loc(w.ln), "%s writes %s but %s parses %s (first difference at field %d): what is written does not parse back to the same record" % (
                w.name, ws[d:d + 2] or "nothing more", p.name, ps[d:d + 2] or "nothing more", d + 1))
    # question section and the fixed RR header: same primitive order on both sides
    def prims(f, table):
        out = []
        for b, i, el in exec_order(f):
            if el["k"] == "call" and el["e"].get("callee") in table:
                out.append(table[el["e"]["callee"]])
        return out
    WT = {"ares_dns_name_write": "name", "ares_buf_append_be16": "be16", "ares_buf_append_be32": "be32"}
    PT = {"ares_dns_name_parse": "name", "ares_buf_fetch_be16": "be16", "ares_buf_fetch_be32": "be32"}
    wq, pq = prog.func("ares_dns_write_questions"), prog.func("ares_dns_parse_qd")
    if prims(wq, WT) == prims(pq, PT) == ["name", "be16", "be16"]:
        r.ok("question: name,type,class on both sides", wq.loc(wq.ln))
    else:
        r.viol("question: name,type,class on both sides", wq.name, wq.loc(wq.ln), "question layout differs: writer %s parser %s" % (prims(wq, WT), prims(pq, PT)))
    prr = prog.func("ares_dns_parse_rr")
    wh = [x for x in prims(wf, WT)][:5]
    ph = [x for x in prims(prr, PT)][:5]
    if wh == ph == ["name", "be16", "be16", "be32", "be16"]:
        r.ok("rr header: name,type,class,ttl,rdlength on both sides", wf.loc(wf.ln))
    else:
        r.viol("rr header: name,type,class,ttl,rdlength on both sides", wf.name, wf.loc(wf.ln), "RR header layout differs: writer %s parser %s" % (wh, ph))
    # the fixed RR header carries exactly what the getters report (no arithmetic between getter and wire): a reader of the record and a
    # reader of the re-parsed bytes must see the same type, class and TTL
    ordered = [el for _, _, el in exec_order(wf)]
    want = {"ares_buf_append_be32": ["ares_dns_rr_get_ttl"], "ares_buf_append_be16": ["ares_dns_rr_get_type", "ares_dns_rr_get_class"]}
    seen_src = set()
    for el in ordered:
        if el["k"] != "call" or el["e"].get("callee") not in want:
            continue
        a = nocast(call_arg(el["e"], 1))
        src = None
        if a is not None and a.get("k") == "call":
            cn = a
            if cn.get("ref"):
                x = wf.call_by_id(cn["id"])
                cn = x[2] if x else cn
            src = cn.get("callee")
        elif a is not None and a.get("k") == "var":
            defs = [e2 for e2 in ordered if e2["k"] == "asg" and is_var(nocast(e2["e"]["l"]), a["n"])]
            pure = len(defs) == 1 and defs[0]["e"]["op"] == "="
            if defs:
                cn = nocast(defs[0]["e"].get("r"))
                if cn is not None and cn.get("k") == "call":
                    if cn.get("ref"):
                        x = wf.call_by_id(cn["id"])
                        cn = x[2] if x else cn
                    src = cn.get("callee") if pure else "%s (then modified: %s)" % (cn.get("callee"), "; ".join(d.get("t", "") for d in defs[1:])[:80])
        if src in want[el["e"]["callee"]]:
            seen_src.add(src)
            r.ok("rr header field written as %s reports it" % src, wf.loc(el))
        elif src and any(src.startswith(g) for g in want[el["e"]["callee"]]):
            r.viol("rr header field written as %s reports it" % src.split(" ")[0], wf.name, wf.loc(el), "the value written to the wire is %s: API readers of the record and readers of the re-parsed bytes see different values" % src)
    for g in ("ares_dns_rr_get_ttl", "ares_dns_rr_get_type", "ares_dns_rr_get_class"):
        if g not in seen_src and not any(v["key"].startswith("rr header field written as %s" % g) for v in r.instances):
            r.viol("rr header field written as %s reports it" % g, wf.name, wf.loc(wf.ln), "ares_dns_write_rr no longer writes the value of %s" % g)
    # parser enforces RDLENGTH: too much consumed -> error; too little -> skipped
    txt = [render(b.term["cond"]).replace("(", "").replace(")", "") for b in prr.blocks.values() if b.term and b.term.get("cond") is not None]
    if any("processed_len > rdlength" in t for t in txt) and any("processed_len < rdlength" in t for t in txt) and any("rdlength > ares_buf_len" in t for t in txt):
        r.ok("parser enforces RDLENGTH", prr.loc(prr.ln))
    else:
        r.viol("parser enforces RDLENGTH", prr.name, prr.loc(prr.ln), "ares_dns_parse_rr no longer bounds the data consumed by RDLENGTH")


# ---------------------------------------------------------------- offsets
def _list_param_funcs(prog):
    """functions that forward an `ares_llist_t **` parameter (transitively) to ares_dns_name_write's list parameter"""
    S = {}
    nw = prog.func("ares_dns_name_write")
    S[nw.key] = 1
    changed = True
    while changed:
        changed = False
        for f in prog.funcs.values():
            if f.key in S:
                continue
            for pi, p in enumerate(f.params):
                if "ares_llist" not in p["ty"] or p["ty"].count("*") < 2:
                    continue
                for b, i, c in f.calls():
                    t = prog.resolve(f, c)
                    if t is None or t.key not in S:
                        continue
                    a = nocast(call_arg(c, S[t.key]))
                    if a is not None and a.get("k") == "var" and a["n"] == p["n"]:
                        S[f.key] = pi
                        changed = True
                    # via a local alias (namelistptr = namelist)
                    elif a is not None and a.get("k") == "var":
                        for _, _, el in f.elements():
                            if el["k"] == "asg" and is_var(nocast(el["e"]["l"]), a["n"]) and is_var(nocast(el["e"].get("r")), p["n"]):
                                S[f.key] = pi
                                changed = True
    return S


def r_off(prog, R):
    r = R.rule("R-C03-OFF", "compression offsets are message-relative (the name-list owner is entered only with an empty buffer) and belong to the full name written there", floor=3, analysis="offset-kind dataflow + empty-buffer proof")
    nw = prog.func("ares_dns_name_write")
    cs = nw.calls_to("ares_nameoffset_create")
    if not r.require(len(cs) == 1, "ares_dns_name_write: ares_nameoffset_create call not found"):
        return
    b, i, c = cs[0]
    # what is registered for later compression is the whole name that starts at the recorded position
    nm = nocast(call_arg(c, 1))
    pn = [p["n"] for p in nw.params if "char" in p["ty"]]
    written = {x["n"] for x in pn} if False else set()
    for _, _, el in nw.elements():
        if el["k"] == "asg" and is_var(nocast(el["e"]["l"])):
            written.add(nocast(el["e"]["l"])["n"])
    if nm is not None and nm.get("k") == "var" and nm["n"] in pn and nm["n"] not in written:
        r.ok("registered name is the full name being written", nw.loc(c["ln"]))
    else:
        r.viol("registered name is the full name being written", nw.name, nw.loc(c["ln"]), "ares_dns_name_write registers '%s' for compression at the position where the whole name '%s' starts: a later name that ends in the registered text is compressed against it and reads back with the rest of this name appended (e.g. 'www' becomes 'www.example.com')" % (render(nm), pn[0] if pn else "name"))
    idx = nocast(call_arg(c, 2))
    kind = None
    if idx is not None and idx.get("k") == "var":
        for _, _, el in nw.elements():
            if el["k"] == "decl":
                for v in el["vars"]:
                    if v["n"] == idx["n"] and v.get("init") is not None:
                        e = nocast(v["init"])
                        cn = e if e.get("k") == "call" else None
                        if cn is not None and cn.get("ref"):
                            x = nw.call_by_id(cn["id"])
                            cn = x[2] if x else None
                        if cn is not None and cn.get("callee") == "ares_buf_len" and is_var(nocast(call_arg(cn, 0)), nw.params[0]["n"]):
                            kind = "ABS"
                        elif e.get("k") == "bin" and e["op"] == "-":
                            kind = "REL?"
    if not r.require(kind is not None, "ares_dns_name_write: origin of the stored offset '%s' not recognised" % render(idx)):
        return
    r.info["stored_offset_kind"] = kind
    if kind != "ABS":
        r.broke("stored offset is computed by a subtraction: the origin must be re-confirmed by reading (rule knows only the absolute form)")
        return
    # owners of the name list
    S = _list_param_funcs(prog)
    owners = []
    for f in prog.funcs.values():
        for b2, i2, c2 in f.calls():
            t = prog.resolve(f, c2)
            if t is None or t.key not in S:
                continue
            a = nocast(call_arg(c2, S[t.key]))
            if a is not None and a.get("k") == "un" and a["op"] == "&" and nocast(a["e"]).get("k") == "var" and nocast(a["e"]).get("vk") == "local":
                if f not in owners:
                    owners.append(f)
    if not r.require(owners, "no function owning a name list found"):
        return
    for o in owners:
        bp = [k for k, p in enumerate(o.params) if "ares_buf" in p["ty"]]
        if not bp:
            r.broke("owner %s has no buffer parameter" % o.name)
            continue
        bi = bp[0]
        callers = prog.callers_of(o)
        if not o.static:
            r.viol("owner %s is internal" % o.name, o.name, o.loc(o.ln), "%s owns the name list, records absolute buffer offsets and is callable from other files with a non-empty buffer" % o.name)
            continue
        if not callers:
            r.broke("owner %s has no callers" % o.name)
        for (cf, cb, ci, cc) in callers:
            a = nocast(call_arg(cc, bi))
            k = "call %s -> %s with empty buffer" % (cf.name, o.name)
            okc = False
            why = ""
            if a is not None and a.get("k") == "var":
                mf = MustFacts(cf, track_calls=False)
                # (a) guarded by ares_buf_len(buf) == 0 (possibly through a local holding the length)
                lens = {a["n"]: None}
                for c3, p3 in mf.cond_facts_at(cb, ci):
                    op, l, rr = norm_cmp(c3, p3)
                    if op == "==" and rr is not None and const_val(rr) == 0:
                        le = nocast(l)
                        if le is not None and le.get("k") == "var":
                            # local assigned from ares_buf_len(<buf>) and not reassigned
                            defs = [el for _, _, el in cf.elements() if el["k"] == "asg" and is_var(nocast(el["e"]["l"]), le["n"])]
                            if len(defs) == 1:
                                cn = nocast(defs[0]["e"].get("r"))
                                if cn is not None and cn.get("k") == "call":
                                    if cn.get("ref"):
                                        x = cf.call_by_id(cn["id"])
                                        cn = x[2] if x else None
                                    if cn and cn.get("callee") == "ares_buf_len" and is_var(nocast(call_arg(cn, 0)), a["n"]):
                                        # nothing appended to buf between the length read and the call
                                        okc = not _appended_between(cf, defs[0], (cb, ci), a["n"])
                                        why = "guarded by %s == 0" % le["n"]
                        elif le is not None and le.get("k") == "call":
                            cn = le
                            if cn.get("ref"):
                                x = cf.call_by_id(cn["id"])
                                cn = x[2] if x else None
                            if cn and cn.get("callee") == "ares_buf_len" and is_var(nocast(call_arg(cn, 0)), a["n"]):
                                okc = True
                                why = "guarded by ares_buf_len(%s) == 0" % a["n"]
                # (b) fresh buffer created in the caller and untouched
                if not okc:
                    defs = [(b3, i3, el) for b3, i3, el in cf.elements() if el["k"] == "asg" and is_var(nocast(el["e"]["l"]), a["n"])]
                    if len(defs) == 1:
                        cn = nocast(defs[0][2]["e"].get("r"))
                        if cn is not None and cn.get("k") == "call":
                            if cn.get("ref"):
                                x = cf.call_by_id(cn["id"])
                                cn = x[2] if x else None
                            if cn and cn.get("callee") == "ares_buf_create" and not _appended_between(cf, defs[0][2], (cb, ci), a["n"]):
                                doms = cf.dominators()
                                if defs[0][0].id == cb.id or defs[0][0].id in doms.get(cb.id, ()):
                                    okc = True
                                    why = "fresh ares_buf_create()"
            if okc:
                r.ok(k + " (%s)" % why, cf.loc(cc["ln"]))
            else:
                r.viol(k, cf.name, cf.loc(cc["ln"]), "%s hands %s a buffer that may already hold data (a TCP length prefix, earlier queued messages): recorded name offsets count from the buffer start, so every compression pointer in the message is wrong" % (cf.name, o.name))


def _appended_between(f, def_el, site, bufname):
    """is there a call taking bufname as a non-const argument on some path strictly between def_el and the call site?"""
    db = di = None
    for b, i, el in f.elements():
        if el is def_el:
            db, di = b, i
    if db is None:
        return True
    after = reach_after(f, db.id, di)
    sb, si = site
    for b, i, c in f.calls():
        if (b.id, i) == (sb.id, si):
            continue
        if (b.id, i) in after and (sb.id, si) in reach_after(f, b.id, i):
            cp = c.get("constp") or []
            for k, a in enumerate(c.get("args", [])):
                if is_var(nocast(a), bufname) and not (k < len(cp) and cp[k]):
                    return True
    return False


def r_ptr14(prog, R):
    r = R.rule("R-C03-PTR14", "only offsets representable in a 14-bit pointer are remembered / emitted", floor=2, analysis="A-DOM dominating bound")
    nw = prog.func("ares_dns_name_write")
    cs = nw.calls_to("ares_nameoffset_create")
    if not r.require(len(cs) == 1, "ares_nameoffset_create call not found"):
        return
    b, i, c = cs[0]
    idx = nocast(call_arg(c, 2))
    mf = MustFacts(nw, track_calls=False)
    bounded = False
    for c3, p3 in mf.cond_facts_at(b, i):
        op, l, rr = norm_cmp(c3, p3)
        if key(l) == key(idx) and rr is not None and const_val(rr) is not None:
            v = const_val(rr)
            if (op == "<" and v <= 0x4000) or (op == "<=" and v <= 0x3FFF):
                bounded = True
    if bounded:
        r.ok("remembered offset < 0x4000", nw.loc(c["ln"]))
    else:
        r.viol("remembered offset < 0x4000", nw.name, nw.loc(c["ln"]), "a name first written at message offset >= 16384 is remembered and later referenced through a 14-bit pointer (offset masked): the pointer leads elsewhere and the message does not parse back")
    # the emission uses the remembered offset
    emits = [el for _, _, el in nw.elements() if el["k"] in ("decl", "asg") and "0xC000" in el.get("t", "").replace("0xc000", "0xC000")]
    if emits and "off->idx" in emits[0].get("t", ""):
        r.ok("pointer = 0xC000 | remembered offset", nw.loc(emits[0]))
    else:
        r.viol("pointer = 0xC000 | remembered offset", nw.name, nw.loc(nw.ln), "compression pointer is no longer built from the remembered offset")
    # ares_nameoffset_create stores the index it is given
    nc = prog.func("ares_nameoffset_create")
    st = [el for _, _, el in nc.elements() if el["k"] == "asg" and is_field(el["e"]["l"], "idx") and is_var(nocast(el["e"].get("r")), nc.params[2]["n"])]
    if st:
        r.ok("offset stored unchanged", nc.loc(st[0]))
    else:
        r.viol("offset stored unchanged", nc.name, nc.loc(nc.ln), "ares_nameoffset_create no longer stores the offset it is given")


# ---------------------------------------------------------------- narrowing
NARROW_TARGET = {"ares_buf_append_be16": 0xFFFF, "ares_buf_append_byte": 0xFF}
WIDE = ("unsigned long", "size_t", "long", "unsigned long long")


def _unmask(e):
    e = nocast(e)
    if e is not None and e.get("k") == "bin" and e["op"] == "&" and const_val(e["r"]) in (0xFF, 0xFFFF):
        return nocast(e["l"]), True
    return e, False


def r_narrow(prog, R):
    r = R.rule("R-C03-NARROW", "every length/count narrowed onto the wire is bounded first; no success return yields more than 65535 bytes", floor=10, analysis="A-DOM bound + interval")
    total_ok = _total_rule(prog, r)
    n = 0
    for f in sorted(prog.funcs.values(), key=lambda x: x.key):
        if f.file not in (WRITE_C, NAME_C):
            continue
        mf = None
        for b, i, c in f.calls():
            mx = NARROW_TARGET.get(c.get("callee"))
            if mx is None:
                continue
            a = call_arg(c, 1)
            inner, masked = _unmask(a)
            if inner is None or (inner.get("ty") or "").replace("const ", "") not in WIDE:
                continue
            if const_val(inner) is not None:
                continue
            n += 1
            k = "fn=%s narrow %s" % (f.name, render(inner))
            if mf is None:
                mf = MustFacts(f, track_calls=False)
            facts = mf.cond_facts_at(b, i)
            lo, hi = interval(inner, facts, prog, f, point=(b.id, i)) if True else (None, None)
            if hi is not None and hi <= mx:
                r.ok(k + " <= %d" % mx, f.loc(c["ln"]))
                continue
            # counts of sections: bounded through the total-size rule (each question >= 5 bytes, each RR >= 11 bytes)
            cn = inner if inner.get("k") == "call" else None
            if cn is not None and cn.get("ref"):
                x = f.call_by_id(cn["id"])
                cn = x[2] if x else None
            if cn is not None and cn.get("callee") in ("ares_dns_record_query_cnt", "ares_dns_record_rr_cnt"):
                if total_ok:
                    r.ok(k + " (count bounded by the 65535-byte total)", f.loc(c["ln"]))
                else:
                    r.viol(k, f.name, f.loc(c["ln"]), "section count narrowed to 16 bits and nothing bounds the message size")
                continue
            # label length: ares_split_dns_name rejects labels longer than 63
            if f.name == "ares_dns_name_write" and mx == 0xFF and _labels_bounded(prog):
                r.ok(k + " (labels <= 63 by ares_split_dns_name)", f.loc(c["ln"]))
                continue
            r.viol(k, f.name, f.loc(c["ln"]), "%s is narrowed to %d bits%s without a dominating bound: larger values are silently truncated and the bytes do not parse back" % (
                render(inner), 16 if mx == 0xFFFF else 8, " (masked)" if masked else ""))
    r.info["narrowing_sites"] = n
    # truncating string copies inside the writer: the source length must have been compared with the destination size, otherwise the
    # writer silently serialises a cut-off value
    for f in sorted(prog.funcs.values(), key=lambda x: x.key):
        if f.file not in (WRITE_C, NAME_C):
            continue
        mf = None
        for b, i, c in f.calls_to("ares_strcpy"):
            src = key(call_arg(c, 1))
            k = "fn=%s ares_strcpy(%s) not truncating" % (f.name, src)
            if mf is None:
                mf = MustFacts(f, track_calls=False)
            okc = False
            for c3, p3 in mf.cond_facts_at(b, i):
                op, l3, r3 = norm_cmp(c3, p3)
                if r3 is None:
                    continue
                lt = render(l3) + " " + render(r3)
                callsrc = []
                for nd in list(walk(l3)) + list(walk(r3)):
                    if nd.get("k") == "call":
                        cn = nd
                        if cn.get("ref"):
                            x = f.call_by_id(cn["id"])
                            cn = x[2] if x else cn
                        if cn.get("callee") in ("ares_strlen", "strlen") and key(call_arg(cn, 0)) == src:
                            callsrc.append(cn)
                if callsrc and op in ("<", "<="):
                    okc = True
            if okc:
                r.ok(k, f.loc(c["ln"]))
            else:
                r.viol(k, f.name, f.loc(c["ln"]), "%s copies %s with the truncating ares_strcpy without having compared its length with the destination size: an over-long value is serialised cut off, and the write still reports success" % (f.name, src))


def _labels_bounded(prog):
    f = prog.func("ares_split_dns_name")
    for b in f.blocks.values():
        if b.term and b.term.get("cond") is not None:
            for c, p in atoms(b.term["cond"], True):
                op, l, rr = norm_cmp(c, p)
                if op == ">" and rr is not None and const_val(rr) is not None and const_val(rr) <= 255 and "len" in render(l):
                    return True
    return False


def _total_rule(prog, r):
    """every SUCCESS return of the function that owns the name list has passed a `len > 65535 -> fail` test; the framed writer checks msg_len"""
    ok = True
    S = _list_param_funcs(prog)
    owners = []
    for f in prog.funcs.values():
        for b2, i2, c2 in f.calls():
            t = prog.resolve(f, c2)
            if t is not None and t.key in S:
                a = nocast(call_arg(c2, S[t.key]))
                if a is not None and a.get("k") == "un" and a["op"] == "&" and f not in owners:
                    owners.append(f)
    summ = Summaries(prog)
    for o in owners:
        # find the test
        tests = []
        for b in o.blocks.values():
            if b.term and b.term.get("cond") is not None:
                for c, p in atoms(b.term["cond"], True):
                    op, l, rr = norm_cmp(c, p)
                    if op == ">" and rr is not None and const_val(rr) == 65535 and "ares_buf_len" in render(l):
                        tests.append(b)
        k = "fn=%s total <= 65535 on success" % o.name
        if not tests:
            r.viol(k, o.name, o.loc(o.ln), "%s can return success with a message larger than 65535 bytes (nothing checks the total): counts/lengths wrap or the peer cannot frame it" % o.name)
            ok = False
            continue
        tb = tests[0]

        def on_edge(extra, blk, cond, pol, get, tb=tb):
            if blk.id == tb.id and not pol:
                return "T"
            return extra
        vs = ValueSets(prog, o, summaries=summ, on_edge=on_edge, init_extra="", cap=4096)
        bad = False
        for b, i, el in o.returns():
            for st in vs.states_at(b, i):
                rs = vs.eval(el.get("e"), st[0])
                if (rs is None or "ARES_SUCCESS" in rs) and st[1] != "T":
                    bad = True
        if bad:
            r.viol(k, o.name, o.loc(tb.term["ln"]), "%s has a success return that does not pass the 65535-byte test" % o.name)
            ok = False
        else:
            r.ok(k, o.loc(tb.term["ln"]))
    return ok and bool(owners)


def _blocks_before(f, bid):
    """blocks from which bid is reachable and that dominate it"""
    return f.dominators().get(bid, set()) | {bid}


# ---------------------------------------------------------------- atomic failure
def r_atomic(prog, R, rid="R-C03-ATOMIC"):
    r = R.rule(rid, "a failed write leaves the caller's buffer as it was (every failure return passes ares_buf_set_length(buf, orig_len))", floor=2, analysis="M1 must-pass-through on failure paths")
    summ = Summaries(prog)
    for name in ("ares_dns_write_buf", "ares_dns_write_buf_tcp"):
        f = prog.func(name)
        # the captured origin
        cap = [el for _, _, el in exec_order(f) if el["k"] == "asg" and _is_call(f, el["e"].get("r"), "ares_buf_len")]
        if not r.require(cap, "%s: origin capture not found" % name):
            continue
        ov = key(cap[0]["e"]["l"])
        bufn = f.params[1]["n"]

        def restore(el):
            return is_call_el(el, "ares_buf_set_length") and is_var(nocast(call_arg(el["e"], 0)), bufn) and key(call_arg(el["e"], 1)) == ov
        # typestate: D = buffer may hold partial output (set by any non-const use of buf after the capture), cleared by restore
        appended_cache = {}

        def on_el(extra, blk, i, el, get):
            if el is cap[0]:
                return ["C"]
            if extra in ("C", "D") and el["k"] == "call":
                if restore(el):
                    return ["C"]
                c = el["e"]
                cp = c.get("constp") or []
                for k2, a in enumerate(c.get("args", [])):
                    if is_var(nocast(a), bufn) and not (k2 < len(cp) and cp[k2]) and c.get("callee") != "ares_buf_set_length":
                        return ["D"]
            return [extra]
        vs = ValueSets(prog, f, summaries=summ, on_el=on_el, init_extra="")
        nret = 0
        for b, i, el in f.returns():
            for st in vs.states_at(b, i):
                rs = vs.eval(el.get("e"), st[0])
                fail = rs is None or (rs - {"ARES_SUCCESS"})
                if not fail:
                    continue
                nret += 1
                k = "fn=%s failure return '%s'" % (name, el.get("t", ""))
                if st[1] == "D":
                    r.viol(k, name, f.loc(el), "%s can return a failure (%s) after appending to the caller's buffer without restoring its length: the partial message (or an orphan length prefix) stays queued in front of the next one" % (name, sorted(rs - {"ARES_SUCCESS"}) if rs else "?"))
                else:
                    r.ok(k, f.loc(el))
        r.info[name + "_failure_states"] = nret


def _is_call(f, e, *names):
    e = nocast(e)
    if e is None or e.get("k") != "call":
        return False
    if e.get("ref"):
        x = f.call_by_id(e["id"])
        e = x[2] if x else None
    return bool(e and e.get("callee") in names)


# ---------------------------------------------------------------- error discipline
ERR_EXEMPT = {}


def r_err(prog, R):
    r = R.rule("R-C03-ERR", "inside the codec no observed failure of a primitive is turned into a success return", floor=60, analysis="A-VS typestate (failure observed -> return value set)")
    summ = Summaries(prog)
    n = 0
    for f in sorted(prog.funcs.values(), key=lambda x: x.key):
        if f.file not in CODEC or (f.retw != "ares_status_t" and f.ret != "ares_status_t"):
            continue

        def on_edge(extra, blk, cond, pol, get, f=f):
            loophdr = blk.term and blk.term.get("cls") in ("WhileStmt", "ForStmt", "DoStmt")
            for c, p in atoms(cond, pol):
                op, l, rr = norm_cmp(c, p)
                ls = nocast(l)
                if ls is None or name_of_const(rr) != "ARES_SUCCESS" or op != "!=":
                    continue
                if ls.get("k") == "var":
                    return "F@%s" % blk.term.get("ln")
                if ls.get("k") == "call" and not loophdr:      # `while (fetch() == SUCCESS)` is iteration, not an error
                    return "F@%s" % blk.term.get("ln")
            return extra
        try:
            vs = ValueSets(prog, f, summaries=summ, on_edge=on_edge, init_extra="", cap=8192)
        except AnalysisBroken as e:
            r.broke("%s: %s" % (f.name, e))
            continue
        n += 1
        bad = None
        for b, i, el in f.returns():
            for st in vs.states_at(b, i):
                if not st[1]:
                    continue
                rs = vs.eval(el.get("e"), st[0])
                if rs is None or "ARES_SUCCESS" in rs:
                    bad = (el, st[1])
        k = "fn=%s propagates failures" % f.name
        if bad and f.name not in ERR_EXEMPT:
            r.viol(k, f.name, f.loc(bad[0]), "%s can return success ('%s') on a path where a primitive had failed (tested at line %s): a malformed or unwritable item is accepted, so what is written/parsed is not what was given" % (
                f.name, bad[0].get("t", ""), bad[1].split("@")[1]))
        else:
            r.ok(k, f.loc(f.ln), nontrivial=bool(f.calls()))
    r.info["functions"] = n


# ---------------------------------------------------------------- one writer
APPENDERS = ("ares_buf_append", "ares_buf_append_byte", "ares_buf_append_be16", "ares_buf_append_be32", "ares_buf_append_str", "ares_buf_append_num_dec",
             "ares_buf_append_num_hex", "ares_buf_append_start", "ares_buf_append_finish", "ares_buf_hexdump", "ares_buf_set_length", "ares_buf_ensure_space")


def r_onewriter(prog, R):
    r = R.rule("R-C03-ONEWRITER", "only the framed writer appends to a connection's out buffer; legacy builders and adapters serialise through ares_dns_write*", floor=6, analysis="A-WMC who-may-append")
    n = 0
    for f in sorted(prog.funcs.values(), key=lambda x: x.key):
        for b, i, c in f.calls():
            for k2, a in enumerate(c.get("args", [])):
                a2 = nocast(a)
                if a2 is not None and a2.get("k") == "mem" and a2["rec"] == "ares_conn" and a2["f"] == "out_buf":
                    cp = c.get("constp") or []
                    if k2 < len(cp) and cp[k2]:
                        continue
                    n += 1
                    cal = c.get("callee")
                    k = "fn=%s %s(conn->out_buf)" % (f.name, cal)
                    if cal in APPENDERS or (cal or "").startswith("ares_dns_write") and cal != "ares_dns_write_buf_tcp" or (cal or "").startswith("ares_buf_append") or (cal or "").startswith("ares_buf_parse"):
                        r.viol(k, f.name, f.loc(c["ln"]), "%s puts bytes on a connection's out buffer through %s: everything queued there must be a 2-byte-length-prefixed message produced by ares_dns_write_buf_tcp" % (f.name, cal))
                    else:
                        r.ok(k, f.loc(c["ln"]))
    r.info["out_buf_uses"] = n
    # legacy builders / adapters: no hand-written wire bytes
    for name, need in (("ares_create_query", "ares_dns_write"), ("ares_mkquery", "ares_dns_write"), ("ares_dnsrec_convert_cb", "ares_dns_write"),
                       ("ares_send", "ares_dns_parse"), ("ares_conn_query_write", "ares_dns_write_buf_tcp")):
        f = prog.func(name, required=False)
        if f is None:
            r.broke("%s not found" % name)
            continue
        calls = set()
        work = [f]
        seen = set()
        while work:
            g = work.pop()
            if g.key in seen or len(seen) > 6:
                continue
            seen.add(g.key)
            for _, _, c in g.calls():
                calls.add(c.get("callee"))
                t = prog.resolve(g, c)
                if t is not None and t.file == f.file and t.static:
                    work.append(t)
        raw = [c for c in calls if c and (c.startswith("ares_buf_append") or c in ("memcpy", "DNS__SET16BIT"))]
        stores = [el for _, _, el in f.elements() if el["k"] == "asg" and nocast(el["e"]["l"]).get("k") in ("idx",) and "unsigned char" in (nocast(el["e"]["l"]).get("ty") or "")]
        k = "fn=%s serialises through %s" % (name, need)
        if need in calls and not raw and not stores:
            r.ok(k, f.loc(f.ln))
        else:
            r.viol(k, name, f.loc(f.ln), "%s no longer goes through %s (calls %s; raw byte stores: %d)" % (name, need, sorted(x for x in raw), len(stores)))


def run(prog, R, tier):
    R.assume("field-for-field equality of re-parsed values is not decided here; only the structural preconditions listed in the level text")
    r_sym(prog, R)
    r_off(prog, R)
    r_ptr14(prog, R)
    r_narrow(prog, R)
    r_atomic(prog, R)
    r_err(prog, R)
    r_onewriter(prog, R)
    codecrules.r_limit(prog, R, "R-C03-LIMIT")
    codecrules.r_pure(prog, R, "R-C03-PURE")
    codecrules.r_valid(prog, R, "R-C03-VALID")
    codecrules.r_rcode(prog, R, "R-C03-RCODE")
    codecrules.r_optscan(prog, R, "R-C03-OPTSCAN")
    codecrules.r_qdcount(prog, R, "R-C03-QDCOUNT")
    codecrules.r_optlen(prog, R, "R-C03-OPTLEN")
    codecrules.r_caaval(prog, R, "R-C03-CAAVAL")
