"""C16 — configuration is saved, duplicated and re-applied losslessly; user settings win (mask symmetry and guards)."""
from lib import *  # noqa
import outinit
import order
from order import nocast, key

TECHNIQUE = ("table agreement between the option-mask bit -> channel-field maps extracted from ares_init_by_options and ares_save_options, guard dominance of "
             "every system-configuration store by the user's mask bit, must-set typestate of the mask bit in the user-facing setters, identity-comparison "
             "completeness for servers, and who-copies check of setter-written fields in ares_dup"
             ", comparator key order of the server container x exporting walkers, reachability 'mutation before a rejecting check' over every public setter, forward must-analysis of members written through out-parameters")
LEVEL_TEXT = ("static: decides the mask symmetry the mechanism rests on, for every option bit and every path: (MASK) the fields written when a bit is given at "
              "initialisation are exactly the fields read back when it is saved, and every ARES_OPT_* bit is handled on both sides; (WIN) every store of "
              "system configuration into the channel is dominated by 'the user did not set this bit', and setters that install user values set the bit on "
              "every success path; (IDENT) a configured server is matched to an existing one only on equal address, UDP port and TCP port; (DUP) every "
              "field a public setter writes is either covered by a mask bit or copied by ares_dup. Does NOT decide textual round trip of server lists."
              " Also decides (COPYALL) member-wise function-table copies are complete, (EXPORTORDER) whether the server list is exported in configuration order (four known findings), (SETATOMIC) that a rejected setter call changes nothing, (OUTINIT) that server configs are filled completely.")
# fifth-round additions
TECHNIQUE += "; " + "type agreement of sizeof operands with destination element types (R-C16-ELEMSIZE); interpretation of the printf format / append sequence of the server renderers against the readers' split character (R-C16-ZONEFMT); exact evaluation of the URI zone validator's character predicate against the plain reader's interface charset (R-C16-IFACESET)"
LEVEL_TEXT += " " + "(ELEMSIZE) blocks sized n*sizeof(X) are sized in units of the destination's element type; (ZONEFMT) a link-local server is rendered as address%interface with exactly the readers' split character between; (IFACESET) every non-alphanumeric character the plain syntax accepts in an interface name is also accepted by the URI zone check, one instance per character -- ':' '\\\\' '{' '}' are known findings."
LEVEL_NOTE = "trusts clang CFG + extractor; string-level fidelity of ares_get_servers_csv -> ares_set_servers_csv needs execution"
DESIGN_REF = "DESIGN.md §6/C16"
EXPLANATION = LEVEL_TEXT
NOT_DECIDED = "that the CSV/URI rendering of every server parses back to the same server (string values); value clamping at initialisation"

# bits that carry no value of their own / are folded, with the reason (confirmed by reading)
NO_VALUE = {"ARES_OPT_ROTATE": "flag only: the bit itself is the value (channel->rotate = TRUE), saved through *optmask",
            "ARES_OPT_NOROTATE": "flag only: the bit itself is the value (channel->rotate = FALSE), saved through *optmask",
            "ARES_OPT_TIMEOUT": "folded into ARES_OPT_TIMEOUTMS at initialisation (seconds -> ms); never stored in channel->optmask"}
CALL_FIELDS = {"ares_save_opt_servers": {"servers"}, "ares_init_options_servers": {"servers"}, "ares_servers_update": {"servers"}}
COMPANION = {"ndomains": "domains", "nsort": "sortlist", "nservers": "servers"}


def _bit_regions(prog, f, maskpred):
    """{BIT: [(blk, idx, el)]}: elements executed only when `mask & BIT` holds (BIT an ARES_OPT_* macro name)"""
    mf = MustFacts(f, track_calls=False)
    out = {}
    for b, i, el in f.elements():
        bits = set()
        for c, p in mf.cond_facts_at(b, i):
            op, l, rr = norm_cmp(c, p)
            if op != "truth":
                continue
            e = nocast(l)
            if e is not None and e.get("k") == "bin" and e["op"] == "&" and maskpred(nocast(e["l"])):
                for nm in _opt_names(e["r"]):
                    bits.add(nm)
        for bt in bits:
            out.setdefault(bt, []).append((b, i, el))
    return out


def _opt_names(e):
    return [m for n in walk(e) for m in ([n.get("mac")] if isinstance(n.get("mac"), str) else (n.get("mac") or [])) if isinstance(m, str) and m.startswith("ARES_OPT_")]


def _chan_fields(prog, f, items, want_write):
    s = set()
    from lib import _mem_rw
    for b, i, el in items:
        for n, w in _mem_rw(el):
            if n["rec"] == "ares_channeldata" and n["f"] != "optmask" and w == want_write:
                s.add(COMPANION.get(n["f"], n["f"]))
        if el["k"] == "call" and el["e"].get("callee") in CALL_FIELDS:
            s |= CALL_FIELDS[el["e"]["callee"]]
    return s


def _opt_fields(prog, f, items, want_write):
    s = set()
    from lib import _mem_rw
    for b, i, el in items:
        lhs_chain = set()
        if el["k"] == "asg":
            p = nocast(el["e"]["l"])
            while p is not None and p.get("k") in ("mem", "idx"):
                if p.get("k") == "mem":
                    lhs_chain.add(id(p))
                p = nocast(p.get("b"))
        for n, w in _mem_rw(el):
            w = w or id(n) in lhs_chain
            if n["rec"] == "ares_options" and w == want_write:
                s.add(COMPANION.get(n["f"], n["f"]))
        if el["k"] == "call":
            for a in el["e"].get("args", []):
                for n in mem_accesses(a):
                    if n["rec"] == "ares_options" and not want_write:
                        s.add(COMPANION.get(n["f"], n["f"]))
                a2 = nocast(a)
                if a2 is not None and a2.get("k") == "un" and a2["op"] == "&":
                    for n in mem_accesses(a2["e"]):
                        if n["rec"] == "ares_options" and want_write:
                            s.add(COMPANION.get(n["f"], n["f"]))
    return s


def maps(prog):
    fi = prog.func("ares_init_by_options")
    fs = prog.func("ares_save_options_nolock", required=False) or prog.func("ares_save_options")
    ri = _bit_regions(prog, fi, lambda e: e is not None and e.get("k") == "var" and e["n"] == "optmask")
    rs = _bit_regions(prog, fs, lambda e: e is not None and e.get("k") == "mem" and e["f"] == "optmask")
    init = {b: (_chan_fields(prog, fi, it, True), _opt_fields(prog, fi, it, False)) for b, it in ri.items()}
    save = {b: (_chan_fields(prog, fs, it, False), _opt_fields(prog, fs, it, True)) for b, it in rs.items()}
    return fi, fs, init, save


def r_mask(prog, R):
    r = R.rule("R-C16-MASK", "per option bit: fields written at initialisation == fields read when saved; every ARES_OPT_* bit is handled on both sides", floor=22, analysis="A-TAB mask symmetry")
    fi, fs, init, save = maps(prog)
    allbits = sorted(n for n in prog.macros if n.startswith("ARES_OPT_") and prog.macro_int(n) is not None)
    r.info["bits"] = len(allbits)
    if not r.require(len(allbits) >= 24, "ARES_OPT_* macros not found (%d)" % len(allbits)):
        return
    for bt in allbits:
        k = "bit %s" % bt
        if bt in NO_VALUE:
            if bt in init:
                r.ok(k + " (no stored value: %s)" % NO_VALUE[bt].split(":")[0], fi.loc(fi.ln), nontrivial=False)
            else:
                r.viol(k, fi.name, fi.loc(fi.ln), "%s is no longer handled by ares_init_by_options" % bt)
            continue
        if bt not in init:
            r.viol(k, fi.name, fi.loc(fi.ln), "%s is defined in ares.h but ares_init_by_options never tests it: the option is silently ignored" % bt)
            continue
        if bt not in save:
            r.viol(k, fs.name, fs.loc(fs.ln), "%s is applied at initialisation but never written back by %s: saving/duplicating a channel loses %s" % (bt, fs.name, sorted(init[bt][0])))
            continue
        ic, io = init[bt]
        sc, so = save[bt]
        if ic == sc and io == so and ic:
            r.ok(k + " <-> %s" % sorted(ic), fs.loc(fs.ln))
        else:
            r.viol(k, fs.name, fs.loc(fs.ln), "%s: initialisation writes channel fields %s from options %s, but saving reads %s into %s: what is saved is not what was set" % (
                bt, sorted(ic), sorted(io), sorted(sc), sorted(so)))
    # the stored mask is the (possibly reduced) mask given by the user and is what save hands back
    st = [el for _, _, el in fi.elements() if el["k"] == "asg" and is_field(el["e"]["l"], "optmask", "ares_channeldata") and is_var(nocast(el["e"].get("r")), "optmask")]
    if st:
        r.ok("init stores the mask", fi.loc(st[0]))
    else:
        r.viol("init stores the mask", fi.name, fi.loc(fi.ln), "ares_init_by_options no longer stores the option mask in channel->optmask")
    sv = [el for _, _, el in fs.elements() if el["k"] == "asg" and render(el["e"]["l"]).replace(" ", "") in ("*optmask", "(*optmask)") and any(n["f"] == "optmask" for n in mem_accesses(el["e"].get("r")))]
    if sv:
        r.ok("save returns the stored mask", fs.loc(sv[0]))
    else:
        r.viol("save returns the stored mask", fs.name, fs.loc(fs.ln), "%s no longer returns channel->optmask" % fs.name)
    return init


def r_win(prog, R, init):
    r = R.rule("R-C16-WIN", "system configuration never overrides a value whose option bit the user set; setters that install user values set the bit", floor=12, analysis="A-DOM guard dominance + A-VS must-set")
    field_bits = {}
    for bt, (cf, of) in (init or {}).items():
        for fl in cf:
            field_bits.setdefault(fl, set()).add(bt)
    field_bits.setdefault("rotate", set()).update({"ARES_OPT_ROTATE", "ARES_OPT_NOROTATE"})
    f = prog.func("ares_sysconfig_apply")
    mf = MustFacts(f, track_calls=False)
    from lib import _mem_rw
    n = 0
    for b, i, el in f.elements():
        written = set()
        for m, w in _mem_rw(el):
            if w and m["rec"] == "ares_channeldata":
                written.add(COMPANION.get(m["f"], m["f"]))
        if el["k"] == "call" and el["e"].get("callee") in CALL_FIELDS:
            written |= CALL_FIELDS[el["e"]["callee"]]
        for fl in sorted(written):
            n += 1
            k = "sysconfig store channel->%s guarded" % fl
            need = field_bits.get(fl)
            if not need:
                r.viol(k, f.name, f.loc(el), "ares_sysconfig_apply writes channel->%s, which no option bit covers: the user cannot protect it from reinit" % fl)
                continue
            have = set()
            for c, p in mf.cond_facts_at(b, i):
                op, l, rr = norm_cmp(c, p)
                if op != "false":
                    continue
                e = nocast(l)
                if e is not None and e.get("k") == "bin" and e["op"] == "&" and any(mm["f"] == "optmask" for mm in mem_accesses(e["l"])):
                    have |= set(_opt_names(e["r"]))
            if need <= have:
                r.ok(k + " by !%s" % sorted(need), f.loc(el))
            else:
                r.viol(k, f.name, f.loc(el), "system configuration is stored into channel->%s without testing that the user did not set %s: an explicit user setting is overridden at initialisation and at every reinit" % (fl, sorted(need - have)))
    r.info["sysconfig_stores"] = n
    # user-facing setters set the bit on every success path
    summ = Summaries(prog)
    su = prog.func("ares_servers_update")

    def on_el(extra, blk, i, el, get):
        if el["k"] == "asg" and el["e"]["op"] == "|=" and is_field(el["e"]["l"], "optmask", "ares_channeldata") and "ARES_OPT_SERVERS" in _opt_names(el["e"]["r"]):
            return ["S"]
        return [extra]
    vs = ValueSets(prog, su, summaries=summ, on_el=on_el, init_extra="", cap=4096)
    bad = None
    for b, i, el in su.returns():
        for st in vs.states_at(b, i):
            rs = vs.eval(el.get("e"), st[0])
            us = vs.get(st, "user_specified")
            if (rs is None or "ARES_SUCCESS" in rs) and (us is None or "ARES_TRUE" in us) and st[1] != "S":
                bad = el
    k = "ares_servers_update(user) sets ARES_OPT_SERVERS on success"
    if bad is None:
        r.ok(k, su.loc(su.ln))
    else:
        r.viol(k, su.name, su.loc(bad), "ares_servers_update can succeed for a user-specified list without recording ARES_OPT_SERVERS: the next reinit replaces the user's servers with the system's")
    # callers passing user lists use user_specified = TRUE
    for name in ("ares_set_servers", "ares_set_servers_ports", "ares_set_servers_csv", "ares_set_servers_ports_csv", "ares_init_options_servers"):
        cands = prog.by_name.get(name, [])
        if not cands:
            continue
        g = cands[0]
        # direct or through one static helper
        found = None
        work = [g]
        seen = set()
        while work:
            h = work.pop()
            if h.key in seen:
                continue
            seen.add(h.key)
            for b, i, c in h.calls():
                if c.get("callee") == "ares_servers_update":
                    found = (h, c)
                t = prog.resolve(h, c)
                if t is not None and t.static and t.file == h.file:
                    work.append(t)
        k = "%s passes user_specified=TRUE" % name
        if found and name_of_const(call_arg(found[1], 2)) == "ARES_TRUE":
            r.ok(k, found[0].loc(found[1]["ln"]))
        else:
            r.viol(k, name, g.loc(g.ln), "%s does not hand the list to ares_servers_update as user specified" % name)
    # ares_set_sortlist sets ARES_OPT_SORTLIST whenever it installs a list
    ss = prog.func("ares_set_sortlist")
    inst = [(b, i, el) for b, i, el in ss.elements() if el["k"] == "asg" and is_field(el["e"]["l"], "sortlist", "ares_channeldata")]
    setb = [(b, i, el) for b, i, el in ss.elements() if el["k"] == "asg" and el["e"]["op"] == "|=" and is_field(el["e"]["l"], "optmask") and "ARES_OPT_SORTLIST" in _opt_names(el["e"]["r"])]
    if inst and setb and (setb[0][0].id, setb[0][1]) in reach_after(ss, inst[0][0].id, inst[0][1]) and can_reach_exit_avoiding(ss, inst[0][0], inst[0][1], lambda e2: e2 is setb[0][2]) is None:
        r.ok("ares_set_sortlist sets ARES_OPT_SORTLIST", ss.loc(setb[0][2]))
    else:
        r.viol("ares_set_sortlist sets ARES_OPT_SORTLIST", ss.name, ss.loc(ss.ln), "ares_set_sortlist installs a user sortlist without recording ARES_OPT_SORTLIST on every path: reinit overrides it")


def r_ident(prog, R):
    r = R.rule("R-C16-IDENT", "a configured server matches an existing one only on equal address, UDP port and TCP port", floor=3, analysis="A-DOM must-facts at the match return")
    for name in ("ares_server_find", "ares_server_in_newconfig", "ares_server_isdup"):
        f = prog.func(name)
        mf = MustFacts(f, track_calls=False)
        for b, i, el in f.returns():
            e = nocast(el.get("e"))
            positive = (e is not None and e.get("k") == "var" and e["n"] == "node") or name_of_const(el.get("e")) == "ARES_TRUE"
            if not positive:
                continue
            facts = mf.cond_facts_at(b, i)
            have = {"addr": False, "tcp": False, "udp": False}
            for c, p in facts:
                op, l, rr = norm_cmp(c, p)
                t = render(c)
                if "ares_addr_match" in t and op == "truth":
                    have["addr"] = True
                if op == "==" and rr is not None:
                    both = render(l) + " " + render(rr)
                    cs = [x for x in walk(l)] + [x for x in walk(rr)]
                    calls = []
                    for x in cs:
                        if x.get("k") == "call":
                            cn = x
                            if cn.get("ref"):
                                y = f.call_by_id(cn["id"])
                                cn = y[2] if y else cn
                            calls.append(cn)
                    for cn in calls:
                        if cn.get("callee") == "ares_sconfig_get_port":
                            which = name_of_const(call_arg(cn, 2))
                            other_ok = ("tcp_port" in both) if which == "ARES_TRUE" else ("udp_port" in both)
                            both_calls = len([x for x in calls if x.get("callee") == "ares_sconfig_get_port" and name_of_const(call_arg(x, 2)) == which]) == 2
                            if other_ok or both_calls:
                                have["tcp" if which == "ARES_TRUE" else "udp"] = True
            k = "fn=%s match requires addr+udp+tcp" % name
            miss = [x for x, v in have.items() if not v]
            if not miss:
                r.ok(k, f.loc(el))
            else:
                r.viol(k, f.name, f.loc(el), "%s treats two servers as the same without comparing %s: setting a server list that differs only there keeps the old server, so the list read back is not the list that was set" % (name, miss))
    # a new server takes both ports from the configuration
    sc = prog.func("ares_server_create")
    got = {}
    for b, i, el in sc.elements():
        if el["k"] == "asg" and nocast(el["e"]["l"]).get("k") == "mem" and nocast(el["e"]["l"])["f"] in ("udp_port", "tcp_port"):
            cn = nocast(el["e"].get("r"))
            if cn is not None and cn.get("k") == "call":
                if cn.get("ref"):
                    y = sc.call_by_id(cn["id"])
                    cn = y[2] if y else cn
                got[nocast(el["e"]["l"])["f"]] = name_of_const(call_arg(cn, 2)) if cn.get("callee") == "ares_sconfig_get_port" else None
    if got.get("udp_port") == "ARES_FALSE" and got.get("tcp_port") == "ARES_TRUE":
        r.ok("server_create takes udp/tcp ports from the configuration", sc.loc(sc.ln))
    else:
        r.viol("server_create takes udp/tcp ports from the configuration", sc.name, sc.loc(sc.ln), "ares_server_create assigns ports %s" % got)


DUP_NOT_COPIED_OK = {
    "sortlist": "covered by ARES_OPT_SORTLIST (ares_set_sortlist sets the bit; copied through save/init)",
    "nsort": "covered by ARES_OPT_SORTLIST",
    "optmask": "the mask itself",
    "servers": "covered by ARES_OPT_SERVERS and copied through the CSV form in ares_dup",
}


def r_dup(prog, R, init):
    r = R.rule("R-C16-DUP", "every channel field a public setter writes is covered by an option bit or copied by ares_dup", floor=10, analysis="A-WMC who-copies")
    from lib import _mem_rw
    d = prog.func("ares_dup")
    copied = set()
    for b, i, el in d.elements():
        for m, w in _mem_rw(el):
            if m["rec"] == "ares_channeldata" and w:
                copied.add(m["f"])
        if el["k"] == "call" and el["e"].get("callee") in ("memcpy", "ares_strcpy"):
            for m in mem_accesses(call_arg(el["e"], 0)):
                if m["rec"] == "ares_channeldata":
                    copied.add(m["f"])
    masked = set()
    for bt, (cf, of) in (init or {}).items():
        masked |= cf
    n = 0
    for f in sorted(prog.public_functions(), key=lambda x: x.key):
        if not f.name.startswith("ares_set_"):
            continue
        written = set()
        work = [f]
        seen = set()
        while work:
            g = work.pop()
            if g.key in seen or len(seen) > 4:
                continue
            seen.add(g.key)
            for b, i, el in g.elements():
                for m, w in _mem_rw(el):
                    if m["rec"] == "ares_channeldata" and w:
                        written.add(m["f"])
                if el["k"] == "call" and el["e"].get("callee") in ("memset", "memcpy", "ares_strcpy"):
                    for m in mem_accesses(call_arg(el["e"], 0)):
                        if m["rec"] == "ares_channeldata":
                            written.add(m["f"])
            for b, i, c in g.calls():
                t = prog.resolve(g, c)
                if t is not None and t.static and t.file == g.file:
                    work.append(t)
        for fl in sorted(written):
            n += 1
            k = "setter %s field %s survives ares_dup" % (f.name, fl)
            if fl in copied:
                r.ok(k + " (copied)", d.loc(d.ln))
            elif fl in DUP_NOT_COPIED_OK or COMPANION.get(fl, fl) in masked:
                r.ok(k + " (option bit)", d.loc(d.ln))
            else:
                r.viol(k, f.name, f.loc(f.ln), "%s stores channel->%s, which is neither covered by an option bit nor copied by ares_dup: the duplicate silently loses that setting" % (f.name, fl))
    r.info["setter_fields"] = n


def r_copyall(prog, R):
    r = R.rule("R-C16-COPYALL", "a function table copied member by member is copied completely", floor=1, analysis="A-TAB member coverage")
    n = 0
    for f in sorted(prog.funcs.values(), key=lambda x: x.key):
        cp = {}
        for b, i, el in f.elements():
            if el["k"] == "asg" and el["e"]["op"] == "=":
                l, rr = strip(el["e"]["l"]), strip(el["e"].get("r"))
                if l is not None and rr is not None and l.get("k") == "mem" and rr.get("k") == "mem" and l["rec"] == rr["rec"] and l["f"] == rr["f"] \
                        and render(l["b"]) != render(rr["b"]):
                    cp.setdefault(l["rec"], {})[l["f"]] = el
        for rec, fl in cp.items():
            R0 = prog.record(rec)
            if not R0 or len(fl) < 3:
                continue
            fptr = [x["n"] for x in R0["fields"] if "(*)" in x["ty"]]
            if len(fptr) * 2 < len(R0["fields"]):
                continue          # not a function table (partial copies of plain data structs are judged by R-C16-DUP)
            n += 1
            miss = [x["n"] for x in R0["fields"] if x["n"] not in fl]
            k = "fn=%s copies all of struct %s" % (f.name, rec)
            if miss:
                r.viol(k, f.name, f.loc(next(iter(fl.values()))), "%s copies struct %s member by member but leaves out %s: the functionality behind those members silently stops working for every channel (e.g. link-local servers cannot be configured without the interface name/index functions)" % (f.name, rec, miss))
            else:
                r.ok(k + " (%d members)" % len(fl), f.loc(next(iter(fl.values()))))
    r.require(n >= 1, "no member-wise function table copy found")


def r_setatomic(prog, R):
    r = R.rule("R-C16-SETATOMIC", "a setter that rejects its argument leaves the channel as it was: no channel member is written (or cleared) on a path that still reaches a "
               "failure return of the same call", floor=10, analysis="reachability mutation -> failure return over every public ares_set_* function")
    n = 0
    for f in sorted(prog.public_functions(), key=lambda x: x.key):
        if not f.name.startswith("ares_set_") or not f.params:
            continue
        ch = f.params[0]["n"]
        muts = []
        for b, i, el in f.elements():
            if el["k"] == "asg":
                rv = root_var(el["e"]["l"])
                if rv is not None and rv["n"] == ch and not is_var(strip(el["e"]["l"])):
                    muts.append((b, i, el))
            elif el["k"] == "call" and el["e"].get("callee") in ("memset", "memcpy") and el["e"].get("args"):
                a = strip(el["e"]["args"][0])
                rv = root_var(a) if a is not None else None
                if rv is not None and rv["n"] == ch:
                    muts.append((b, i, el))
        n += 1
        k = "fn=%s rejects before it mutates" % f.name
        bad = None
        for mb, mi, mel in muts:
            after = reach_after(f, mb.id, mi)
            for b, i, el in f.elements():
                fails = False
                if el["k"] == "ret":
                    nm = name_of_const(el.get("e"))
                    fails = nm is not None and nm not in ("ARES_SUCCESS", "ARES_TRUE") and nm.startswith("ARES_E")
                elif el["k"] == "asg" and is_var(strip(el["e"]["l"])) and any(is_var(strip(x[2].get("e")), strip(el["e"]["l"])["n"]) for x in f.returns()):
                    nm = name_of_const(el["e"].get("r"))
                    # a validation failure (bad argument), not an allocation failure half way through the work
                    fails = nm in ("ARES_EFORMERR", "ARES_EBADSTR", "ARES_ENOTIMP", "ARES_EBADNAME", "ARES_EBADFAMILY")
                if fails and (b.id, i) in after:
                    bad = (mel, el)
        if bad:
            r.viol(k, f.name, f.loc(bad[0]), "%s changes the channel ('%s') before the argument check at line %s that can still reject the call: a rejected call leaves the setting half-applied or wiped (for the socket function table: NULL functions that the next request calls)" % (
                f.name, render(bad[0].get("e"))[:60], bad[1].get("ln")))
        else:
            r.ok(k, f.loc(f.ln), nontrivial=bool(muts))
    r.require(n >= 10, "fewer than 10 public setters found")


def r_duporder(prog, R):
    r = R.rule("R-C16-DUPORDER", "ares_dup installs the application's socket functions (and their data) on the duplicate before it applies the server list: link-local servers "
               "are validated through the duplicate's own interface functions; and the URI layer stores a host (with its zone id) exactly as given", floor=2,
               analysis="must-precede (dominance) of the function-table copy before the server setter + mutator census on uri->host")
    f = prog.func("ares_dup")
    doms = f.dominators()
    copies = [(b, i, el) for b, i, el in f.elements() if (el["k"] == "call" and el["e"].get("callee") in ("memcpy",) and el["e"].get("args") and "sock_funcs" in render(el["e"]["args"][0]))
              or (el["k"] == "asg" and "sock_funcs" in render(el["e"]["l"]) and "legacy" not in render(el["e"]["l"]))]
    setters = [(b, i, c) for b, i, c in f.calls() if (c.get("callee") or "").startswith("ares_set_servers")]
    if r.require(bool(copies) and bool(setters), "ares_dup: socket function copy / server setter not found"):
        for b, i, c in setters:
            k = "ares_dup: socket functions copied before %s" % c["callee"]
            ok = any((cb.id == b.id and ci < i) or (cb.id != b.id and cb.id in doms.get(b.id, ())) for cb, ci, _ in copies)
            if ok:
                r.ok(k, f.loc(c["ln"]))
            else:
                r.viol(k, f.name, f.loc(c["ln"]), "the server list is applied to the duplicate before the application's socket functions are: a link-local server on an interface only those functions know is validated with the system's if_nametoindex, fails, and is silently dropped from the duplicate")
    # uri->host stored as given
    n = 0
    for g in sorted(prog.funcs.values(), key=lambda x: x.key):
        if g.file != "src/lib/util/ares_uri.c":
            continue
        for b, i, c in g.calls():
            for k2, a in enumerate(c.get("args", [])):
                a2 = strip(a)
                if a2 is None or a2.get("k") != "mem" or a2["f"] != "host":
                    continue
                cp = c.get("constp") or []
                mutates = not (k2 < len(cp) and cp[k2])
                if not mutates:
                    continue
                n += 1
                key = "fn=%s writes uri->host only by copying" % g.name
                if c.get("callee") in ("ares_strcpy", "snprintf", "memcpy", "ares_buf_tag_fetch_string", "ares_buf_hexstr"):
                    r.ok(key, g.loc(c["ln"]), nontrivial=False)
                else:
                    r.viol(key, g.name, g.loc(c["ln"]), "%s() rewrites the stored host in place: an interface name (zone id) is case-sensitive, 'fe80::1%%Vlan7' becomes '%%vlan7', the interface is not found and the server is silently dropped when the rendered list is fed back (text round trip, ares_dup)" % c.get("callee"))
    r.require(n >= 1, "no write of uri->host found in ares_uri.c")


def r_exportorder(prog, R):
    r = R.rule("R-C16-EXPORTORDER", "whatever hands the server list back to the application (csv, address lists, saved options, and through them ares_dup) lists the servers in "
               "configuration order, not in the order of the health-sorted container", floor=3, analysis="comparator key order of channel->servers x walkers that export")
    # comparator registered for channel->servers
    cmpf = None
    for f in prog.funcs.values():
        for b, i, el in f.elements():
            if el["k"] == "asg" and is_field(el["e"]["l"], "servers", "ares_channeldata"):
                rr = strip(el["e"].get("r"))
                if rr is not None and rr.get("k") == "call":
                    full = f.call_by_id(rr["id"]) if rr.get("ref") else None
                    cn = full[2] if full else rr
                    if cn.get("callee") == "ares_slist_create" and len(cn.get("args", [])) >= 2:
                        a = strip(cn["args"][1])
                        if a is not None and a.get("k") in ("fn", "var"):
                            cmpf = prog.func(a["n"], file=f.file, required=False) or prog.func(a["n"], required=False)
    if not r.require(cmpf is not None, "comparator of channel->servers not found"):
        return
    first = None
    for bid in cmpf.rpo():
        br = cmpf.branch(bid)
        if br:
            for nd in walk(br[0]):
                if nd.get("k") == "mem" and first is None:
                    first = nd["f"]
            if first:
                break
    r.info["servers_sorted_by_first"] = first
    health_order = first != "idx"
    n = 0
    for f in sorted(prog.funcs.values(), key=lambda x: x.key):
        if f.file not in ("src/lib/ares_update_servers.c", "src/lib/ares_options.c"):
            continue
        walks = [c for _, _, c in f.calls_to("ares_slist_node_first") if c.get("args") and is_field(c["args"][0], "servers", "ares_channeldata")]
        if not walks:
            continue
        exports = (f.ret.endswith("*") and f.ret != "void *" and "ares_slist_node" not in f.ret and "ares_server" not in f.ret) or any(p["ty"].count("*") >= 2 for p in f.params)
        const_chan = any("const" in p["ty"] and "ares_channel" in p["ty"] for p in f.params)
        if not (exports and const_chan):
            continue
        n += 1
        k = "fn=%s exports the servers in configuration order" % f.name
        sorts = any("sort" in (c.get("callee") or "") or "config_order" in (c.get("callee") or "") for _, _, c in f.calls())
        if health_order and not sorts:
            r.viol(k, f.name, f.loc(walks[0]["ln"]), "%s walks channel->servers from first to last; that list is sorted by %s before the configuration index, so after a server has failed the exported list (and a channel duplicated or re-created from it) has a different order than the one configured" % (f.name, first))
        else:
            r.ok(k, f.loc(walks[0]["ln"]))
    r.require(n >= 3, "fewer than 3 exporters of the server list found")


def _fmt_tokens(fmt):
    """printf format -> list of ('lit', text) / ('conv', letter); None if it uses anything but plain %s %d %u %c %%"""
    out, i, lit = [], 0, ""
    while i < len(fmt):
        ch = fmt[i]
        if ch != "%":
            lit += ch
            i += 1
            continue
        if i + 1 >= len(fmt):
            return None
        nx = fmt[i + 1]
        if nx == "%":
            lit += "%"
            i += 2
            continue
        if nx not in "sduc":
            return None
        if lit:
            out.append(("lit", lit))
            lit = ""
        out.append(("conv", nx))
        i += 2
    if lit:
        out.append(("lit", lit))
    return out


def r_zonefmt(prog, R):
    r = R.rule("R-C16-ZONEFMT", "a link-local server is rendered as <address>%<interface> with exactly the one character the readers split on between them, in the URI form and in the "
               "plain form: what ares_get_servers_csv prints is what ares_set_servers_csv (and through it ares_dup) reads back", floor=2,
               analysis="printf format / append sequence of the writers interpreted against the delimiter constant of the readers (sibling agreement)")
    # readers: functions that fill ->ll_iface split the host at one character
    delims = set()
    for f in prog.funcs.values():
        if f.file not in ("src/lib/ares_update_servers.c", "src/lib/ares_sysconfig_files.c", "src/lib/util/ares_uri.c"):
            continue
        fills = any(c.get("callee") in ("ares_strcpy", "ares_buf_tag_fetch_string", "ares_buf_fetch_bytes_into_buf") and c.get("args") and is_field(c["args"][0], "ll_iface") for _, _, c in f.calls())
        if not fills:
            continue
        for b, i, c in f.calls():
            if c.get("callee") == "strchr" and len(c.get("args", [])) == 2 and const_val(c["args"][1]) is not None:
                delims.add(const_val(c["args"][1]))
    if not r.require(delims == {ord("%")}, "readers of ->ll_iface do not split the host at a single known character (%s)" % sorted(delims)):
        return
    d = "%"
    n = 0
    for f in sorted(prog.funcs.values(), key=lambda x: x.key):
        if f.file != "src/lib/ares_update_servers.c":
            continue
        for b, i, c in f.calls():
            args = c.get("args", [])
            if c.get("callee") == "snprintf" and any(is_field(a, "ll_iface") for a in args[3:]):
                n += 1
                k = "fn=%s URI host = address %s interface" % (f.name, d)
                fm = strip(args[2])
                toks = _fmt_tokens(fm["s"]) if fm is not None and fm.get("k") == "str" else None
                if toks is None:
                    r.broke("%s: format of the host string not interpretable" % f.name)
                    continue
                convs = [t for t in toks if t[0] == "conv"]
                ai = 3
                shape = []
                for t in toks:
                    if t[0] == "lit":
                        shape.append(t[1])
                    else:
                        a = strip(args[ai]) if ai < len(args) else None
                        ai += 1
                        if t[1] == "c" and a is not None and const_val(a) is not None:
                            shape.append(chr(const_val(a)))
                        elif is_field(a, "ll_iface"):
                            shape.append("<iface>")
                        else:
                            shape.append("<x>")
                # merge adjacent literals
                merged = []
                for x in shape:
                    if merged and not merged[-1].startswith("<") and not x.startswith("<"):
                        merged[-1] += x
                    else:
                        merged.append(x)
                if merged == ["<x>", d, "<iface>"]:
                    r.ok(k, f.loc(c["ln"]))
                else:
                    r.viol(k, f.name, f.loc(c["ln"]), "the host of a link-local server is rendered as %s: the readers (strchr(host, '%%')) take everything behind the first '%%' as the interface name, so "
                           "the name read back is not the one written, the interface cannot be resolved and the server is silently dropped by ares_set_servers_csv / ares_dup" % " ".join(merged))
            if c.get("callee") == "ares_buf_append_str" and len(args) == 2 and is_field(args[1], "ll_iface"):
                n += 1
                k = "fn=%s plain form = .. %s interface" % (f.name, d)
                # nearest preceding append on every path
                seen, work, prevs = set(), [(b.id, i - 1)], []
                while work:
                    bid, j = work.pop()
                    blk = f.blocks[bid]
                    found = False
                    while j >= 0:
                        e2 = blk.els[j]
                        if e2["k"] == "call" and (e2["e"].get("callee") or "").startswith("ares_buf_append"):
                            prevs.append(e2["e"])
                            found = True
                            break
                        j -= 1
                    if found:
                        continue
                    for pb in blk.preds:
                        if pb not in seen:
                            seen.add(pb)
                            work.append((pb, len(f.blocks[pb].els) - 1))
                good = prevs and all(p_.get("callee") == "ares_buf_append_byte" and const_val(p_["args"][1]) == ord(d) for p_ in prevs)
                if good:
                    r.ok(k, f.loc(c["ln"]))
                else:
                    r.viol(k, f.name, f.loc(c["ln"]), "the interface name is appended after %s instead of after the single character '%%' the readers split on" % sorted({render(p_) for p_ in prevs})[:2])
    r.require(n >= 2, "fewer writers of ->ll_iface than confirmed by hand (%d)" % n)


def _char_pred_set(prog, g):
    """set of byte values for which the one-character predicate g returns true (exact evaluation of its CFG), or None"""
    import evalx
    if len(g.params) != 1:
        return None
    pn = g.params[0]["n"]
    out = set()
    try:
        for ch in range(1, 256):
            v = ch if ch < 128 else ch - 256      # plain char is signed here
            res = evalx.run_cfg(g, {pn: v})
            if res[0] != "ret":
                return None
            if evalx.ev(evalx._leafify(strip(res[1].get("e"))), {pn: v}):
                out.add(ch)
    except evalx.Unknown:
        return None
    return out


def _zone_set(prog, f, c):
    """characters the validator call c (applied to the zone string) accepts"""
    alnum = set(range(48, 58)) | set(range(65, 91)) | set(range(97, 123))
    if c.get("callee") == "ares_str_isalnum":
        return alnum
    t = prog.resolve(f, c)
    if t is None:
        return None
    preds = [prog.resolve(t, cc) for _, _, cc in t.calls()]
    preds = [g for g in preds if g is not None and len(g.params) == 1 and (g.params[0].get("ty") or "") in ("char", "unsigned char", "int")]
    if len(preds) != 1 or not t.natural_loops():
        return None
    return _char_pred_set(prog, preds[0])


def r_ifaceset(prog, R):
    r = R.rule("R-C16-IFACESET", "every interface name the plain server syntax accepts can also be rendered in the dns:// URI form (needed as soon as UDP and TCP port differ): the "
               "zone check of ares_uri_set_host accepts at least the characters of parse_nameserver's interface charset", floor=5,
               analysis="sibling agreement: literal charset of the reader vs exact evaluation of the URI zone validator's character predicate")
    pn = prog.func("parse_nameserver")
    acc = None
    for b, i, c in pn.calls():
        if c.get("callee") == "ares_buf_consume_charset" and c.get("args"):
            a = strip(c["args"][1])
            lit = None
            if a is not None and a.get("k") == "str":
                lit = a["s"]
            elif is_var(a):
                for b2, i2, el in pn.elements():
                    if el["k"] == "decl":
                        for v in el["vars"]:
                            if v["n"] == a["n"] and v.get("init") is not None and strip(v["init"]).get("k") == "str":
                                lit = strip(v["init"])["s"]
            if lit is not None and "abcdefghijklmnopqrstuvwxyz" in lit:
                acc = {ord(ch) for ch in lit}
    if not r.require(acc is not None, "parse_nameserver: interface charset literal not found"):
        return
    uh = prog.func("ares_uri_set_host")
    zs = None
    site = None
    for b, i, c in uh.calls():
        if c.get("args") and len(c["args"]) == 1 and is_var(strip(c["args"][0])) and "scope" in strip(c["args"][0])["n"] and c.get("callee") not in ("ares_strlen",):
            zs = _zone_set(prog, uh, c)
            site = c
    if not r.require(zs is not None, "ares_uri_set_host: zone validator not interpretable"):
        return
    missing = sorted(acc - zs)
    r.info["reader_charset"] = "".join(chr(x) for x in sorted(acc))
    r.info["uri_zone_charset"] = "".join(chr(x) for x in sorted(zs))
    for x in sorted(acc):
        if chr(x).isalnum():
            continue
        k = "URI zone accepts %r" % chr(x)
        if x in zs:
            r.ok(k, uh.loc(site["ln"]))
        else:
            r.viol(k, uh.name, uh.loc(site["ln"]), "the plain syntax accepts %r in an interface name, the URI zone check does not: a link-local server on such an interface whose UDP and TCP ports differ "
                   "cannot be rendered -- ares_get_servers_csv() returns NULL and ares_dup() fails" % chr(x))
    k = "URI zone accepts letters and digits"
    if [x for x in acc if chr(x).isalnum() and x not in zs]:
        r.viol(k, uh.name, uh.loc(site["ln"]), "the URI zone check refuses letters or digits the plain syntax accepts")
    else:
        r.ok(k, uh.loc(site["ln"]))


def run(prog, R, tier):
    R.assume("string-level round trip of the server list (CSV/URI rendering) is not decided here")
    init = r_mask(prog, R)
    r_win(prog, R, init)
    r_ident(prog, R)
    r_dup(prog, R, init)
    r_copyall(prog, R)
    r_exportorder(prog, R)
    r_setatomic(prog, R)
    r_duporder(prog, R)
    r_zonefmt(prog, R)
    r_ifaceset(prog, R)
    # what save/dup/apply copy is copied whole: arrays are sized in units of their element type
    import sizerules
    sizerules.elemsize_rule(prog, R, "R-C16-ELEMSIZE", files={"src/lib/ares_options.c", "src/lib/ares_init.c", "src/lib/ares_sysconfig.c", "src/lib/ares_sysconfig_files.c",
                                                             "src/lib/ares_update_servers.c", "src/lib/ares_sortaddrinfo.c", "src/lib/ares_socket.c"}, floor=15)
    outinit.outinit_rule(prog, R, "R-C16-OUTINIT", only_types=("ares_sconfig_t", "ares_options", "apattern"), floor=2)
