"""C07 — timers are sound and live: no query outwaits its deadline (structural clauses)."""
from lib import *  # noqa
import lock
import order
from order import PathFacts, lex, rel, key, nocast

TECHNIQUE = ("finite ordering argument over path-sensitive comparison facts (deadline comparator, expiry test, remaining-time and min-with-maxtv), "
             "key-mutation typestate on the deadline index, loop-progress must-pass-through, wake-on-new-earliest-deadline must-pass-through, "
             "event-thread lock-depth table and sibling comparison of the event backends")
LEVEL_TEXT = ("static: decides, for all deadline values (they are only compared, so the orderings are finite) and all call paths: the deadline index is "
              "ordered by a total order on (sec,usec); its key is written only while unlinked; ares_timeout reads the head, never yields a negative or "
              "later-than-deadline or later-than-maxtv value; the expiry test agrees with it (deadline == now is expired); every expired head is "
              "re-queued (removed from the index) per loop iteration; whoever creates a new earliest deadline wakes the event thread; the event thread "
              "computes its sleep outside its mutex, rounds it up to >= 1 ms, and all backends map 0 to 'no timeout'. Does not decide wall-clock bounds.")
# seventh-round addition
TECHNIQUE += "; exact evaluation of the event thread's sleep computation (the CFG fragment between ares_timeout and the wait call) over a finite domain of (tv_sec, tv_usec) pairs"
LEVEL_TEXT += (" (EVLOOP, seventh round) the sleep handed to the wait is decided by interpreting the event thread's own statements for 52 remaining-time values chosen at the rounding "
               "boundaries: >= 1 ms and never shorter than the remaining time whenever a deadline exists, 0 when none does; any spelling of the computation is accepted.")
TECHNIQUE += "; path search from every unlink of a request from its connection and timer to a settle event (R-C07-REQUEUE, the analysis of R-C14-REQUEUE)"
LEVEL_TEXT += (" (REQUEUE, eighth round) a request taken off the deadline index is re-sent (which gives it a new deadline), parked and later re-sent, or completed on every path -- "
               "otherwise it is outstanding without a deadline and no processing call will ever retry or fail it.")
LEVEL_NOTE = "trusts clang CFG + extractor; OS primitives (poll/epoll/select, pipe) are assumed to behave as documented"
DESIGN_REF = "DESIGN.md §6/C07"
EXPLANATION = LEVEL_TEXT
NOT_DECIDED = "actual completion times under scheduling delay; clock behaviour; Windows/kqueue backends (not part of this build)"


def _pair(base):
    return (base + "sec", base + "usec")


def _ret_states(pf, f):
    for b, i, el in f.returns():
        for st in pf.states(b, i):
            yield b, i, el, st


# ---------------------------------------------------------------- comparator / expiry / remaining / min
def r_order(prog, R):
    r = R.rule("R-C07-ORDER", "deadline comparator, expiry test, remaining time and min(maxtv) are correct for every ordering of the compared values", floor=14,
               analysis="A-ORD finite orderings over path facts")
    # 1. comparator of the deadline index: found from the creation of channel->queries_by_timeout
    cmpf = None
    for f in prog.funcs.values():
        for b, i, el in f.elements():
            if el["k"] == "asg" and is_field(el["e"]["l"], "queries_by_timeout", "ares_channeldata"):
                c = _callnode(f, el["e"].get("r"))
                if c and c.get("callee") == "ares_slist_create":
                    a = nocast(call_arg(c, 1))
                    if a is not None and a.get("k") == "fn":
                        cands = [t for t in prog.by_name.get(a["n"], []) if t.file == f.file or not t.static]
                        cmpf = cands[0] if cands else None
    if not r.require(cmpf is not None, "comparator of channel->queries_by_timeout not found"):
        return
    pf = PathFacts(cmpf)
    # the two compared objects: locals initialised from the parameters, in order
    names = []
    for b, i, el in cmpf.elements():
        if el["k"] == "decl":
            for v in el["vars"]:
                e = nocast(v.get("init"))
                if e is not None and e.get("k") == "var" and e.get("vk") == "param":
                    names.append((cmpf.param_index(e["n"]), v["n"]))
    names = [n for _, n in sorted(names)]
    if not r.require(len(names) == 2, "comparator %s: operands not recognised" % cmpf.name):
        return
    A, B = _pair(names[0] + "->timeout."), _pair(names[1] + "->timeout.")
    for ln, txt in pf.unsafe:
        r.viol("comparator: no wrapping difference", cmpf.name, cmpf.loc(ln), "deadline comparator orders by the sign of '%s', which wraps for unsigned operands: two deadlines in the same second are mis-ordered" % txt)
    nret = 0
    for b, i, el, st in _ret_states(pf, cmpf):
        vals = order.ret_values(st, el.get("e"))
        poss = lex(st, A, B)
        nret += 1
        k = "comparator return %s" % render(el.get("e"))
        if vals is None:
            r.viol(k, cmpf.name, cmpf.loc(el), "comparator returns a non-constant value (%s): ordering cannot be established" % render(el.get("e")))
            continue
        want = set()
        for v in vals:
            want.add("gt" if v > 0 else ("lt" if v < 0 else "eq"))
        if len(want) == 1 and poss <= want:
            r.ok(k + " %s" % sorted(poss), cmpf.loc(el))
        else:
            r.viol(k, cmpf.name, cmpf.loc(el), "comparator returns %s although the deadlines may be ordered %s on that path: the index is no longer sorted by deadline" % (sorted(vals), sorted(poss)))
    r.require(nret >= 3, "comparator: fewer than 3 return paths")
    # fields read by the comparator are exactly timeout.sec/usec
    flds = {(n["rec"], n["f"]) for b, i, el in cmpf.elements() for n, w in mem_rw_all(cmpf, el)}
    extra = {x for x in flds if x not in {("ares_query", "timeout"), ("ares_timeval_t", "sec"), ("ares_timeval_t", "usec")}}
    if extra:
        r.viol("comparator reads only the deadline", cmpf.name, cmpf.loc(cmpf.ln), "comparator also reads %s" % sorted(extra))
    else:
        r.ok("comparator reads only the deadline", cmpf.loc(cmpf.ln))

    # 2. expiry test: TRUE <=> now >= check
    f = prog.func("ares_timedout")
    pf = PathFacts(f)
    N, C = _pair(f.params[0]["n"] + "->"), _pair(f.params[1]["n"] + "->")
    for ln, txt in pf.unsafe:
        r.viol("expiry: no wrapping difference", f.name, f.loc(ln), "expiry test uses the sign of '%s', which wraps" % txt)
    for b, i, el, st in _ret_states(pf, f):
        vals = order.ret_values(st, el.get("e"))
        poss = lex(st, N, C)
        k = "expiry return %s" % render(el.get("e"))[:40]
        if vals is None or len(vals) != 1:
            # undecided ?: both arms possible on this state: evaluate each arm under its own refinement
            e = nocast(el.get("e"))
            if e is not None and e.get("k") == "cond":
                for pol, arm in ((True, e["t"]), (False, e["f"])):
                    st2 = pf._refine(st, e["c"], pol, None)
                    v2 = order.ret_values(st2, arm)
                    p2 = lex(st2, N, C)
                    _expiry_verdict(r, f, el, v2, p2, k + ("?T" if pol else "?F"))
                continue
            r.viol(k, f.name, f.loc(el), "expiry test returns a value that is not decided by comparisons")
            continue
        _expiry_verdict(r, f, el, vals, poss, k)

    # 3. remaining time: zeroed first; subtractions only when not expired
    f = prog.func("ares_timeval_remaining")
    pf = PathFacts(f)
    rem, now, tout = [p["n"] for p in f.params]
    T, Nn = _pair(tout + "->"), _pair(now + "->")
    first = next(iter(exec_order(f)), None)
    if first and is_call_el(first[2], "memset") and key(call_arg(first[2]["e"], 0)) == rem and const_val(call_arg(first[2]["e"], 1)) == 0:
        r.ok("remaining zeroed first", f.loc(first[2]))
    else:
        r.viol("remaining zeroed first", f.name, f.loc(f.ln), "ares_timeval_remaining does not start by zeroing its result: an expired deadline yields garbage instead of 0")
    nw = 0
    for b, i, el in f.elements():
        if el["k"] != "asg":
            continue
        l = nocast(el["e"]["l"])
        if l is None or l.get("k") != "mem" or key(l["b"]) != rem:
            continue
        nw += 1
        k = "write %s %s %s" % (key(l), el["e"]["op"], render(el["e"].get("r"))[:40])
        bad = None
        for st in pf.states(b, i):
            poss = lex(st, T, Nn)
            if not poss <= {"eq", "gt"}:
                bad = "written although the deadline may already have passed (orderings %s): negative/huge remaining time" % sorted(poss)
            # unsigned subtractions must not wrap
            for n in walk(el["e"].get("r")):
                if n.get("k") == "bin" and n["op"] == "-" and not order.safe_difference(n):
                    lk, rk = key(n["l"]), key(n["r"])
                    if "1000000" in (lk or ""):
                        continue
                    if not rel(st, lk, rk) <= {"eq", "gt"}:
                        bad = "unsigned subtraction %s may wrap (orderings %s)" % (render(n), sorted(rel(st, lk, rk)))
            if el["e"]["op"] == "-=" and l["f"] == "sec":
                if not rel(st, T[0], Nn[0]) <= {"gt"}:
                    bad = "borrow from seconds although seconds may be equal: negative remaining seconds"
        if bad:
            r.viol(k, f.name, f.loc(el), bad)
        else:
            r.ok(k, f.loc(el))
    r.require(nw >= 4, "ares_timeval_remaining: result writes not recognised")

    # 4. ares_timeout_int: head of the index, min with maxtv
    f = prog.func("ares_timeout_int")
    pf = PathFacts(f)
    mf = MustFacts(f)
    okhead = False
    for b, i, el in f.elements():
        if el["k"] == "asg" and is_var(nocast(el["e"]["l"]), "node"):
            c = _callnode(f, el["e"].get("r"))
            if c and c.get("callee") == "ares_slist_node_first" and is_field(call_arg(c, 0), "queries_by_timeout", "ares_channeldata"):
                okhead = True
    if okhead:
        r.ok("timeout reads the head of the deadline index", f.loc(f.ln))
    else:
        r.viol("timeout reads the head of the deadline index", f.name, f.loc(f.ln), "ares_timeout_int no longer takes ares_slist_node_first(channel->queries_by_timeout)")
    rc = f.calls_to("ares_timeval_remaining")
    good = False
    if rc:
        c = rc[0][2]
        a0, a1, a2 = key(call_arg(c, 0)), key(call_arg(c, 1)), key(call_arg(c, 2))
        good = a0 == "(&atvbuf)" and a1 == "(&now)" and a2 == "(&query->timeout)" and mf.passed_call(rc[0][0], rc[0][1], "ares_tvnow")
        r.info["remaining_args"] = [a0, a1, a2]
    if good:
        r.ok("remaining = head deadline - now", f.loc(rc[0][2]["ln"]))
    else:
        r.viol("remaining = head deadline - now", f.name, f.loc(f.ln), "ares_timeout_int does not compute ares_timeval_remaining(&atvbuf, &now, &query->timeout) after reading the clock")
    A, M = _pair("atvbuf."), _pair("amaxtv.")
    maxtv, tvbuf = f.params[1]["n"], f.params[2]["n"]
    # alias safety: the caller may pass one struct for both; nothing reads *maxtv, and maxtv is never the result, after *tvbuf was written
    wr = [(b, i) for b, i, c in f.calls() if any(is_var(nocast(a), tvbuf) for k2, a in enumerate(c.get("args", [])) if not ((c.get("constp") or [False] * 9)[k2] if k2 < len(c.get("constp") or []) else False))]
    wr += [(b, i) for b, i, el in f.elements() if el["k"] == "asg" and any(v["n"] == tvbuf for v in vars_in(el["e"]["l"]))]
    bad_alias = None
    for wb, wi in wr:
        after = reach_after(f, wb.id if hasattr(wb, "id") else wb, wi)
        for b, i, c in f.calls():
            if (b.id, i) in after and any(is_var(nocast(a), maxtv) for a in c.get("args", [])):
                bad_alias = (c["ln"], "reads *%s" % maxtv)
        for b, i, el in f.returns():
            if (b.id, i) in after and is_var(nocast(el.get("e")), maxtv):
                bad_alias = (el["ln"], "returns %s" % maxtv)
    if not wr:
        r.viol("alias-safe: maxtv consumed before tvbuf is written", f.name, f.loc(f.ln), "ares_timeout_int never writes tvbuf")
    elif bad_alias:
        r.viol("alias-safe: maxtv consumed before tvbuf is written", f.name, f.loc(bad_alias[0]), "ares_timeout_int %s after *%s was written: with ares_timeout(ch, &tv, &tv) the caller's maximum is overwritten first and the hint can be later than it" % (bad_alias[1], tvbuf))
    else:
        r.ok("alias-safe: maxtv consumed before tvbuf is written", f.loc(f.ln))
    for b, i, el, st in _ret_states(pf, f):
        e = nocast(el.get("e"))
        k = "timeout return %s under %s" % (render(e), sorted(a for a in st if a[0] in order.OPSET and ("atvbuf" in a[1] or "node" in a[1] or "maxtv" in a[1]))[:4])
        have_node = ("!=", "node", "NULL") in st or ("truth", "node", None) in st or any(a[0] == "!=" and a[1] == "node" for a in st)
        no_node = any(a[0] == "==" and a[1] == "node" for a in st) or ("false", "node", None) in st
        max_null = any(a[0] == "==" and a[1] == maxtv for a in st) or ("false", maxtv, None) in st
        if is_var(e, maxtv):
            if no_node or lex(st, A, M) <= {"gt", "eq"}:
                r.ok(k, f.loc(el))
            else:
                r.viol(k, f.name, f.loc(el), "returns the caller's maximum although the remaining time may be smaller (orderings %s): the hint is later than the earliest deadline" % sorted(lex(st, A, M)))
        elif is_var(e, tvbuf):
            if not mf.passed_call(b, i, "ares_timeval_to_struct_timeval"):
                r.viol(k, f.name, f.loc(el), "returns tvbuf before it was filled from the remaining time")
            elif max_null or lex(st, A, M) <= {"lt", "eq"}:
                r.ok(k, f.loc(el))
            else:
                r.viol(k, f.name, f.loc(el), "returns the remaining time although the caller's maximum may be smaller (orderings %s)" % sorted(lex(st, A, M)))
        else:
            r.viol(k, f.name, f.loc(el), "returns something other than maxtv/tvbuf")


def _expiry_verdict(r, f, el, vals, poss, k):
    if vals is None or len(vals) != 1:
        r.viol(k, f.name, f.loc(el), "expiry result not decided by comparisons on this path")
        return
    v = next(iter(vals))
    want = {"eq", "gt"} if v else {"lt"}
    if poss <= want:
        r.ok(k + " %s" % sorted(poss), f.loc(el))
    else:
        r.viol(k, f.name, f.loc(el), "ares_timedout returns %s although now vs deadline may be %s: %s" % (
            "TRUE" if v else "FALSE", sorted(poss),
            "a query is retried before its deadline" if v else "a query whose deadline equals 'now' is not processed although ares_timeout reported 0 (busy loop / late)"))


def mem_rw_all(f, el):
    from lib import _mem_rw
    return _mem_rw(el)


def _callnode(f, e):
    e = nocast(e)
    if e is None:
        return None
    if e.get("k") == "call":
        if e.get("ref"):
            x = f.call_by_id(e["id"])
            return x[2] if x else None
        return e
    return None


# ---------------------------------------------------------------- key mutation
def r_key(prog, R):
    r = R.rule("R-C07-KEY", "a query's deadline is written only while it is unlinked from the deadline index and is re-linked afterwards", floor=3, analysis="A-TS key mutation")
    n = 0
    for f in sorted(prog.funcs.values(), key=lambda x: x.key):
        sites = []
        for b, i, el in f.elements():
            if el["k"] == "asg":
                l = nocast(el["e"]["l"])
                p = l
                while p is not None and p.get("k") == "mem" and not (p["rec"] == "ares_query" and p["f"] == "timeout"):
                    p = nocast(p.get("b"))
                if p is not None and p.get("k") == "mem" and p["rec"] == "ares_query" and p["f"] == "timeout":
                    sites.append((b, i, el, key(p["b"])))
            elif el["k"] == "call":
                for a in order.addr_args(el["e"]):
                    a2 = nocast(a)
                    if a2 is not None and a2.get("k") == "mem" and a2["rec"] == "ares_query" and a2["f"] == "timeout":
                        sites.append((b, i, el, key(a2["b"])))
        if not sites:
            continue
        mf = MustFacts(f)
        for b, i, el, qk in sites:
            n += 1
            k = "fn=%s write@%s" % (f.name, el.get("t", "")[:40])
            unlinked = False
            for (pb, pi, pc) in f.calls_to("ares_slist_node_destroy"):
                a = nocast(call_arg(pc, 0))
                if a is not None and a.get("k") == "mem" and a["f"] == "node_queries_by_timeout" and key(a["b"]) == qk:
                    doms = f.dominators()
                    if (pb.id == b.id and pi < i) or (pb.id != b.id and pb.id in doms.get(b.id, ())):
                        unlinked = True
            fresh = any(e2["k"] == "asg" and key(e2["e"]["l"]) == qk and (_callnode(f, e2["e"].get("r")) or {}).get("callee") in ("ares_malloc", "ares_malloc_zero")
                        for _, _, e2 in f.elements()) and not f.calls_to("ares_slist_insert")
            if not unlinked and not fresh:
                r.viol(k, f.name, f.loc(el), "%s changes %s->timeout while the query may still be linked in channel->queries_by_timeout: the index is silently unsorted and the head is no longer the earliest deadline" % (f.name, qk))
                continue
            if fresh:
                r.ok(k + " (fresh, never linked)", f.loc(el))
                continue
            # re-linked (or the request is ended) before the function returns

            def barrier(e2):
                if is_call_el(e2, "end_query", "ares_requeue_query", "ares_free_query"):
                    return True
                if e2["k"] == "asg":
                    c = _callnode(f, e2["e"].get("r"))
                    return bool(c and c.get("callee") == "ares_slist_insert" and is_field(call_arg(c, 0), "queries_by_timeout"))
                return False
            last = [s for s in sites if s[0].id == b.id]
            if (b, i, el, qk) != max(last, key=lambda s: s[1]):
                r.ok(k, f.loc(el))
                continue
            tr = can_reach_exit_avoiding(f, b, i, barrier)
            if tr is None:
                r.ok(k, f.loc(el))
            else:
                r.viol(k, f.name, f.loc(el), "after writing the deadline %s can return without re-inserting the query into channel->queries_by_timeout: the query has no timer" % f.name, trail=trail_lines(f, tr))
    r.info["deadline_writes"] = n


# ---------------------------------------------------------------- progress
def r_progress(prog, R):
    r = R.rule("R-C07-PROGRESS", "every iteration of the expiry loop removes the expired head from the index; the loop stops only at an unexpired head", floor=5, analysis="A-DOM must-pass-through on loop paths")
    f = prog.func("process_timeouts")
    loops = f.natural_loops()
    hdr = None
    for h, body in loops.items():
        if any(c.get("callee") == "ares_slist_node_first" and is_field(call_arg(c, 0), "queries_by_timeout") for bb in body | {h} for c in _calls_in_block(f, bb)):
            hdr = (h, body)
    if not r.require(hdr is not None, "process_timeouts: loop over channel->queries_by_timeout not found"):
        return
    h, body = hdr
    # any path from the header back to the header passes ares_requeue_query(query, ...)
    def is_requeue(el):
        return is_call_el(el, "ares_requeue_query")
    bad = _loop_path_avoiding(f, h, body, is_requeue)
    if bad is None:
        r.ok("iteration re-queues the head", f.loc(f.ln))
    else:
        r.viol("iteration re-queues the head", f.name, f.loc(f.ln), "an iteration of the expiry loop can come back to the head without ares_requeue_query: the same expired head is seen again (livelock) or skipped", trail=trail_lines(f, bad))
    # loop exits: header false (empty), or under !ares_timedout(now, &query->timeout), or ENOMEM
    for u in sorted(body | {h}):
        for k, v in enumerate(f.blocks[u].succs):
            if v is None or v in body or v == h:
                continue
            br = f.branch(u)
            kk = "loop exit from line %s" % ((f.blocks[u].term or {}).get("ln"))
            if u == h:
                r.ok(kk + " (index empty)", f.loc(f.blocks[u].term["ln"]))
                continue
            okx = False
            if br:
                txt = render(br[0])
                pol = (k == 0)
                if "ares_timedout" in txt:
                    # exit when NOT timed out
                    a = atoms(br[0], pol)
                    okx = any((not p) and "ares_timedout" in render(c) for c, p in a) or any(p and render(c).startswith("!") for c, p in a)
                    c = None
                    for bb, ii, cc in f.calls_to("ares_timedout"):
                        c = cc
                    if c is not None:
                        a1 = nocast(call_arg(c, 1))
                        if not (key(a1) or "").endswith("query->timeout)"):
                            okx = False
                elif "ARES_ENOMEM" in txt:
                    okx = True
            if okx:
                r.ok(kk, f.loc(f.blocks[u].term["ln"]))
            else:
                r.viol(kk, f.name, f.loc((f.blocks[u].term or {}).get("ln", f.ln)), "expiry loop can stop at '%s' while the head of the index is expired: an expired query waits for the next event" % (render(br[0]) if br else "?"))
    # ares_requeue_query -> ares_query_remove_from_conn -> slist_node_destroy(node_queries_by_timeout), on every path
    rq = prog.func("ares_requeue_query")
    tr = can_reach_exit_avoiding(rq, rq.entry, -1, lambda el: is_call_el(el, "ares_query_remove_from_conn"))
    if tr is None:
        r.ok("requeue unlinks first", rq.loc(rq.ln))
    else:
        r.viol("requeue unlinks first", rq.name, rq.loc(rq.ln), "ares_requeue_query can return without ares_query_remove_from_conn: the expired query stays at the head of the deadline index", trail=trail_lines(rq, tr))
    rm = prog.func("ares_query_remove_from_conn")

    def unlink(el):
        if not is_call_el(el, "ares_slist_node_destroy"):
            return False
        a = nocast(call_arg(el["e"], 0))
        return a is not None and a.get("k") == "mem" and a["f"] == "node_queries_by_timeout"
    tr = can_reach_exit_avoiding(rm, rm.entry, -1, unlink)
    if tr is None:
        r.ok("remove_from_conn unlinks the deadline node", rm.loc(rm.ln))
    else:
        r.viol("remove_from_conn unlinks the deadline node", rm.name, rm.loc(rm.ln), "ares_query_remove_from_conn no longer destroys query->node_queries_by_timeout on every path", trail=trail_lines(rm, tr))
    # process_timeouts is reached from every processing entry point unless the caller asked to skip it
    pf = prog.func("ares_process_fds_nolock")
    cs = pf.calls_to("process_timeouts")
    if not cs:
        r.viol("processing runs the expiry loop", pf.name, pf.loc(pf.ln), "ares_process_fds_nolock no longer calls process_timeouts")
    else:
        b, i, c = cs[0]

        def skip(cc, p):
            t = render(cc)
            if "ARES_PROCESS_FLAG_SKIP_NON_FD" in t and "flags" in t:
                return norm_cmp(cc, p)[0] in ("truth", "!=")     # caller asked to skip timeouts
            if "ARES_ENOMEM" in t:
                return norm_cmp(cc, p)[0] == "=="
            if "events" in t and norm_cmp(cc, p)[0] == "==" and is_null(norm_cmp(cc, p)[2]):
                return True
            return False
        tr = _exit_avoiding_nondefensive(pf, lambda el: is_call_el(el, "process_timeouts"), skip_edge=skip)
        if tr is not None:
            r.viol("processing runs the expiry loop", pf.name, pf.loc(c["ln"]), "ares_process_fds_nolock can return without process_timeouts although the caller did not ask to skip it and no allocation failed: processing the channel at the hinted instant does not retry/fail the expired query", trail=trail_lines(pf, tr))
        else:
            r.ok("processing runs the expiry loop", pf.loc(c["ln"]))


def _calls_in_block(f, bid):
    for b, i, c in f.calls():
        if b.id == bid:
            yield c


def _loop_path_avoiding(f, h, body, is_barrier):
    """path from after the header's terminator back to the header inside the loop body that passes no barrier element"""
    seen = set()
    work = []
    for s in f.blocks[h].succs:
        if s is not None and (s in body or s == h):
            work.append((s, [h, s]))
    while work:
        b, trail = work.pop()
        if b == h:
            return trail
        if b in seen:
            continue
        seen.add(b)
        if any(is_barrier(el) for el in f.blocks[b].els):
            continue
        for s in f.blocks[b].succs:
            if s is not None and (s in body or s == h):
                work.append((s, trail + [s]))
    return None


# ---------------------------------------------------------------- wake
def r_wake(prog, R, rid="R-C07-WAKE"):
    r = R.rule(rid, "whoever links a query into the deadline index wakes the event thread when that creates a new earliest deadline", floor=3, analysis="M1 must-pass-through + exact guard")
    wakers = _wakers(prog)
    r.info["wake_functions"] = sorted(wakers)
    nins = 0
    for f in sorted(prog.funcs.values(), key=lambda x: x.key):
        for b, i, el in f.elements():
            if el["k"] != "asg":
                continue
            c = _callnode(f, el["e"].get("r"))
            if not (c and c.get("callee") == "ares_slist_insert" and is_field(call_arg(c, 0), "queries_by_timeout")):
                continue
            nins += 1
            k = "fn=%s insert -> wake" % f.name
            # a wake call reachable after the insert, guarded at most by 'insert succeeded' and 'new node is the head'
            ws = [(wb, wi, wc) for wb, wi, wc in f.calls() if wc.get("callee") in wakers and (wb.id, wi) in reach_after(f, b.id, i)]
            if not ws:
                r.viol(k, f.name, f.loc(el), "%s links a query into channel->queries_by_timeout and never wakes the event thread: if the thread sleeps without (or with a later) deadline, the query outwaits its timeout (a request written on an idle kept-open UDP connection changes no socket interest, so nothing else wakes it)" % f.name)
                continue
            wb, wi, wc = ws[0]
            mf = MustFacts(f, track_calls=False)
            extra = []
            for cc, p in guard_delta(mf, (b.id, i + 1), (wb.id, wi)):
                t = render(cc)
                if "node_queries_by_timeout" in t and ("ares_slist_node_first" in t or "NULL" in t or t.strip("!() ").endswith("node_queries_by_timeout")):
                    continue
                extra.append(("" if p else "!") + t)
            if extra:
                r.viol(k, f.name, f.loc(wc["ln"]), "the wake after linking a deadline is conditional on %s: on the other paths the event thread keeps its old sleep" % extra)
            else:
                r.ok(k, f.loc(wc["ln"]))
    r.require(nins >= 1, "no insertion into channel->queries_by_timeout found")
    # the wake primitive signals unconditionally once the event thread exists
    for w in sorted(wakers):
        for f in prog.by_name.get(w, []):
            tr = None
            if f.name == "ares_event_thread_wake":
                tr = _exit_avoiding_nondefensive(f, lambda el: is_call_el(el, "ares_event_signal"))
                if tr is None:
                    r.ok("fn=%s signals" % f.name, f.loc(f.ln))
                else:
                    r.viol("fn=%s signals" % f.name, f.name, f.loc(f.ln), "ares_event_thread_wake can return without ares_event_signal")
    # the signal handle is the wake pipe, whose signal writes to the pipe
    sig = prog.func("ares_pipeevent_signal", required=False)
    if sig is not None:
        if any(c.get("callee") == "write" for _, _, c in sig.calls()):
            r.ok("pipe signal writes", sig.loc(sig.ln))
        else:
            r.viol("pipe signal writes", sig.name, sig.loc(sig.ln), "ares_pipeevent_signal no longer writes to the wake pipe")


def _no_event_thread_edge(c, p):
    """edge taken only when the channel has no event thread"""
    op, l, r = norm_cmp(c, p)
    if op == "false" and "ARES_OPT_EVENT_THREAD" in render(l) and "optmask" in render(l):
        return True
    if op == "==" and r is not None and const_val(r) == 0 and "ARES_OPT_EVENT_THREAD" in render(l) and "optmask" in render(l):
        return True
    return False


def _exit_avoiding_nondefensive(f, is_barrier, allow_no_event_thread=False, skip_edge=None):
    """path entry -> exit that passes no barrier element and takes no 'pointer parameter is NULL' edge"""
    seen = set()
    work = [(f.entry, [f.entry])]
    while work:
        b, trail = work.pop()
        if b in seen:
            continue
        seen.add(b)
        blk = f.blocks[b]
        if any(is_barrier(el) for el in blk.els):
            continue
        if b == f.exit:
            return trail
        br = f.branch(blk)
        for k, s2 in enumerate(blk.succs):
            if s2 is None:
                continue
            if br and len(blk.succs) == 2 and any(_null_param_fact(f, c, p) for c, p in atoms(br[0], k == 0)):
                continue
            if allow_no_event_thread and br and len(blk.succs) == 2 and any(_no_event_thread_edge(c, p) for c, p in atoms(br[0], k == 0)):
                continue
            if skip_edge and br and len(blk.succs) == 2 and any(skip_edge(c, p) for c, p in atoms(br[0], k == 0)):
                continue
            work.append((s2, trail + [s2]))
    return None


def _null_param_fact(f, c, p):
    """the early return taken because a pointer parameter is NULL"""
    op, l, r = norm_cmp(c, p)
    pn = {x["n"] for x in f.params}
    l2 = nocast(l)
    if l2 is None or l2.get("k") != "var" or l2["n"] not in pn:
        return False
    return (op == "==" and r is not None and is_null(r)) or op == "false"


def _wakers(prog):
    """functions every path of which (modulo defensive returns and the 'event thread enabled' test) reaches ares_event_thread_wake"""
    w = {"ares_event_thread_wake"}
    changed = True
    while changed:
        changed = False
        for f in prog.funcs.values():
            if f.name in w or not f.blocks:
                continue
            if not any(c.get("callee") in w for _, _, c in f.calls()):
                continue
            ok = _exit_avoiding_nondefensive(f, lambda el, w=frozenset(w): is_call_el(el, *w), allow_no_event_thread=True) is None
            if ok:
                w.add(f.name)
                changed = True
    return w


# ---------------------------------------------------------------- event thread lock table, rounding, backends
def r_evloop(prog, R):
    r = R.rule("R-C07-EVLOOP", "event loop: sleep computed and waited outside e->mutex, rounded up to >= 1 ms, processed every iteration; backends agree on timeout_ms", floor=14, analysis="A-LOCK depth table + A-TAB siblings")
    L = lock.Locks(prog)
    f = prog.func("ares_event_thread")
    want = {"ares_timeout": 0, "<wait>": 0, "ares_process_pending_write": 0, "ares_process_fds": 0, "ares_event_process_updates": 1, "ares_event_thread_cleanup": 1}
    seen = set()
    for b, i, c in f.calls():
        nm = c.get("callee") or ("<wait>" if slot_of(c.get("fnx"))[-1] == "wait" else None)
        if nm not in want:
            continue
        seen.add(nm)
        ds = {d[1] for d in L.depth_at(f, b, i)}
        if ds == {want[nm]}:
            r.ok("%s at e->mutex depth %d" % (nm, want[nm]), f.loc(c["ln"]))
        else:
            r.viol("%s at e->mutex depth %d" % (nm, want[nm]), f.name, f.loc(c["ln"]), "%s is called with e->mutex depth %s (must be %d)%s" % (
                nm, sorted(ds), want[nm], ": client threads block in ares_event_update for the whole sleep and wake-ups are delayed" if want[nm] == 0 else ": the update queue is read unlocked"))
    for nm in want:
        if nm not in seen:
            r.viol("%s present" % nm, f.name, f.loc(f.ln), "event loop no longer calls %s" % nm)
    # isup read under the mutex
    for b in f.blocks.values():
        if b.term and b.term.get("cond") is not None and any(is_field(n, "isup") for n in walk(b.term["cond"])):
            ds = {d[1] for d in L.depth_at(f, b, len(b.els))}
            if ds and min(ds) >= 1:
                r.ok("isup tested under e->mutex@%s" % b.term["ln"], f.loc(b.term["ln"]))
            else:
                r.viol("isup tested under e->mutex@%s" % b.term["ln"], f.name, f.loc(b.term["ln"]), "e->isup read without e->mutex")
    # order in one iteration: updates -> timeout -> wait -> process_fds, all inside the loop
    loops = f.natural_loops()
    body = set()
    for h, bd in loops.items():
        body |= bd | {h}
    for nm in ("ares_timeout", "ares_process_fds", "ares_event_process_updates"):
        cs = f.calls_to(nm)
        if cs and cs[0][0].id in body:
            r.ok("%s inside the loop" % nm, f.loc(cs[0][2]["ln"]))
        else:
            r.viol("%s inside the loop" % nm, f.name, f.loc(f.ln), "%s is not executed on every iteration of the event loop" % nm)
    tcs = f.calls_to("ares_timeout")
    waits = [(b, i, c) for b, i, c in f.calls() if not c.get("callee") and slot_of(c.get("fnx"))[-1] == "wait"]
    if tcs and waits:
        tb, ti, tc = tcs[0]
        wb, wi, wc = waits[0]
        # no processing between computing the timeout and waiting (a stale timeout would be slept on)
        between = [c for b, i, c in f.calls() if (b.id, i) in reach_after(f, tb.id, ti) and (wb.id, wi) in reach_after(f, b.id, i) and (b.id, i) != (wb.id, wi)
                   and c.get("callee") in ("ares_process_fds", "ares_process_pending_write", "ares_event_process_updates")]
        between = [c for c in between if not _only_via_backedge(f, tb, ti, wb, wi, c)]
        if not between:
            r.ok("wait directly follows the timeout computation", f.loc(wc["ln"]))
        else:
            r.viol("wait directly follows the timeout computation", f.name, f.loc(wc["ln"]), "%s runs between ares_timeout and the wait: deadlines created there are not reflected in the sleep" % between[0]["callee"])
        if "NULL" in render(call_arg(tc, 1)) or const_val(call_arg(tc, 1)) == 0:
            r.ok("no artificial maximum", f.loc(tc["ln"]))
        else:
            r.ok("maximum passed to ares_timeout", f.loc(tc["ln"]), nontrivial=False)
    # rounding, decided by exact evaluation of the fragment between `tvout = ares_timeout(..)` and the wait over a finite domain of (tv_sec, tv_usec):
    # a deadline gives a sleep of >= 1 ms (0 means 'no timeout' to every backend) that does not end before the deadline; no deadline gives 0
    import evalx
    tasg = [(b, i, el) for b, i, el in f.elements() if el["k"] == "asg" and is_var(nocast(el["e"]["l"]), "tvout") and "ares_timeout" in render(el["e"].get("r"))]
    asg = [(b, i, el) for b, i, el in f.elements() if el["k"] == "asg" and is_var(nocast(el["e"]["l"]), "timeout_ms")]
    dinit = [v for _, _, el in f.elements() if el["k"] == "decl" for v in el["vars"] if v["n"] == "timeout_ms"]
    if r.require(len(tasg) == 1 and asg and waits and len(dinit) == 1, "event loop: `tvout = ares_timeout(..)`, the timeout_ms computation or the wait call not found"):
        tb, ti, tel = tasg[0]
        wb, wi, wc = waits[0]
        init = const_val(dinit[0].get("init")) if dinit[0].get("init") is not None else None
        kz = "no deadline -> wait without timeout (timeout_ms 0)"
        kr = "sleep rounded up to >= 1 ms"
        if init is None:
            r.viol(kz, f.name, f.loc(f.ln), "timeout_ms has no constant initial value")
        else:
            bad_r, bad_z, unknown = None, None, None
            dom = [(s_, u_) for s_ in (0, 1, 2, 59) for u_ in (0, 1, 499, 500, 999, 1000, 1001, 1999, 2000, 500000, 999000, 999001, 999999)]

            def walk_frag(env):
                out = {}
                try:
                    res = evalx.run_cfg(f, env, start=tb.id, start_idx=ti + 1, stop_at={(wb.id, wi)}, out=out, max_steps=32)
                except evalx.Unknown as ex:
                    return None, str(ex)
                if res[0] != "stop":
                    return None, "the walk from ares_timeout did not reach the wait call (%s)" % (res[0],)
                return out.get("timeout_ms"), None
            for s_, u_ in dom:
                ms, why = walk_frag({"timeout_ms": init, "tvout": 1, "tvout->tv_sec": s_, "tvout->tv_usec": u_})
                if why:
                    unknown = why
                    break
                if ms is None or ms < 1 or ms * 1000 < s_ * 1000000 + u_:
                    bad_r = (s_, u_, ms)
                    break
            if unknown is None:
                ms, why = walk_frag({"timeout_ms": init, "tvout": 0, "tvout->tv_sec": 0, "tvout->tv_usec": 0})
                if why:
                    unknown = why
                elif ms != 0:
                    bad_z = ms
            if unknown is not None:
                r.broke("event loop: timeout computation not interpretable: %s" % unknown)
            else:
                if bad_r is None:
                    r.ok(kr, f.loc(asg[0][2]), note="%d (tv_sec, tv_usec) pairs evaluated" % len(dom))
                else:
                    r.viol(kr, f.name, f.loc(asg[0][2]), "for a remaining time of %d s %d us the event thread passes timeout_ms = %s to the wait: 0 is 'sleep without timeout' to every backend (an overdue "
                           "request is never processed) and a value below the remaining time wakes before the deadline" % bad_r)
                if bad_z is None:
                    r.ok(kz, f.loc(wc["ln"]))
                else:
                    r.viol(kz, f.name, f.loc(wc["ln"]), "with no deadline (ares_timeout returned NULL) the wait is given %s ms instead of 0 = unlimited" % bad_z)
        mf = MustFacts(f)
        allg = True
        for b, i, el in asg:
            facts = mf.cond_facts_at(b, i)
            if not any(norm_cmp(c, p)[0] in ("!=", "truth") and is_var(nocast(norm_cmp(c, p)[1]), "tvout") for c, p in facts):
                allg = False
        if allg:
            r.ok("sleep set iff a deadline exists", f.loc(asg[0][2]))
        else:
            r.viol("sleep set iff a deadline exists", f.name, f.loc(asg[0][2]), "timeout_ms computed without testing ares_timeout's result")
    # backends: timeout 0 <=> infinite
    for name, prim, argi in (("ares_evsys_epoll_wait", "epoll_wait", 3), ("ares_evsys_poll_wait", "poll", 2), ("ares_evsys_select_wait", "select", 4)):
        g = prog.func(name, required=False)
        if g is None:
            r.broke("backend %s not found" % name)
            continue
        cs = g.calls_to(prim)
        if not cs:
            r.viol("%s waits with %s" % (name, prim), g.name, g.loc(g.ln), "%s no longer calls %s" % (name, prim))
            continue
        b, i, c = cs[0]
        a = nocast(call_arg(c, argi))
        k = "%s maps timeout_ms" % name
        if prim in ("epoll_wait", "poll"):
            okb = False
            if a is not None and a.get("k") == "cond":
                op, l, rr = norm_cmp(a["c"], True)
                if op == "==" and is_var(nocast(l), "timeout_ms") and const_val(rr) == 0 and const_val(a["t"]) == -1 and is_var(nocast(a["f"]), "timeout_ms"):
                    okb = True
                if op == "!=" and is_var(nocast(l), "timeout_ms") and const_val(rr) == 0 and const_val(a["f"]) == -1 and is_var(nocast(a["t"]), "timeout_ms"):
                    okb = True
            if okb:
                r.ok(k, g.loc(c["ln"]))
            else:
                r.viol(k, g.name, g.loc(c["ln"]), "%s passes %s to %s: must be -1 exactly when timeout_ms == 0 and timeout_ms otherwise" % (name, render(a), prim))
        else:
            # select: tout = &tv only under timeout_ms != 0, tv = (ms/1000, (ms%1000)*1000)
            okb = is_var(a, "tout")
            sets = [(b2, i2, e2) for b2, i2, e2 in g.elements() if e2["k"] == "asg" and is_var(nocast(e2["e"]["l"]), "tout")]
            decl_null = any(e2["k"] == "decl" and any(v["n"] == "tout" and v.get("init") is not None and is_null(v["init"]) for v in e2["vars"]) for _, _, e2 in g.elements())
            mfg = MustFacts(g)
            for b2, i2, e2 in sets:
                facts = mfg.cond_facts_at(b2, i2)
                if not any((norm_cmp(cc, p)[0] == "truth" or (norm_cmp(cc, p)[0] in ("!=", ">") and const_val(norm_cmp(cc, p)[2]) == 0)) and is_var(nocast(norm_cmp(cc, p)[1]), "timeout_ms") for cc, p in facts):
                    okb = False
            tvs = {}
            for b2, i2, e2 in g.elements():
                if e2["k"] == "asg":
                    l = nocast(e2["e"]["l"])
                    if l is not None and l.get("k") == "mem" and key(l["b"]) == "tv":
                        tvs[l["f"]] = key(e2["e"]["r"])
            if tvs.get("tv_sec") != "(timeout_ms / 1000)" or tvs.get("tv_usec") != "((timeout_ms % 1000) * 1000)":
                okb = False
            if okb and sets and decl_null:
                r.ok(k, g.loc(c["ln"]))
            else:
                r.viol(k, g.name, g.loc(c["ln"]), "%s: select timeout must be NULL exactly when timeout_ms == 0 and (ms/1000, (ms%%1000)*1000) otherwise (found %s)" % (name, tvs))
        # each backend dispatches ev->cb
        ind = [c2 for _, _, c2 in g.calls() if not c2.get("callee") and slot_of(c2.get("fnx"))[-1] == "cb"]
        if ind:
            r.ok("%s dispatches callbacks" % name, g.loc(ind[0]["ln"]))
        else:
            r.viol("%s dispatches callbacks" % name, g.name, g.loc(g.ln), "%s never invokes ev->cb: the wake pipe is never drained/processed" % name)


def _only_via_backedge(f, tb, ti, wb, wi, c):
    """call c lies between timeout and wait only when going around the loop (i.e. wait is reached first on the forward path)"""
    # forward order inside one iteration: use reach without passing the wait
    def barrier(el):
        return el["k"] == "call" and el["e"] is not None and not el["e"].get("callee") and slot_of(el["e"].get("fnx"))[-1] == "wait"
    seen = set()
    work = [(tb.id, ti + 1)]
    while work:
        b, st = work.pop()
        blk = f.blocks[b]
        stop = False
        for j in range(st, len(blk.els)):
            el = blk.els[j]
            if barrier(el):
                stop = True
                break
            if el["k"] == "call" and el["e"] is c:
                return False
        if stop:
            continue
        for s in blk.succs:
            if s is not None and s not in seen:
                seen.add(s)
                work.append((s, 0))
    return True


def _sum_terms(e):
    e = nocast(e)
    if e is not None and e.get("k") == "bin" and e["op"] == "+":
        return _sum_terms(e["l"]) + _sum_terms(e["r"])
    return [e]


O_NONBLOCK_LINUX = 0o4000


def r_wakepipe(prog, R):
    r = R.rule("R-C07-WAKEPIPE", "both ends of the event thread's wake pipe are non-blocking: the thread drains it with a read loop that relies on a short/failed read to "
               "stop, and whoever signals it (often holding the channel lock) must not block on a full pipe", floor=2, analysis="constant flag evaluation at the pipe's creation / mode calls")
    f = prog.func("ares_pipeevent_init")
    ends = {0: False, 1: False}
    p2 = f.calls_to("pipe2")
    for b, i, c in p2:
        v = const_val(call_arg(c, 1))
        if v is not None and (v & O_NONBLOCK_LINUX):
            ends[0] = ends[1] = True
    # fcntl(fd[k], F_SETFL, val) with val having O_NONBLOCK or'ed in
    nb_vars = set()
    for b, i, el in f.elements():
        if el["k"] == "asg" and el["e"]["op"] == "|=" and is_var(strip(el["e"]["l"])) and const_val(el["e"].get("r")) is not None and (const_val(el["e"]["r"]) & O_NONBLOCK_LINUX):
            nb_vars.add(strip(el["e"]["l"])["n"])
    for b, i, c in f.calls_to("fcntl"):
        if len(c.get("args", [])) >= 3 and const_val(call_arg(c, 1)) == 4:      # F_SETFL
            fd = strip(call_arg(c, 0))
            flag = strip(call_arg(c, 2))
            k = const_val(fd["i"]) if fd is not None and fd.get("k") == "idx" else None
            if k in (0, 1) and ((is_var(flag) and flag["n"] in nb_vars) or (const_val(flag) is not None and (const_val(flag) & O_NONBLOCK_LINUX))):
                ends[k] = True
    if not r.require(bool(p2) or bool(f.calls_to("pipe")), "ares_pipeevent_init: pipe creation not found"):
        return
    for k, nm in ((0, "read end (drained by the event thread)"), (1, "write end (signalled under the channel lock)")):
        key = "wake pipe %s is non-blocking" % nm
        if ends[k]:
            r.ok(key, f.loc(f.ln))
        else:
            r.viol(key, f.name, f.loc(f.ln), "the wake pipe's %s is left in blocking mode: %s" % (nm, "the drain loop `while (read(...) == sizeof(buf))` blocks inside read() when a multiple of the buffer size is pending, and the event thread stops processing timeouts and answers" if k == 0 else "a signal on a full pipe blocks its caller while it holds the channel lock"))
    # the drain loop stops on a short read
    cb = prog.func("ares_pipeevent_process_cb", required=False) or prog.func("ares_pipeevent_cb", required=False)
    if cb is not None:
        reads = cb.calls_to("read")
        r.info["drain_reads"] = len(reads)


def run(prog, R, tier):
    R.assume("poll/epoll_wait/select return no later than the timeout they are given (plus scheduling delay); a byte written to the wake pipe makes them return")
    R.assume("configuration analysed: CARES_THREADS on Linux with the epoll, poll and select backends and the pipe wake handle")
    r_order(prog, R)
    r_key(prog, R)
    r_progress(prog, R)
    r_wake(prog, R)
    r_evloop(prog, R)
    r_wakepipe(prog, R)
    import C14
    C14.r_requeue(prog, R, rid="R-C07-REQUEUE")
