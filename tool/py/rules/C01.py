"""C01 — every request completes exactly once; nothing is used after release."""
from lib import *  # noqa
import effects

TECHNIQUE = ("request typestate by outcome summaries (disposition count x returned status x out-flag, computed bottom-up over the request layers by "
             "disjunctive value-set dataflow), index-state typestate of wire queries at every callback site, held-pointer analysis across calls "
             "with the MAY_COMPLETE effect (slot-resolved call graph), who-may-call census of the wire callback slot"
             ", who-may-hold census of query/connection pointer members over all record types and re-derivation check of the deferred re-send")
LEVEL_TEXT = ("static: decides on every CFG path, including OOM/failure unwinds, (ONCE) that every request layer disposes its request exactly once "
              "(completes it or hands it to the layer below) and that status/flag protocols between layers tell the truth; (COUNTED) that the "
              "getaddrinfo sub-request counter matches the lookups started; (DETACH) that a wire query is unreachable from the indexes a re-entrant "
              "request/cancel can walk when its callback runs; (HELD) that no query/connection/list-node pointer is used after a call that may run a "
              "user completion callback unless re-derived or pinned; (ENDER) who may invoke and free wire queries. Re-entrant API set assumed inside "
              "completion callbacks: new requests and ares_cancel."
              " Also decides that no record type parks a query/connection pointer outside the indexes the release path clears, and that the deferred re-send looks its query up by id again.")
# fifth-round additions
TECHNIQUE += "; " + 'reachability from effectful calls to stores through out-parameters that callers point into heap request state (R-C01-OUTPARAM)'
LEVEL_TEXT += " " + '(OUTPARAM) after a call that may run the completion callback nothing is stored through an out-parameter for which some caller passes the address of a member of a heap object, except on the edge on which that call reported the request as pending.'
LEVEL_NOTE = ("trusts clang CFG + extractor; indirect calls are resolved by slot (completion-typed pointers) and per container instance; "
              "effect preconditions and pins are frozen tables with one-line reasons (EFFECT_PRECONDITIONS, PINNED)")
DESIGN_REF = "DESIGN.md §6/C01"
EXPLANATION = LEVEL_TEXT
NOT_DECIDED = "histories that need concrete network behaviour to order events; ares_destroy or server-list edits from inside callbacks (outside the assumed re-entrant set)"

LAYER_FILES = ("src/lib/ares_send.c", "src/lib/ares_query.c", "src/lib/ares_search.c", "src/lib/ares_getaddrinfo.c", "src/lib/ares_gethostbyname.c",
               "src/lib/ares_gethostbyaddr.c", "src/lib/ares_getnameinfo.c")
HELD_FILES = ("src/lib/ares_process.c", "src/lib/ares_send.c", "src/lib/ares_close_sockets.c", "src/lib/ares_cookie.c", "src/lib/ares_cancel.c",
              "src/lib/ares_destroy.c", "src/lib/ares_conn.c") + LAYER_FILES[1:]

Q_TYPES = ("struct ares_query *", "const struct ares_query *")
C_TYPES = ("struct ares_conn *", "const struct ares_conn *")
N_TYPES = ("struct ares_llist_node *", "struct ares_slist_node *")
# containers the assumed re-entrant API (requests, cancel) can mutate: nodes of these must not be cached across callbacks
MUTABLE_CONTAINERS = {("ares_channeldata", "all_queries"), ("ares_server", "connections"), ("ares_conn", "queries_to_conn"),
                      ("ares_channeldata", "queries_by_timeout")}
LOOKUPS = {"ares_htable_szvp_get_direct", "ares_htable_asvp_get_direct", "ares_slist_node_val", "ares_slist_first_val", "ares_llist_node_val",
           "ares_llist_first_val", "ares_llist_node_claim", "ares_conn_from_fd", "ares_fetch_connection", "ares_slist_node_first",
           "ares_llist_node_first", "ares_llist_node_next", "ares_slist_node_next", "ares_malloc", "ares_malloc_zero"}
# wire-level hand-off: ares_send_nolock's request is taken over by the retry state machine
WIRE_HANDOFF = {"ares_send_query"}
PINNED = {
    # (function, var): reason
    ("ares_requeue_queries", "conn"): "only caller is ares_close_connection, after the connection was unlinked from connnode_by_socket and server->connections",
}


def vty(f, name):
    for v in f.vars.values():
        if v["n"] == name:
            return v["ty"]
    return None


# --------------------------------------------------------------------------
# ENDER
# --------------------------------------------------------------------------

def r_ender(prog, R):
    r = R.rule("R-C01-ENDER", "who may invoke and free a wire query; callback is immediately followed by ares_free_query of the same query", floor=8, analysis="A-WMC + straight-line check")
    allowed = {"end_query", "ares_cancel", "ares_destroy"}
    n = 0
    for f, b, i, c, slot in indirect_calls(prog):
        if slot == ("field", "ares_query", "callback"):
            n += 1
            key = "invoker=%s" % f.name
            if f.name not in allowed:
                r.viol(key, f.name, f.loc(c["ln"]), "wire query callback invoked from %s (only end_query, ares_cancel, ares_destroy may complete a wire query)" % f.name)
                continue
            r.ok(key, f.loc(c["ln"]))
            qv = path(strip(c["fnx"])["b"])
            # next call element on every path is ares_free_query(qv)
            nxt = _next_calls(f, b, i)
            bad = [x for x in nxt if not (x.get("callee") == "ares_free_query" and path(call_arg(x, 0)) == qv)]
            if bad or not nxt:
                r.viol("callback-then-free@%s" % f.name, f.name, f.loc(c["ln"]), "after the callback the next call is %s, not ares_free_query(%s): the completed query stays alive/reachable" % (
                    [x.get("callee") for x in bad] or "none", qv))
            else:
                r.ok("callback-then-free@%s" % f.name, f.loc(c["ln"]))
    r.require(n >= 3, "fewer than 3 invocation sites of the wire query callback (%d)" % n)
    ok_callers = allowed | {"ares_send_nolock"}
    for cf, b, i, c in prog.callers_of("ares_free_query"):
        key = "free-caller=%s#%d" % (cf.name, sorted(x[2]["id"] for x in cf.calls_to("ares_free_query")).index(c["id"]))
        if cf.name not in ok_callers:
            r.viol(key, cf.name, cf.loc(c["ln"]), "ares_free_query called from %s: a query can be released without its callback having run" % cf.name)
        else:
            r.ok(key, cf.loc(c["ln"]))
    # in ares_send_nolock every ares_free_query is on a path that invoked the callback parameter
    s = prog.func("ares_send_nolock")
    E = effects.Effects(prog)
    for b, i, c in s.calls_to("ares_free_query"):
        isc = lambda el: el["k"] == "call" and E.is_completion_call(el["e"])
        t = can_reach_from_entry_avoiding(s, b, i, isc)
        if t is not None and can_reach_exit_avoiding(s, b, i, isc) is None:
            t = None     # the callback follows the release on every path
        if t is not None:
            r.viol("send-free-implies-callback", s.name, s.loc(c["ln"]), "query released on a path that neither invoked the callback before nor invokes it afterwards", trail=trail_lines(s, t))
        else:
            r.ok("send-free-implies-callback#%d" % c["id"], s.loc(c["ln"]))
    return E


def _next_calls(f, b, i):
    """first call element on each path after (b,i)"""
    out = []
    seen = set()
    work = [(b.id, i + 1)]
    while work:
        bb, st = work.pop()
        blk = f.blocks[bb]
        found = False
        for j in range(st, len(blk.els)):
            if blk.els[j]["k"] == "call":
                out.append(blk.els[j]["e"])
                found = True
                break
        if found:
            continue
        for s in f.succ(bb):
            if s not in seen:
                seen.add(s)
                work.append((s, 0))
    return out


# --------------------------------------------------------------------------
# index state of wire queries
# --------------------------------------------------------------------------

def _must_calls_on_param(prog, g, pname, prims, depth=0):
    """does every path through g call one of `prims` with first-arg == pname (directly or via a callee that must)?"""
    def barrier(el):
        if el["k"] != "call":
            return False
        c = el["e"]
        if c.get("callee") in prims and any(path(a) == pname for a in c.get("args", [])[:1]):
            return True
        if depth < 2:
            t = prog.resolve(g, c)
            if t is not None:
                for k, a in enumerate(c.get("args", [])):
                    if path(a) == pname and k < len(t.params) and _must_calls_on_param(prog, t, t.params[k]["n"], prims, depth + 1):
                        return True
        return False
    return can_reach_exit_avoiding(g, g.entry, -1, barrier) is None


DET_CONN = {"ares_query_remove_from_conn"}
DET_ALL = {"ares_detach_query"}


def index_states(prog, f, qvars):
    """forward typestate: for each wire-query variable, (in_all, in_conn) in {'Y','N'}; 'F' = freed"""
    names = sorted(qvars)
    idx = {n: k for k, n in enumerate(names)}

    def init_of(n):
        return ("Y", "Y")
    init = tuple(init_of(n) for n in names)

    def setv(st, n, v):
        l = list(st)
        l[idx[n]] = v
        return tuple(l)

    def transfer(st, blk, i, el):
        k = el["k"]
        if k == "decl":
            for v in el["vars"]:
                if v["n"] in idx and v.get("init") is not None:
                    st = setv(st, v["n"], _fresh(v["init"]))
        elif k == "asg":
            p = path(el["e"]["l"])
            if p in idx and el["e"]["op"] == "=":
                st = setv(st, p, _fresh(el["e"]["r"]))
            else:
                l = strip(el["e"]["l"])
                if l.get("k") == "mem" and path(l["b"]) in idx:
                    q = path(l["b"])
                    r_ = strip(el["e"].get("r")) if el["e"].get("r") is not None else None
                    a, c_ = st[idx[q]]
                    if l["f"] == "node_all_queries" and r_ is not None and r_.get("k") == "call" and (r_.get("callee") or "").startswith("ares_llist_insert"):
                        st = setv(st, q, ("Y", c_))
                    if l["f"] == "node_queries_to_conn" and r_ is not None and r_.get("k") == "call" and (r_.get("callee") or "").startswith("ares_llist_insert"):
                        st = setv(st, q, (a, "Y"))
        elif k == "call":
            c = el["e"]
            cal = c.get("callee")
            args = c.get("args", [])
            for q in names:
                a, c_ = st[idx[q]]
                if cal in ("ares_llist_node_destroy", "ares_llist_node_claim") and args and strip(args[0]).get("k") == "mem" and path(strip(args[0])["b"]) == q:
                    fld = strip(args[0])["f"]
                    if fld == "node_all_queries":
                        st = setv(st, q, ("N", c_))
                    elif fld == "node_queries_to_conn":
                        st = setv(st, q, (a, "N"))
                    continue
                t = prog.resolve(f, c)
                if t is None:
                    continue
                for kk, ar in enumerate(args):
                    if path(ar) == q and kk < len(t.params):
                        pn = t.params[kk]["n"]
                        if t.name == "ares_free_query":
                            st = setv(st, q, ("N", "N"))
                        elif t.name in DET_ALL or _must_calls_on_param(prog, t, pn, DET_ALL):
                            st = setv(st, q, ("N", "N"))
                        elif t.name in DET_CONN or _must_calls_on_param(prog, t, pn, DET_CONN):
                            st = setv(st, q, (st[idx[q]][0], "N"))
                        elif t.name in ("ares_send_query", "ares_requeue_query"):
                            st = setv(st, q, (st[idx[q]][0], "Y"))
        return [st]

    def _fresh(rhs):
        r_ = strip(rhs)
        if r_ is not None and r_.get("k") == "call":
            cal = r_.get("callee")
            if cal in ("ares_malloc", "ares_malloc_zero"):
                return ("N", "N")
            if cal == "ares_llist_node_claim":
                return ("N", "Y")     # claimed from the list it was found on (all_queries or its swapped copy)
        return ("Y", "Y")

    def refine(st, cond, pol, blk):
        for c, p in atoms(cond, pol):
            op, l, r_ = norm_cmp(c, p)
            ls = strip(l)
            if ls is not None and ls.get("k") == "mem" and path(ls["b"]) in idx:
                q = path(ls["b"])
                isnull = (op == "==" and r_ is not None and is_null(r_)) or op == "false"
                if isnull and ls["f"] == "node_all_queries":
                    st = setv(st, q, ("N", st[idx[q]][1]))
                if isnull and ls["f"] == "node_queries_to_conn":
                    st = setv(st, q, (st[idx[q]][0], "N"))
            # `if (!ares_htable_szvp_insert(...qid...))`: no information about all_queries
        return st
    at = forward_states(f, init, transfer, refine, cap=1024)
    return at, idx


def r_detach(prog, R, E):
    r = R.rule("R-C01-DETACH", "a wire query is unreachable from all_queries and its connection list when its callback runs", floor=3, analysis="A-TS index state")
    n = 0
    for f, b, i, c, slot in indirect_calls(prog):
        if slot != ("field", "ares_query", "callback"):
            continue
        n += 1
        qv = path(strip(c["fnx"])["b"])
        at, idx = index_states(prog, f, {qv})
        sts = at.get((b.id, i), set())
        r.require(bool(sts), "callback site in %s unreachable in the typestate analysis" % f.name)
        ina = {st[idx[qv]][0] for st in sts}
        inc = {st[idx[qv]][1] for st in sts}
        if "Y" in ina:
            r.viol("site=%s index=all_queries" % f.name, f.name, f.loc(c["ln"]),
                   "the completion callback runs while the query is still in channel->all_queries: a callback that calls ares_cancel() gets the same query completed and freed again")
        else:
            r.ok("site=%s index=all_queries" % f.name, f.loc(c["ln"]))
        if "Y" in inc:
            r.viol("site=%s index=conn-queries" % f.name, f.name, f.loc(c["ln"]),
                   "the completion callback runs while the query is still on its connection's queries_to_conn: a request started by the callback whose send fails on that connection requeues and completes this query again")
        else:
            r.ok("site=%s index=conn-queries" % f.name, f.loc(c["ln"]))
    r.require(n >= 3, "fewer than 3 wire callback sites")


# --------------------------------------------------------------------------
# HELD
# --------------------------------------------------------------------------

def effect_returns(prog, E, g, memo):
    """set of enum return values g can produce on paths that executed a MAY_COMPLETE call; None = unknown/any"""
    if g.key in memo:
        return memo[g.key]
    memo[g.key] = None
    if prog.enums.get(g.ret) is None:
        return None

    def on_el(extra, blk, i, el, get):
        if el["k"] == "call" and E.call_may_complete(g, el["e"]):
            return [True]
        return [extra]
    try:
        vs = ValueSets(prog, g, on_el=on_el, init_extra=False, cap=2048)
    except AnalysisBroken:
        return None
    out = set()
    for b, i, el in g.returns():
        for st in vs.states_at(b, i):
            if st[1]:
                s = vs.eval(el.get("e"), st[0])
                if s is None:
                    memo[g.key] = None
                    return None
                out |= s
    memo[g.key] = frozenset(out)
    return memo[g.key]


def _safe_edges(prog, E, f, c, memo):
    """edges out of branches on the result of call c on which the callee's effect is excluded"""
    t = prog.resolve(f, c)
    if t is None:
        return []
    er = effect_returns(prog, E, t, memo)
    if er is None:
        return []
    out = []
    for g in call_result_branches(f, t.name):
        if g["call"].get("id") != c.get("id"):
            continue
        nm = name_of_const(g["rhs"]) if g["rhs"] is not None else None
        if nm is None:
            continue
        if g["op"] == "==" and nm not in er:
            out.append((g["block"].id, g["true"]))
        if g["op"] == "!=" and nm not in er:
            out.append((g["block"].id, g["false"]))
    return out


def _is_use(n, name):
    return n.get("k") == "var" and n["n"] == name


def _uses_after(f, b, i, name, avoid_edges, fresh_ok):
    """first elements after (b,i) that dereference / pass variable `name`, not crossing a re-derivation"""
    out = []
    seen = set()
    avoid = set(avoid_edges)
    work = [(b.id, i + 1)]
    while work:
        bb, st = work.pop()
        blk = f.blocks[bb]
        stop = False
        for j in range(st, len(blk.els)):
            el = blk.els[j]
            # assignment to the variable: re-derivation (fresh only if from a lookup)
            tgt = None
            if el["k"] == "asg" and path(el["e"]["l"]) == name and el["e"]["op"] == "=":
                tgt = el["e"]["r"]
            elif el["k"] == "decl":
                for v in el["vars"]:
                    if v["n"] == name and v.get("init") is not None:
                        tgt = v["init"]
            if tgt is not None:
                if element_mentions({"k": "ret", "e": tgt}, lambda n: _is_use(n, name)):
                    out.append((blk, j, el))
                if not fresh_ok(tgt):
                    out.append((blk, j, el, "stale-source"))
                stop = True
                break
            if _mentions_deref_or_pass(el, name):
                out.append((blk, j, el))
                stop = True
                break
        if stop:
            continue
        if blk.term and blk.term.get("cond") is not None and any(n.get("k") == "mem" and path(n["b"]) == name for n in walk(blk.term["cond"])):
            out.append((blk, len(blk.els), blk.term))
            continue
        for s in f.succ(bb):
            if (bb, s) in avoid:
                continue
            if s not in seen:
                seen.add(s)
                work.append((s, 0))
    return out


def _mentions_deref_or_pass(el, name):
    trees = []
    if el["k"] == "decl":
        trees = [v["init"] for v in el["vars"] if v.get("init") is not None]
    elif el.get("e") is not None:
        trees = [el["e"]]
    for t in trees:
        for n in walk(t):
            if n.get("k") == "mem" and n.get("arrow") and path(n["b"]) == name:
                return True
            if n.get("k") == "un" and n["op"] == "*" and path(n["e"]) == name:
                return True
            if n.get("k") == "call" and not n.get("ref"):
                for a in n.get("args", []):
                    if path(a) == name:
                        return True
    if el["k"] == "ret" and el.get("e") is not None and path(el["e"]) == name:
        return True
    return False


def r_held(prog, R, E, tier):
    r = R.rule("R-C01-HELD", "no query/connection/list-node pointer is used after a call that may run a completion callback, unless re-derived by lookup or pinned", floor=20,
               analysis="M2 effect + held-pointer dataflow")
    memo = {}
    funcs = [f for f in prog.funcs.values() if f.file in HELD_FILES]
    nsites = 0
    reported = set()
    for f in funcs:
        tracked = {}
        for v in f.vars.values():
            if v["ty"] in Q_TYPES:
                tracked[v["n"]] = "query"
            elif v["ty"] in C_TYPES:
                tracked[v["n"]] = "conn"
            elif v["ty"] in N_TYPES:
                src = E._var_container_sources(f, v["n"])
                if src & MUTABLE_CONTAINERS:
                    tracked[v["n"]] = "node"
        if not tracked:
            continue
        sites = [(b, i, c) for b, i, c in f.calls() if E.call_may_complete(f, c)]
        if not sites:
            continue
        qvars = {n for n, k in tracked.items() if k == "query"}
        at, idx = index_states(prog, f, qvars) if qvars else ({}, {})
        mf = MustFacts(f)
        for b, i, c in sites:
            cname = c.get("callee") or "<callback>"
            # frozen effect precondition
            if cname == "ares_close_connection":
                facts = mf.cond_facts_at(b, i)
                if any((not p) and is_call_to(cc, "ares_llist_len") for cc, p in facts):
                    r.ok("no-effect:%s@%s (connection has no queries)" % (cname, f.name), f.loc(c["ln"]), nontrivial=False)
                    continue
            avoid = _safe_edges(prog, E, f, c, memo)
            for name, kind in sorted(tracked.items()):
                nsites += 1
                key = "fn=%s held=%s:%s across=%s" % (f.name, name, kind, cname)
                if (f.name, name) in PINNED:
                    r.ok(key + " (pinned: %s)" % PINNED[(f.name, name)], f.loc(c["ln"]), nontrivial=False)
                    continue
                if kind == "query":
                    sts = at.get((b.id, i), set())
                    if sts and all(st[idx[name]] == ("N", "N") for st in sts):
                        r.ok(key + " (detached)", f.loc(c["ln"]))
                        continue
                if kind == "conn" and f.name == "ares_close_connection":
                    if mf.passed_call(b, i, "ares_llist_node_claim") and mf.passed_call(b, i, "ares_htable_asvp_remove"):
                        r.ok(key + " (unlinked)", f.loc(c["ln"]))
                        continue

                def fresh_ok(rhs, kind=kind):
                    r_ = strip(rhs)
                    if r_ is None:
                        return True
                    if is_null(r_):
                        return True
                    if r_.get("k") == "call":
                        return True     # results of calls made after the callback are fresh derivations
                    if r_.get("k") == "var" and r_.get("vk") in ("local", "param"):
                        return r_["n"] not in tracked
                    if r_.get("k") == "mem" and r_.get("arrow"):
                        # a field read through a pointer is a fresh read of current memory, provided the base itself
                        # is not one of the pointers that may have been invalidated
                        # (if the base is itself a held pointer its staleness is reported under that variable)
                        return root_var(r_) is not None
                    return False   # e.g. a member of a local struct copied before the call: a stale snapshot
                us = _uses_after(f, b, i, name, avoid, fresh_ok)
                us = [u for u in us if not _defined_after_only(f, name, b, i, u)]
                if us and key not in reported:
                    reported.add(key)
                    u = us[0]
                    what = "assigned from a value saved before the call" if len(u) == 4 else "used"
                    r.viol(key, f.name, f.loc(u[2] if isinstance(u[2], dict) and "ln" in u[2] else c["ln"]),
                           "'%s' (%s pointer) is %s after %s, which may run a completion callback that cancels/starts requests and so frees or closes what it points to" % (name, kind, what, cname),
                           trail=["call at %s" % f.loc(c["ln"]), "use: %s" % (u[2].get("t", "") if isinstance(u[2], dict) else "")])
                elif not us:
                    r.ok(key, f.loc(c["ln"]), nontrivial=True)
    r.info["sites_x_vars"] = nsites
    r.info["may_complete_functions"] = sum(1 for v in E.may.values() if v)


def _points_into_heap_state(prog, f, pn, depth=0, seen=None):
    """some caller (transitively, through parameters handed on) passes the address of a member of a heap object (&ctx->field) for parameter pn"""
    seen = seen if seen is not None else set()
    if (f.key, pn) in seen or depth > 4:
        return False
    seen.add((f.key, pn))
    pi = f.param_index(pn)
    if pi is None:
        return False
    for g, b, i, c in prog.callers_of(f):
        if pi >= len(c.get("args", [])):
            continue
        a = strip(c["args"][pi])
        if a is None:
            continue
        if a.get("k") == "un" and a["op"] == "&":
            t = strip(a["e"])
            if t is not None and t.get("k") == "mem" and t.get("arrow"):
                return True
        if a.get("k") == "var" and a.get("vk") == "param" and _points_into_heap_state(prog, g, a["n"], depth + 1, seen):
            return True
    return False


def r_outparam(prog, R, E):
    r = R.rule("R-C01-OUTPARAM", "after a call that may run the completion callback, nothing is written through an out-parameter unless the call reported that the request is still "
               "pending: the callback may have released the caller's request state, and the library's own callers point such out-parameters into that state (&hquery->qid_a)", floor=1,
               analysis="M2 effect + reachability from the call to stores through pointer parameters, edges on which the effect is excluded pruned")
    memo = {}
    n = 0
    for f in sorted(prog.funcs.values(), key=lambda x: x.key):
        if not f.file.startswith("src/lib/") or f.file.startswith(("src/lib/dsa/", "src/lib/str/", "src/lib/util/")):
            continue
        outs = {}
        for b, i, el in f.elements():
            if el["k"] == "asg":
                l = strip(el["e"]["l"])
                if l is not None and l.get("k") == "un" and l["op"] == "*" and is_var(strip(l["e"])) and strip(l["e"]).get("vk") == "param":
                    outs.setdefault(strip(l["e"])["n"], []).append((b, i, el))
        if not outs:
            continue
        sites = [(b, i, c) for b, i, c in f.calls() if E.call_may_complete(f, c)]
        for b, i, c in sites:
            cname = c.get("callee") or "<callback>"
            avoid = list(_safe_edges(prog, E, f, c, memo))
            for g in (call_result_branches(f, c["callee"]) if c.get("callee") else []):
                if g["call"].get("id") == c.get("id"):
                    pe = status_pass_edge(g)
                    if pe:
                        avoid.append((g["block"].id, pe[0]))      # the request is pending: its callback has not run
            # the same test written apart from the call: a branch on the variable that holds the call's result, not reassigned in between
            holder = None
            if i + 1 < len(b.els):
                e1 = b.els[i + 1]
                if e1["k"] == "asg" and e1["e"]["op"] == "=" and is_var(strip(e1["e"]["l"])):
                    r1 = strip(e1["e"].get("r"))
                    if r1 is not None and r1.get("k") == "call" and r1.get("ref") and r1.get("id") == c.get("id"):
                        holder = strip(e1["e"]["l"])["n"]
            if holder:
                same = reach_avoiding(f, b.id, [], lambda e2: e2["k"] == "asg" and is_var(strip(e2["e"]["l"]), holder), i + 2)
                for blk2 in f.blocks.values():
                    if blk2.id != b.id and blk2.id not in same:
                        continue
                    br2 = f.branch(blk2)
                    if not br2:
                        continue
                    ats2 = atoms(br2[0], True)
                    if len(ats2) != 1:
                        continue
                    op2, l2, rr2 = norm_cmp(ats2[0][0], ats2[0][1])
                    if not is_var(strip(l2), holder):
                        continue
                    pe = status_pass_edge({"op": op2, "rhs": rr2, "true": br2[1], "false": br2[2]})
                    if pe:
                        avoid.append((blk2.id, pe[0]))
            pred = reach_avoiding(f, b.id, avoid, None, i + 1)
            for pn, stores in sorted(outs.items()):
                if not _points_into_heap_state(prog, f, pn):
                    continue
                hit = None
                for sb, si, sel in stores:
                    if (sb.id == b.id and si > i) or sb.id in pred:
                        hit = (sb, si, sel)
                        break
                n += 1
                k = "fn=%s out=%s after=%s" % (f.name, pn, cname)
                if hit:
                    r.viol(k, f.name, f.loc(hit[2]), "'%s' is stored through the out-parameter '%s' on a path on which %s may already have run the completion callback (it did not report the request as pending): "
                           "the callback chain frees the caller's request state, and callers pass pointers into that state -- a write into released memory" % (hit[2].get("t", ""), pn, cname),
                           trail=["call at %s" % f.loc(c["ln"]), "store at %s" % f.loc(hit[2])])
                else:
                    r.ok(k, f.loc(c["ln"]))
    r.info["sites_x_outparams"] = n


def _defined_after_only(f, name, b, i, use):
    """the variable had no value at the call (declared/first assigned later): its first mention after the call is its definition"""
    return False


# --------------------------------------------------------------------------
# ONCE: outcome summaries
# --------------------------------------------------------------------------

class Once:
    def __init__(self, prog, E):
        self.prog, self.E = prog, E
        self.memo = {}
        self.active = set()
        self.ctx_records = {}
        for name, rec in prog.records.items():
            for fl in rec["fields"]:
                tw = fl.get("tyw", "")
                if any(tw == t for t in effects.COMPLETION_TYPES):
                    self.ctx_records[rec["name"]] = fl["n"]
        self.detail = {}
        self.family_checked = None
        self.ni_checked = None

    def ctx_rec_of_type(self, ty):
        ty = ty.replace("const ", "")
        if ty.startswith("struct ") and ty.endswith(" *"):
            n = ty[len("struct "):-2]
            if n in self.ctx_records and n != "ares_query":
                return n
        if ty.endswith(" *") and ty[:-2] in self.ctx_records:
            return ty[:-2]
        return None

    def tracked(self, f):
        cb = None
        arg = None
        for k, p in enumerate(f.params):
            if any(p.get("tyw", "") == t for t in effects.COMPLETION_TYPES):
                cb = p["n"]
                if k + 1 < len(f.params) and f.params[k + 1]["ty"] == "void *":
                    arg = f.params[k + 1]["n"]
        ctx = {}
        for v in f.vars.values():
            rn = self.ctx_rec_of_type(v["ty"])
            if rn:
                ctx[v["n"]] = rn
        flag = None
        for p in f.params:
            if p["ty"] == "ares_bool_t *":
                flag = p["n"]
        return cb, arg, ctx, flag

    def relevant(self, f):
        cb, arg, ctx, flag = self.tracked(f)
        return cb is not None or bool(ctx)

    def counted(self, recname):
        rec = self.prog.records.get(recname)
        if rec and rec.get("relfile", "").endswith("ares_getaddrinfo.c") is False:
            rec = self.prog.records.get(recname + "@src/lib/ares_getaddrinfo.c") or rec
        return rec is not None and any(fl["n"] == "remaining" for fl in rec["fields"])

    def summary(self, f):
        """frozenset of outcomes (cnt, ret, flag, pred) for f's own request"""
        if f.key in self.memo:
            return self.memo[f.key]
        if f.key in self.active:
            return frozenset([(1, None, None, None)])     # co-inductive assumption for recursion, verified by the fixed point
        self.active.add(f.key)
        try:
            res = self._compute(f)
        finally:
            self.active.discard(f.key)
        res = frozenset(o for o in res if not self.exempt(f, o))
        self.memo[f.key] = res
        return res

    def exempt(self, f, o):
        """next_dns_lookup's `default:` arm (no lookup started, returns TRUE) is unreachable iff ares_getaddrinfo_int
        rejects every family other than AF_INET/AF_INET6/AF_UNSPEC before creating the context: verified, not assumed."""
        if f.name == "next_dns_lookup" and o[0] == 0 and o[1] == "ARES_TRUE":
            if self.family_checked is None:
                g = self.prog.func("ares_getaddrinfo_int")
                ks = set()
                for bid in g.rpo():
                    br = g.branch(bid)
                    if br:
                        c0 = strip(br[0])
                        if c0.get("k") == "bin" and c0["op"] == "!=" and is_var(c0["l"], "family") and const_val(c0["r"]) is not None:
                            ks.add(const_val(c0["r"]))
                self.family_checked = (ks == {0, 2, 10})
            return self.family_checked
        if f.name == "ares_getnameinfo_int" and o[0] == 0:
            # falling past `if (flags & ARES_NI_LOOKUPHOST)` is impossible iff (1) LOOKUPHOST is defaulted in when neither
            # bit is set and (2) the service-only case has returned: verified structurally
            if self.ni_checked is None:
                mf = MustFacts(f, track_calls=False)

                def bit(c, name):
                    return is_flag_test(c, lambda x: is_var(x, "flags"), name)
                dflt = False
                for b, i, el in f.elements():
                    if el["k"] == "asg" and is_var(el["e"]["l"], "flags") and el["e"]["op"] == "|=" and name_of_const(el["e"]["r"]) == "ARES_NI_LOOKUPHOST":
                        facts = mf.cond_facts_at(b, i)
                        if any((not p) and bit(c, "ARES_NI_LOOKUPSERVICE") for c, p in facts) and any((not p) and bit(c, "ARES_NI_LOOKUPHOST") for c, p in facts) and len(facts) <= 4:
                            dflt = True
                svc = False
                for b, i, el in f.returns():
                    facts = mf.cond_facts_at(b, i)
                    if any(p and bit(c, "ARES_NI_LOOKUPSERVICE") for c, p in facts) and any((not p) and bit(c, "ARES_NI_LOOKUPHOST") for c, p in facts):
                        svc = True
                self.ni_checked = dflt and svc
            return self.ni_checked
        return False

    def _compute(self, f):
        prog, E = self.prog, self.E
        cb, arg, ctx, flag = self.tracked(f)
        is_counted = {v for v, rn in ctx.items() if self._ctx_counted(f, v)}
        extra_dom = {}
        if flag:
            extra_dom["*" + flag] = frozenset(["ARES_TRUE", "ARES_FALSE"])
        mf = MustFacts(f, track_calls=False)

        def arg_is_tracked(a):
            a2 = strip(a)
            p = path(a2)
            if p is None:
                return None
            if p == cb:
                return "cb"
            if p in ctx:
                return p
            return None

        def on_el(extra, blk, i, el, get):
            cnt, pend, budget, pred, used_after = extra
            k = el["k"]
            if k == "asg":
                l = strip(el["e"]["l"])
                # counted ctx: remaining += k / remaining--
                if l.get("k") == "mem" and l["f"] == "remaining" and path(l["b"]) in is_counted:
                    op = el["e"]["op"]
                    if op == "+=" and const_val(el["e"].get("r")) is not None:
                        return [(cnt, pend, budget + const_val(el["e"]["r"]), pred, used_after)]
                    if op == "++":
                        return [(cnt, pend, budget + 1, pred, used_after)]
                    if op in ("--", "-="):
                        return [(cnt, pend, budget, "dec" if pred is None else pred, used_after)]
                return [extra]
            if k != "call":
                return [extra]
            c = el["e"]
            # direct completion through our callback param / ctx->callback
            if E.is_completion_call(c):
                fx = strip(c.get("fnx"))
                mine = False
                if fx is not None and fx.get("k") == "var" and fx["n"] == cb:
                    mine = True
                if fx is not None and fx.get("k") == "mem" and path(fx["b"]) in ctx:
                    mine = True
                if mine:
                    return [(min(cnt + 1, 2), pend, budget, pred, used_after)]
                return [extra]
            t = prog.resolve(f, c)
            if t is None:
                return [extra]
            if t.name in WIRE_HANDOFF and f.file.endswith("ares_send.c"):
                return [(min(cnt + 1, 2), (c.get("id"), None), budget, pred, used_after)]
            args = c.get("args", [])
            tr = [arg_is_tracked(a) for a in args]
            # a handler function passed in the callee's completion-callback position: hand-off of a new context
            tcb0 = self.tracked(t)[0]
            if tcb0 is not None:
                k0 = t.param_index(tcb0)
                if k0 is not None and k0 < len(args) and strip(args[k0]) is not None and strip(args[k0]).get("k") == "fn":
                    tr.append("handler")
            if not any(tr):
                return [extra]
            if not self.relevant(t):
                return [extra]
            outs = self.summary(t)
            nd = [o for o in outs if o[0] != "D"]
            outs = nd if nd else [(0, o[1], o[2], o[3]) for o in outs]
            if all(o[0] == 0 for o in outs):
                return [extra]
            res = []
            handed_counted = any(x in is_counted for x in tr if x and x != "cb")
            tcb, targ, tctx, tflag = self.tracked(t)
            for (ocnt, oret, oflag, opred) in sorted(outs, key=str):
                ncnt, nb = cnt, budget
                if ocnt:
                    if handed_counted and budget > 0:
                        nb = budget - 1
                        ncnt = max(cnt, 1)
                    else:
                        ncnt = min(cnt + ocnt, 2)
                upd = {}
                if tflag is not None and oflag is not None:
                    k2 = t.param_index(tflag)
                    if k2 is not None and k2 < len(args):
                        a2 = strip(args[k2])
                        val = frozenset(["ARES_TRUE" if oflag == "T" else "ARES_FALSE"])
                        if a2.get("k") == "un" and a2["op"] == "&" and path(a2["e"]):
                            upd[path(a2["e"])] = val
                        elif path(a2) == flag:
                            upd["*" + flag] = val
                ne = (ncnt, (c.get("id"), oret), nb, pred, used_after)
                res.append(("upd", ne, upd) if upd else ne)
            return res

        pnames = {pp["n"] for pp in f.params if "*" in pp["ty"]}

        def on_edge(extra, blk, cond, pol, get):
            cnt, pend, budget, pred, used_after = extra
            for cc, p in atoms(cond, pol):
                cs = strip(cc)
                if cs.get("k") == "mem" and cs["f"] == "remaining" and path(cs["b"]) in is_counted:
                    pred = "NZ" if p else "Z"
                # defensive edge: a pointer parameter is NULL (request not accepted / misuse)
                op, l, rr = norm_cmp(cc, p)
                if is_var(l) and strip(l)["n"] in pnames and ((op == "==" and rr is not None and is_null(rr)) or op == "false"):
                    used_after = True
            return (cnt, pend, budget, pred, used_after)

        def call_value(extra, callnode):
            if extra is None:
                return None
            pend = extra[1]
            if pend is not None and pend[0] == callnode.get("id") and pend[1] is not None:
                return frozenset([pend[1]])
            return None
        vs = ValueSets(prog, f, summaries=Summaries(prog), on_el=on_el, on_edge=on_edge, init_extra=(0, None, 0, None, False), cap=8192,
                       extra_domains=extra_dom, call_value=call_value)
        outs = set()
        detail = []
        for b, i, el in f.exits():
            el = el or {"ln": f.endln, "k": "ret"}
            for st in vs.states_at(b, i):
                cnt, pend, budget, pred, dfl = st[1]
                rets = vs.eval(el.get("e"), st[0]) if el.get("e") is not None else None
                retl = sorted(rets) if rets is not None and len(rets) <= 6 else [None]
                fl = None
                if flag:
                    fs = vs.get(st, "*" + flag)
                    fl = "T" if fs == frozenset(["ARES_TRUE"]) else ("F" if fs == frozenset(["ARES_FALSE"]) else "?")
                defensive = bool(dfl) and cnt == 0
                for rv in retl:
                    o = ("D" if defensive else cnt, rv, fl, pred if budget == 0 else "budget+%d" % budget)
                    outs.add(o)
                    detail.append((f.loc(el), o))
        self.detail[f.key] = detail
        return frozenset((0 if o[0] == "D" else o[0], o[1], o[2], o[3]) if False else o for o in outs)

    def _ctx_counted(self, f, v):
        # counted iff the function (or record) manipulates <v>->remaining
        for b, i, el in f.elements():
            if el["k"] == "asg":
                l = strip(el["e"]["l"])
                if l.get("k") == "mem" and l["f"] == "remaining" and path(l["b"]) == v:
                    return True
        for b in f.blocks.values():
            if b.term and b.term.get("cond") is not None:
                for n in walk(b.term["cond"]):
                    if n.get("k") == "mem" and n["f"] == "remaining" and path(n["b"]) == v:
                        return True
        return False


def handlers_of(prog, once):
    """functions whose address is passed as a completion-typed argument"""
    hs = set()
    for f in prog.funcs.values():
        for b, i, c in f.calls():
            for a in c.get("args", []):
                a2 = strip(a)
                if a2 is not None and a2.get("k") == "fn":
                    for t in prog.by_name.get(a2["n"], []):
                        if f.tu in t.tus or not t.static:
                            if len(t.params) == 4 and t.params[0]["ty"] == "void *" and t.ret == "void":
                                hs.add(t.key)
    return hs


def r_once(prog, R, E, rid="R-C01-ONCE"):
    r = R.rule(rid, "every request layer disposes its request exactly once on every path; status/flag protocols between layers are truthful", floor=25,
               analysis="A-TS outcome summaries (disjunctive value sets)")
    once = Once(prog, E)
    hs = handlers_of(prog, once)
    public = {f.key for f in prog.public_functions()}
    layer = [f for f in prog.funcs.values() if f.file in LAYER_FILES and once.relevant(f)]
    r.info["contexts"] = sorted(once.ctx_records)
    n = 0
    for f in sorted(layer, key=lambda x: x.key):
        outs = once.summary(f)
        real = [o for o in outs if o[0] != "D"]
        cnts = {o[0] for o in real}
        if cnts <= {0} and not (f.key in hs or (f.key in public and once.tracked(f)[0])):
            continue   # helper that never disposes (e.g. squery_free, file_lookup)
        n += 1
        # 1. no double completion
        dbl = [o for o in real if o[0] == 2]
        if dbl:
            r.viol("fn=%s no-double" % f.name, f.name, _loc_of(once, f, dbl[0]), "a path disposes the request twice (double callback / double free): outcome %s" % (dbl[0],))
        else:
            r.ok("fn=%s no-double" % f.name, f.loc(f.ln))
        # 2. counted budget
        bud = [o for o in real if isinstance(o[3], str) and o[3].startswith("budget+")]
        if bud:
            r.viol("fn=%s counted-budget" % f.name, f.name, _loc_of(once, f, bud[0]), "sub-request counter incremented by more than the lookups started (%s): the request can never complete" % bud[0][3])
        # 3. discriminator: caller can tell whether the request was disposed
        groups = {}
        for o in real:
            groups.setdefault((o[1], o[2], o[3]), set()).add(o[0])
        must_always = f.key in hs or (f.key in public and once.tracked(f)[0] is not None) or (f.ret == "void" and cnts - {0})
        cb, arg, ctx, flag = once.tracked(f)
        counted_handler = any(once._ctx_counted(f, v) for v in ctx) and f.key in hs
        if counted_handler:
            for o in real:
                want = 1 if o[3] == "Z" else 0
                if o[3] not in ("Z", "NZ"):
                    r.viol("fn=%s counted-handler" % f.name, f.name, _loc_of(once, f, o), "counted handler returns without having tested the outstanding-lookups counter (outcome %s)" % (o,))
                elif o[0] != want:
                    r.viol("fn=%s counted-handler" % f.name, f.name, _loc_of(once, f, o),
                           "counted handler: outstanding counter %s but request disposed %d time(s)" % ("== 0" if o[3] == "Z" else "!= 0", o[0]))
            if not any(v["instance"] == "fn=%s counted-handler" % f.name for v in r.violations):
                r.ok("fn=%s counted-handler" % f.name, f.loc(f.ln))
            continue
        if flag is not None:
            bad = [o for o in real if not ((o[0] == 1 and o[2] == "T") or (o[0] == 0 and o[2] == "F"))]
            if bad:
                r.viol("fn=%s flag-truthful" % f.name, f.name, _loc_of(once, f, bad[0]),
                       "out-flag '%s' does not tell the truth: request disposed %s time(s) but flag=%s when returning %s" % (flag, bad[0][0], bad[0][2], bad[0][1]))
            else:
                r.ok("fn=%s flag-truthful" % f.name, f.loc(f.ln))
            continue
        if must_always:
            bad = [o for o in real if o[0] != 1]
            if bad:
                r.viol("fn=%s exactly-once" % f.name, f.name, _loc_of(once, f, bad[0]),
                       "a path returns %s with the request disposed %s time(s) (must be exactly once)" % (bad[0][1] or "", bad[0][0]))
            else:
                r.ok("fn=%s exactly-once" % f.name, f.loc(f.ln), note="%d outcomes" % len(real))
        else:
            mixed = {k: v for k, v in groups.items() if len(v) > 1}
            if mixed:
                k0 = sorted(mixed, key=str)[0]
                r.viol("fn=%s discriminable" % f.name, f.name, f.loc(f.ln), "for return value %s the request is disposed on some paths and not on others: the caller cannot know whether to complete it" % (k0[0],))
            else:
                r.ok("fn=%s discriminable" % f.name, f.loc(f.ln), note=str(sorted(groups.items(), key=str))[:200])
    if once.family_checked is not None:
        g = prog.func("ares_getaddrinfo_int")
        if once.family_checked:
            r.ok("getaddrinfo: family validated before lookups (default arm of next_dns_lookup unreachable)", g.loc(g.ln))
        else:
            r.viol("getaddrinfo: family validated", g.name, g.loc(g.ln), "address family is no longer restricted to AF_INET/AF_INET6/AF_UNSPEC before lookups start: next_dns_lookup's default arm starts nothing and the request never completes")
    if once.ni_checked is not None:
        g = prog.func("ares_getnameinfo_int")
        if once.ni_checked:
            r.ok("getnameinfo: LOOKUPHOST defaulted / service-only returned (fall-through without callback unreachable)", g.loc(g.ln))
        else:
            r.viol("getnameinfo: flag defaulting", g.name, g.loc(g.ln), "with the current flag handling ares_getnameinfo_int can fall off its end without invoking the callback")
    r.info["functions_analysed"] = n
    r.info["handlers"] = sorted(hs)
    return once


def _loc_of(once, f, o):
    for loc, oo in once.detail.get(f.key, []):
        if oo == o:
            return loc
    return f.loc(f.ln)


def r_counted(prog, R, E):
    r = R.rule("R-C01-COUNTED", "getaddrinfo: 'remaining' is incremented by exactly the number of lookups started in each arm; decremented once per sub-answer; context untouched after the last hand-off", floor=4, analysis="block-local count + must-pass")
    f = prog.func("next_dns_lookup", "ares_getaddrinfo.c")
    n = 0
    for b in f.blocks.values():
        inc = 0
        hand = []
        for i, el in enumerate(b.els):
            if el["k"] == "asg":
                l = strip(el["e"]["l"])
                if l.get("k") == "mem" and l["f"] == "remaining":
                    if el["e"]["op"] == "+=":
                        inc += const_val(el["e"]["r"]) or 0
                    elif el["e"]["op"] == "++":
                        inc += 1
            if el["k"] == "call" and any(strip(a) is not None and strip(a).get("k") == "fn" and strip(a)["n"] == "host_callback" for a in el["e"].get("args", [])):
                hand.append((i, el))
        if inc or hand:
            n += 1
            key = "arm@%s" % (render(b.label["lo"]) if b.label and b.label.get("lo") else "block%d" % n)
            if inc != len(hand):
                r.viol(key, f.name, f.loc(b.els[0]), "remaining += %d but %d lookups are started: the request completes early (use after free) or never" % (inc, len(hand)))
            else:
                r.ok(key, f.loc(b.els[0]), note="+%d / %d hand-offs" % (inc, len(hand)))
            # increment precedes the first hand-off
            first_inc = min([i for i, el in enumerate(b.els) if el["k"] == "asg" and strip(el["e"]["l"]).get("k") == "mem" and strip(el["e"]["l"])["f"] == "remaining"] or [999])
            last_inc = max([i for i, el in enumerate(b.els) if el["k"] == "asg" and strip(el["e"]["l"]).get("k") == "mem" and strip(el["e"]["l"])["f"] == "remaining"] or [-1])
            if hand and (first_inc > hand[0][0] or last_inc > hand[0][0]):
                r.viol(key + " order", f.name, f.loc(hand[0][1]), "a lookup is started before 'remaining' accounts for every lookup of this arm: a lookup that completes inside the call that starts it (answer in the query cache, synchronous send failure) brings the counter to zero, the request is completed and freed, and the remaining lookups are then started on the released request (second callback, use after free)")
            elif hand:
                r.ok(key + " order", f.loc(hand[0][1]))
            # no use of hquery after the last hand-off
            if hand:
                li, lel = hand[-1]
                us = uses_after(f, b, li, lambda nd: nd.get("k") == "var" and nd["n"] == "hquery")
                if us:
                    r.viol(key + " no-use-after-last", f.name, f.loc(us[0][2] if isinstance(us[0][2], dict) and "ln" in us[0][2] else lel), "hquery used after the last lookup was handed off (it may already be completed and freed)")
                else:
                    r.ok(key + " no-use-after-last", f.loc(lel))
    r.require(n >= 3, "next_dns_lookup: fewer than 3 family arms found")
    h = prog.func("host_callback", "ares_getaddrinfo.c")
    dec = [(b, i, el) for b, i, el in h.elements() if el["k"] == "asg" and strip(el["e"]["l"]).get("k") == "mem" and strip(el["e"]["l"])["f"] == "remaining" and el["e"]["op"] in ("--", "-=")]
    if len(dec) == 1 and dec[0][0].id in h.dominators()[h.exit] and dec[0][0].id not in h.loop_blocks():
        r.ok("host_callback decrements once", h.loc(dec[0][2]))
    else:
        r.viol("host_callback decrements once", h.name, h.loc(h.ln), "hquery->remaining is not decremented exactly once on every path of host_callback (%d sites)" % len(dec))


def r_proto_uaf(prog, R, E, once):
    r = R.rule("R-C01-CTXUAF", "a request context is not touched after the call that disposes it", floor=10, analysis="A-TS use-after-dispose")
    layer = [f for f in prog.funcs.values() if f.file in LAYER_FILES and once.relevant(f)]
    for f in sorted(layer, key=lambda x: x.key):
        cb, arg, ctx, flag = once.tracked(f)
        for b, i, c in f.calls():
            t = prog.resolve(f, c)
            if t is None or not once.relevant(t):
                continue
            outs = once.summary(t)
            if not outs or not all(o[0] in (1, 2) for o in outs if o[0] != "D"):
                continue        # does not always dispose: conditional helpers are followed by protocol checks (ONCE)
            for a in c.get("args", []):
                v = path(strip(a))
                if v in ctx and not once._ctx_counted(f, v):
                    us = uses_after(f, b, i, lambda nd, v=v: nd.get("k") == "var" and nd["n"] == v,
                                    stop=lambda el, v=v: el["k"] == "asg" and path(el["e"]["l"]) == v)
                    key = "fn=%s ctx=%s after=%s#%d" % (f.name, v, t.name, sorted(x[2]["id"] for x in f.calls_to(t.name)).index(c["id"]))
                    if us:
                        u = us[0]
                        r.viol(key, f.name, f.loc(u[2] if isinstance(u[2], dict) and "ln" in u[2] else c["ln"]), "context '%s' used after %s, which completes and frees it" % (v, t.name))
                    else:
                        r.ok(key, f.loc(c["ln"]))
        # free before last use of the ctx in the ender functions: ares_free(ctx) then ctx->...
        for b, i, c in f.calls():
            if c.get("callee") in ("ares_free",) and path(call_arg(c, 0)) in ctx:
                v = path(call_arg(c, 0))
                us = uses_after(f, b, i, lambda nd, v=v: nd.get("k") == "var" and nd["n"] == v, stop=lambda el, v=v: el["k"] == "asg" and path(el["e"]["l"]) == v)
                key = "fn=%s ctx=%s after=ares_free" % (f.name, v)
                if us:
                    r.viol(key, f.name, f.loc(c["ln"]), "context '%s' used after ares_free" % v)
                else:
                    r.ok(key, f.loc(c["ln"]))


def r_sendq(prog, R, E):
    r = R.rule("R-C01-SENDQ", "wire state machine: ares_send_query / ares_requeue_query end, requeue or enqueue the query exactly once on every path", floor=4, analysis="A-TS event count")
    for fname, events in (("ares_send_query", {"end_query", "ares_requeue_query"}), ("ares_requeue_query", {"end_query", "ares_send_query", "ares_append_requeue"})):
        f = prog.func(fname)

        def on_el(extra, blk, i, el, get, events=events):
            cnt, enq = extra
            if el["k"] == "call":
                cal = el["e"].get("callee")
                if cal in events:
                    return [(min(cnt + 1, 2), enq)]
            if el["k"] == "asg" and is_field(el["e"]["l"], "conn", "ares_query") and el["e"]["op"] == "=" and not is_null(el["e"].get("r")):
                return [(cnt, True)]
            return [extra]
        vs = ValueSets(prog, f, on_el=on_el, init_extra=(0, False), cap=4096)
        nst = 0
        for b, i, el in f.returns():
            for st in vs.states_at(b, i):
                nst += 1
                cnt, enq = st[1]
                rs = vs.eval(el.get("e"), st[0])
                key = "%s ret=%s" % (fname, render(el.get("e")))
                if fname == "ares_send_query" and rs == frozenset(["ARES_SUCCESS"]) and cnt == 0:
                    if enq:
                        r.ok(key + " enqueued", f.loc(el))
                    else:
                        r.viol(key, fname, f.loc(el), "success returned without the query being assigned to a connection (it would never time out or complete)")
                elif cnt == 1 and not (fname == "ares_send_query" and enq):
                    r.ok(key + " disposed-once", f.loc(el))
                else:
                    r.viol(key, fname, f.loc(el), "on this path the query is ended/requeued %d time(s)%s" % (cnt, " and also left enqueued" if enq else ""))
        r.require(nst >= 3, "%s: too few return states" % fname)


def r_defer(prog, R, E):
    r = R.rule("R-C01-DEFER", "while answers are being read from a connection no query is re-sent directly: every requeue under process_answer is deferred through the requeue array; ares_send_query only ever gets an unlinked query", floor=6,
               analysis="A-WMC reachability without callbacks + argument check + must-precede")
    pa = prog.func("process_answer")
    # functions reachable from process_answer through direct calls, not descending into the (re)send primitives themselves
    STOP = {"ares_requeue_query", "ares_send_query", "end_query"}
    reach, work = {}, [pa]
    while work:
        f = work.pop()
        if f.key in reach:
            continue
        reach[f.key] = f
        if f.name in STOP:
            continue
        for b, i, c in f.calls():
            t = prog.resolve(f, c)
            if t is not None and t.file.startswith("src/lib/ares_") and not t.file.startswith(("src/lib/ares_buf",)):
                work.append(t)
    n = 0
    for f in sorted(reach.values(), key=lambda x: x.key):
        if f.name in STOP:
            continue
        for b, i, c in f.calls():
            cal = c.get("callee")
            if cal == "ares_requeue_query":
                n += 1
                a = strip(call_arg(c, 5))
                k = "fn=%s requeue deferred" % f.name
                pn = [p["n"] for p in f.params if "ares_array" in p["ty"] and p["ty"].count("*") == 2]
                if a is not None and a.get("k") == "var" and a["n"] in pn:
                    r.ok(k, f.loc(c["ln"]))
                else:
                    r.viol(k, f.name, f.loc(c["ln"]), "%s (reached from process_answer while read_answers still walks the connection's input) re-sends the query immediately (requeue array argument is %s): a failing re-send closes and frees the very connection being read" % (f.name, render(a)))
            elif cal in ("ares_send_query", "handle_conn_error", "ares_close_connection", "ares_close_sockets"):
                n += 1
                r.viol("fn=%s no direct %s" % (f.name, cal), f.name, f.loc(c["ln"]), "%s is reached from process_answer and calls %s directly: the connection being read can be closed underneath read_answers" % (f.name, cal))
    r.info["reach_from_process_answer"] = len(reach)
    r.require(n >= 2, "no requeue call reachable from process_answer (anchor drift)")
    # the deferral array is flushed only after the read loop is done with the connection buffer
    ra = prog.func("read_answers")
    loops = ra.natural_loops()
    pcs = ra.calls_to("process_answer")
    scs = ra.calls_to("ares_send_query")
    if pcs and scs:
        inner = None
        for h, body in loops.items():
            if pcs[0][0].id in body | {h}:
                inner = body | {h}
        if inner is not None and scs[0][0].id not in inner:
            r.ok("flush after the read loop", ra.loc(scs[0][2]["ln"]))
        else:
            r.viol("flush after the read loop", ra.name, ra.loc(scs[0][2]["ln"]), "read_answers re-sends deferred queries inside the loop that is still parsing the connection's input buffer")
    # every ares_send_query call gets a query that is linked to no connection
    for f in sorted(prog.funcs.values(), key=lambda x: x.key):
        for b, i, c in f.calls_to("ares_send_query"):
            q = strip(call_arg(c, 1))
            k = "fn=%s sends an unlinked query" % f.name
            if q is None or q.get("k") != "var":
                r.viol(k, f.name, f.loc(c["ln"]), "%s hands ares_send_query %s, a pointer read from a structure rather than a query it has just unlinked, allocated or looked up by id: nothing ties that pointer to a request that still exists" % (f.name, render(q)))
                continue
            mf = MustFacts(f)
            okq = None
            # (a) unlinked here
            for pb, pi, pc in f.calls_to("ares_query_remove_from_conn"):
                if is_var(strip(call_arg(pc, 0)), q["n"]):
                    doms = f.dominators()
                    if (pb.id == b.id and pi < i) or (pb.id != b.id and pb.id in doms.get(b.id, ())):
                        okq = "unlinked by ares_query_remove_from_conn in this function"
            # (b) fresh
            if okq is None:
                for _, _, el in f.elements():
                    if el["k"] == "asg" and is_var(strip(el["e"]["l"]), q["n"]):
                        rr = strip(el["e"].get("r"))
                        if rr is not None and rr.get("k") == "call":
                            cn = f.call_by_id(rr["id"])[2] if rr.get("ref") and f.call_by_id(rr["id"]) else rr
                            if cn.get("callee") in ("ares_malloc", "ares_malloc_zero"):
                                okq = "freshly allocated"
                            if cn.get("callee") == "ares_htable_szvp_get_direct" and f.name == "read_answers":
                                # (c) taken from the deferral array: entries are appended only by ares_append_requeue, which unlinks first
                                ap = prog.func("ares_append_requeue")
                                ins = [x for x in ap.calls() if x[2].get("callee") in ("ares_array_insertdata_last", "ares_array_insert_last")]
                                if ins and MustFacts(ap).passed_call(ins[0][0], ins[0][1], "ares_query_remove_from_conn"):
                                    okq = "from the deferral array (ares_append_requeue unlinks before appending)"
            if okq:
                r.ok(k + " (%s)" % okq, f.loc(c["ln"]))
            else:
                r.viol(k, f.name, f.loc(c["ln"]), "%s hands ares_send_query a query that may still be linked to its previous connection: if the send fails, closing that connection requeues the same query a second time (double completion / use after free)" % f.name)


QREF_OK = {
    ("ares_query", "conn"): "the connection a query is currently written to; cleared by ares_query_remove_from_conn, which every close/requeue path runs first",
    ("ares_server", "tcp_conn"): "the server's one TCP connection; reset by ares_close_connection before the connection is freed",
}


def r_qref(prog, R):
    r = R.rule("R-C01-QREF", "requests and connections are referenced only from the channel's indexes and from back-pointers their release path clears: no other structure "
               "parks a query/connection pointer across callbacks, and a deferred re-send looks its query up by id again", floor=3, analysis="A-WMC on record member types + re-derivation check")
    n = 0
    for name, rec in sorted(prog.records.items()):
        if not rec.get("relfile", "").startswith(("src/lib/", "include/")):
            continue
        for fld in rec.get("fields", []):
            ty = fld.get("ty", "") + " " + fld.get("tyw", "")
            hit = [t for t in ("ares_query", "ares_conn") if ("struct %s *" % t) in ty or ("%s_t *" % t) in ty]
            if not hit:
                continue
            n += 1
            k = "member %s.%s holds a %s pointer" % (name, fld["n"], hit[0])
            loc = "%s:%s" % (rec.get("relfile"), rec.get("ln"))
            if (name, fld["n"]) in QREF_OK:
                r.ok(k, loc, QREF_OK[(name, fld["n"])], nontrivial=False)
            else:
                r.viol(k, name, loc, "%s.%s stores a pointer to a %s outside the indexes that ares_free_query / ares_close_connection clear: when a callback, a cancel or a duplicate answer releases the object in the meantime the stored pointer dangles (keep the id and look it up again)" % (name, fld["n"], hit[0]))
    r.require(n >= 2, "back-pointer members query->conn / server->tcp_conn not found")
    ra = prog.func("read_answers")
    mf = MustFacts(ra, track_calls=False)
    for b, i, c in ra.calls_to("ares_send_query"):
        q = strip(call_arg(c, 1))
        k = "read_answers looks the deferred query up by id before re-sending"
        okv = False
        if q is not None and q.get("k") == "var":
            for _, _, el in ra.elements():
                if el["k"] == "asg" and is_var(strip(el["e"]["l"]), q["n"]):
                    rr = strip(el["e"].get("r"))
                    if rr is not None and rr.get("k") == "call":
                        full = ra.call_by_id(rr["id"]) if rr.get("ref") else None
                        cn = full[2] if full else rr
                        if (cn.get("callee") or "").startswith("ares_htable_") and "get" in cn.get("callee") and "queries_by_qid" in render(cn["args"][0]):
                            okv = True
            nonnull = any(norm_cmp(c3, p3)[0] in ("!=", "truth") and is_var(strip(norm_cmp(c3, p3)[1]), q["n"]) for c3, p3 in mf.cond_facts_at(b, i))
            okv = okv and nonnull
        if okv:
            r.ok(k, ra.loc(c["ln"]))
        else:
            r.viol(k, ra.name, ra.loc(c["ln"]), "the deferred re-send uses %s without looking the request up in queries_by_qid (and skipping it when it is gone): a request completed or cancelled by a callback while answers were processed is re-sent after it was freed" % render(q))


def run(prog, R, tier):
    R.assume("re-entrant API inside completion callbacks: request entry points and ares_cancel (not ares_destroy, not server-list edits)")
    R.assume("container primitives in dsa/ do not run completion callbacks except through a destructor registered at creation (resolved per container instance)")
    E = r_ender(prog, R)
    r_detach(prog, R, E)
    r_held(prog, R, E, tier)
    once = r_once(prog, R, E)
    r_counted(prog, R, E)
    r_proto_uaf(prog, R, E, once)
    r_sendq(prog, R, E)
    r_defer(prog, R, E)
    r_qref(prog, R)
    r_outparam(prog, R, E)
