"""C12 — search-list expansion follows resolv.conf semantics (order rule and stop rule)."""
from lib import *  # noqa
import C15

TECHNIQUE = ("order-rule shape and complement check of the candidate list builder (guard facts of each slot fill, list-length accounting), "
             "stop-rule table extraction from the two candidate walkers and sibling comparison, destination-size agreement in the alias reader")
LEVEL_TEXT = ("static: decides the two finite tables the semantics consist of: (ORDER) alias => exactly one candidate; not eligible (trailing dot / "
              "NOSEARCH) => exactly one; otherwise the name as given goes first iff ndots(name) >= channel->ndots and last iff the exact complement, "
              "domains in configuration order in between, list length = ndomains + 1; (STOP) the set of statuses on which the walk continues is "
              "{ENODATA, ENOTFOUND} plus {ESERVFAIL, EREFUSED} only when the candidate just tried is single-label, NODATA is remembered, and the "
              "search and getaddrinfo walkers implement the same table on the same operand. Does not decide candidate strings for all names.")
# fifth-round additions
TECHNIQUE += "; " + 'must-pass-through of the alias lookup before every slot fill, interprocedural guard collection from getenv(LOCALDOMAIN) to the store of the domain list, facts at every end of the search after the last candidate'
LEVEL_TEXT += " " + '(ORDER) the HOSTALIASES lookup precedes every candidate stored; (ENVDOMAIN) no test of the already configured list lies between LOCALDOMAIN and the store of the domains; (STOP) after the last candidate the search reports no-data or is known to have met no candidate without data.'
# sixth-round additions
TECHNIQUE += "; " + 'edge reachability from zero tests of the converted number to the store of sysconfig->ndots'
LEVEL_TEXT += " " + "(NDOTS) 'options ndots:0' from the system configuration reaches the store like any other value."
LEVEL_NOTE = "trusts clang CFG + extractor; boundary lengths and string construction are not decided (C01 covers the over-long-name protocol defect)"
DESIGN_REF = "DESIGN.md §6/C12"
EXPLANATION = LEVEL_TEXT
NOT_DECIDED = "candidate strings for all names/domains (concatenation), maximum-length boundaries, per-candidate outcome histories"


def r_order(prog, R):
    r = R.rule("R-C12-ORDER", "candidate list: alias consulted for every name; alias/ineligible => one entry; as-is first iff ndots >= channel->ndots, last iff the complement", floor=12, analysis="A-DOM + A-TAB")
    f = prog.func("ares_search_name_list")
    mf = MustFacts(f)
    # slot fills: list[...] = X
    fills = []
    for b, i, el in f.elements():
        if el["k"] == "asg" and strip(el["e"]["l"]).get("k") == "idx" and path(strip(el["e"]["l"])["b"]) == "list":
            fills.append((b, i, el))
        if el["k"] == "call" and el["e"].get("callee") == "ares_cat_domain":
            a = strip(call_arg(el["e"], 2))
            if a is not None and a.get("k") == "un" and a["op"] == "&" and "list" in render(a):
                fills.append((b, i, el))
    r.require(len(fills) >= 5, "ares_search_name_list: fewer slot fills than confirmed (%d)" % len(fills))
    # the HOSTALIASES file is consulted for every name, before anything else decides the list: NOSEARCH or a trailing dot only switch off the
    # search domains, not the alias lookup (ARES_FLAG_NOALIASES is the switch for that, tested inside ares_lookup_hostaliases)
    for b, i, el in fills:
        k = "alias consulted before slot fill @%s" % (render(el["e"].get("l"))[:24] if el["k"] == "asg" else "cat_domain")
        if mf.passed_call(b, i, "ares_lookup_hostaliases"):
            r.ok(k, f.loc(el))
        else:
            r.viol(k, f.name, f.loc(el), "a candidate is stored on a path that never consulted ares_lookup_hostaliases: for such names (search not eligible: NOSEARCH, trailing dot) the host alias is "
                   "silently ignored and the name as given is queried instead of its alias target")
    asis = []
    for b, i, el in fills:
        facts = mf.cond_facts_at(b, i)
        g = None
        for cc, p in facts:
            op, l, rr = norm_cmp(cc, p)
            if rr is not None and is_var(l, "ndots") and is_field(rr, "ndots", "ares_channeldata"):
                g = op
        src = render(el["e"].get("r")) if el["k"] == "asg" else "cat_domain"
        if g is not None:
            asis.append((g, b, i, el, src))
    ops = sorted(x[0] for x in asis)
    if ops == ["<", ">="]:
        r.ok("as-is guards are exact complements (>= first, < last)", f.loc(f.ln))
    else:
        r.viol("as-is guards are exact complements (>= first, < last)", f.name, f.loc(f.ln),
               "the name-as-given is placed under guards %s of ndots vs channel->ndots: for some dot counts it is tried twice or never" % ops)
    # first/last position: the '>=' fill precedes the domain loop, the '<' fill follows it
    cat = [x for x in fills if x[2]["k"] == "call"]
    if cat and asis:
        for g, b, i, el, src in asis:
            before = (cat[0][0].id, cat[0][1]) in reach_after(f, b.id, i)
            after = (b.id, i) in reach_after(f, cat[0][0].id, cat[0][1])
            if g == ">=":
                ok = before and not (after and not before)
                r.ok("as-is first when enough dots", f.loc(el)) if before else r.viol("as-is first when enough dots", f.name, f.loc(el), "with ndots >= threshold the name as given is not tried before the search domains")
            if g == "<":
                # must not be able to reach the domain loop again
                r.ok("as-is last otherwise", f.loc(el)) if (after and not before) else r.viol("as-is last otherwise", f.name, f.loc(el), "with too few dots the name as given is not tried after the search domains")
    # domains in configuration order: loop i from 0 up over channel->ndomains using channel->domains[i]
    okdom = False
    for b, i, el in cat:
        a1 = strip(call_arg(el["e"], 1))
        if a1 is not None and a1.get("k") == "idx" and is_field(a1["b"], "domains", "ares_channeldata") and is_var(a1["i"], "i"):
            okdom = True
    loops = f.natural_loops()
    up = any(el["k"] == "asg" and is_var(el["e"]["l"], "i") and el["e"]["op"] == "++" for _, _, el in f.elements())
    if okdom and up and loops:
        r.ok("domains in configuration order", f.loc(f.ln))
    else:
        r.viol("domains in configuration order", f.name, f.loc(f.ln), "search domains are not appended as channel->domains[0..ndomains) in order")
    # list length
    ll = [(b, i, el) for b, i, el in f.elements() if el["k"] == "asg" and is_var(el["e"]["l"], "list_len") and el["e"]["op"] == "="]
    vals = sorted(render(strip(el["e"]["r"])) for _, _, el in ll)
    if vals == ["(channel->ndomains + 1)", "1", "1"]:
        r.ok("list length = 1 | 1 | ndomains+1", f.loc(f.ln))
    else:
        r.viol("list length = 1 | 1 | ndomains+1", f.name, f.loc(f.ln), "candidate list lengths are %s" % vals)
    # single-candidate arms: alias hit and ineligible
    gs = call_result_branches(f, "ares_search_eligible")
    if gs:
        pe = status_pass_edge(gs[0])
        fb = pe[1]
        pred = reach_avoiding(f, fb, [])
        n1 = [x for x in ll if x[0].id == fb or x[0].id in pred]
        one = any(const_val(x[2]["e"]["r"]) == 1 for x in n1)
        reaches_domains = cat and (cat[0][0].id in pred)
        if one and not reaches_domains:
            r.ok("ineligible name => only itself", f.loc(gs[0]["call"]["ln"]))
        else:
            r.viol("ineligible name => only itself", f.name, f.loc(gs[0]["call"]["ln"]), "a name ending in '.' (or with NOSEARCH) can still be combined with search domains")
    else:
        r.viol("ineligible name => only itself", f.name, f.loc(f.ln), "ares_search_eligible is no longer consulted")
    al = call_result_branches(f, "ares_lookup_hostaliases")
    okal = False
    for g in al:
        if g["op"] == "==" and name_of_const(g["rhs"]) == "ARES_SUCCESS":
            pred = reach_avoiding(f, g["true"], [])
            if not (cat and cat[0][0].id in pred):
                okal = True
    if okal:
        r.ok("alias hit => only the alias target", f.loc(f.ln))
    else:
        r.viol("alias hit => only the alias target", f.name, f.loc(f.ln), "a host alias no longer short-circuits the search list")
    # eligibility: trailing dot and NOSEARCH
    e = prog.func("ares_search_eligible")
    dot = any(br and strip(br[0]).get("k") == "bin" and strip(br[0])["op"] == "==" and const_val(strip(br[0])["r"]) == ord(".") for br in (e.branch(b) for b in e.rpo()))
    ns = any(br and is_flag_test(br[0], lambda x: is_field(x, "flags", "ares_channeldata"), "ARES_FLAG_NOSEARCH") for br in (e.branch(b) for b in e.rpo()))
    # exact guards of the two FALSE returns
    mfe = MustFacts(e, track_calls=False)
    extra = []
    for b, i, el in e.returns():
        if name_of_const(el.get("e")) == "ARES_FALSE":
            for cc, p in mfe.cond_facts_at(b, i):
                t = render(cc)
                okf = (p and t == "len") or (p and "name[(len - 1)]" in t and "46" in t) or (p and "ARES_FLAG_NOSEARCH" in t) or \
                      ((not p) and ("name[(len - 1)]" in t or t == "len"))
                if not okf:
                    extra.append(t)
    if extra:
        dot = False
    if dot and ns:
        r.ok("eligibility = no trailing dot && !NOSEARCH", e.loc(e.ln))
    else:
        r.viol("eligibility = no trailing dot && !NOSEARCH", e.name, e.loc(e.ln), "eligibility test changed (trailing-dot=%s NOSEARCH=%s)" % (dot, ns))


def stop_table(prog, f, ctxvar):
    """statuses on which the walker continues; returns dict(status -> 'always'|'single-label'), operand of label count, nodata memory"""
    cont = {}
    operand = None
    # switch form
    for bid in f.rpo():
        blk = f.blocks[bid]
        if blk.term and blk.term["cls"] == "SwitchStmt":
            for s, vals in f.switch_cases(blk):
                if not isinstance(vals, list):
                    continue
                nm = name_of_const(vals[0])
                tb = f.blocks[s]
                # follow empty fallthrough
                x = s
                hops = 0
                while not f.blocks[x].els and not f.blocks[x].term and len(f.succ(x)) == 1 and hops < 4:
                    x = f.succ(x)[0]
                    hops += 1
                tb = f.blocks[x]
                if tb.term and tb.term["cls"] == "BreakStmt" and not tb.els:
                    cont[nm] = "always"
                else:
                    br = f.branch(x)
                    if br and "ares_name_label_cnt" in render(br[0]):
                        cont[nm] = "single-label"
    for b, i, c in f.calls_to("ares_name_label_cnt"):
        operand = render(call_arg(c, 0))
    return cont, operand


def r_stop(prog, R):
    r = R.rule("R-C12-STOP", "walk continues only on NODATA/NXDOMAIN (and SERVFAIL/REFUSED for a single-label candidate); both walkers agree", floor=6, analysis="A-TAB sibling tables")
    s = prog.func("search_callback")
    cont, operand = stop_table(prog, s, "squery")
    want = {"ARES_ENODATA": "always", "ARES_ENOTFOUND": "always", "ARES_ESERVFAIL": "single-label", "ARES_EREFUSED": "single-label"}
    if cont == want:
        r.ok("search: continue-set", s.loc(s.ln), note=str(cont))
    else:
        r.viol("search: continue-set", s.name, s.loc(s.ln), "search continues on %s; resolv.conf semantics: %s" % (cont, want))
    if operand == "squery->names[(squery->next_name_idx - 1)]":
        r.ok("search: single-label test on the candidate just tried", s.loc(s.ln))
    else:
        r.viol("search: single-label test on the candidate just tried", s.name, s.loc(s.ln), "label count taken of '%s' instead of the candidate that produced the error" % operand)
    # label count compared with 1 and '!= 1' ends
    okcmp = False
    for bid in s.rpo():
        br = s.branch(bid)
        if br and "ares_name_label_cnt" in render(br[0]):
            c0 = strip(br[0])
            if c0.get("k") == "bin" and c0["op"] == "!=" and const_val(c0["r"]) == 1:
                tb = s.blocks[br[1]]
                if any(is_call_el(el, "end_squery") for el in tb.els):
                    okcmp = True
    if okcmp:
        r.ok("search: multi-label hard error ends the search", s.loc(s.ln))
    else:
        r.viol("search: multi-label hard error ends the search", s.name, s.loc(s.ln), "SERVFAIL/REFUSED on a multi-label candidate no longer ends the search")
    # nodata memory
    mem = False
    mfs = MustFacts(s)
    for b0, i0, el0 in s.elements():
        if el0["k"] == "asg" and is_field(el0["e"]["l"], "ever_got_nodata") and name_of_const(el0["e"].get("r")) == "ARES_TRUE":
            fs = mfs.cond_facts_at(b0, i0)
            only = all("mystatus" in render(cc) or render(cc) == "dnsrec" for cc, p in fs)
            has = cond_holds(fs, lambda op, l, rr: op == "==" and is_var(l, "mystatus") and name_of_const(rr) == "ARES_ENODATA")
            mem = has and only
    # at the end of the list: no-data wins over whatever the last candidate said (NXDOMAIN, or the soft SERVFAIL/REFUSED of a single label);
    # every end_squery reached after the last candidate either reports ENODATA or is reached only when no candidate was without data
    fin = False
    other_bad = None
    mf = MustFacts(s)
    region = None
    for bid in s.rpo():
        br = s.branch(bid)
        if br:
            op, l, rr = norm_cmp(br[0], True)
            if rr is not None and op == "<" and is_field(l, "next_name_idx") and is_field(rr, "names_cnt"):
                region = reach_avoiding(s, br[2], (), None, 0)
                region = set(region) | {br[2]}
    if region is None:
        r.broke("search_callback: end-of-list test (next_name_idx < names_cnt) not found")
        region = set()
    for b, i, c in s.calls_to("end_squery"):
        if b.id not in region:
            continue
        facts = mf.cond_facts_at(b, i)
        def _nd(want, facts=facts):
            for cc, p in facts:
                op, l, rr = norm_cmp(cc, p)
                if is_field(l, "ever_got_nodata") and op == want:
                    return True
            return False
        if name_of_const(call_arg(c, 1)) == "ARES_ENODATA":
            if _nd("truth"):
                fin = True
        elif not _nd("false") and not cond_holds(facts, lambda op, l, rr: op == "==" and is_var(l, "mystatus") and name_of_const(rr) == "ARES_ENODATA"):
            other_bad = c
    if mem and fin and other_bad is None:
        r.ok("search: NODATA remembered and reported when the list is exhausted", s.loc(s.ln))
    elif other_bad is not None and mem:
        r.viol("search: NODATA remembered and reported when the list is exhausted", s.name, s.loc(other_bad["ln"]), "after the last candidate the search can end with the last candidate's status although an earlier candidate "
               "existed without data (the no-data memory is only consulted when the last status is NXDOMAIN): with a single-label last candidate answering SERVFAIL/REFUSED ares_search reports that failure where "
               "ares_getaddrinfo -- and the rule 'no-data if any candidate existed without data' -- report ARES_ENODATA")
    else:
        r.viol("search: NODATA remembered and reported when the list is exhausted", s.name, s.loc(s.ln), "no-data memory broken (set=%s, used=%s)" % (mem, fin))
    # getaddrinfo walker
    h = prog.func("host_callback", "ares_getaddrinfo.c")
    ops = [render(call_arg(c, 0)) for _, _, c in h.calls_to("ares_name_label_cnt")]
    if ops == ["hquery->names[(hquery->next_name_idx - 1)]"]:
        r.ok("getaddrinfo: single-label test on the candidate just tried", h.loc(h.ln))
    else:
        r.viol("getaddrinfo: single-label test on the candidate just tried", h.name, h.loc(h.ln), "label count taken of %s: the walkers disagree on which name decides" % ops)
    # continue set of host_callback: next_lookup reached under status in {ENOTFOUND, ENODATA}, or {ESERVFAIL, EREFUSED} && single label
    mfh = MustFacts(h)
    nl = h.calls_to("next_lookup")
    seen = set()
    for b, i, c in nl:
        facts = mfh.cond_facts_at(b, i)
        sl = any(p and "ares_name_label_cnt" in render(cc) and const_val(norm_cmp(cc, p)[2]) == 1 and norm_cmp(cc, p)[0] == "==" for cc, p in facts)
        seen.add("single-label" if sl else "plain")
    # statuses tested in the two guards
    guards = {}
    for bid in h.rpo():
        br = h.branch(bid)
        if br:
            c0 = strip(br[0])
            if c0.get("k") == "bin" and c0["op"] == "==" and is_var(c0["l"], "status"):
                nm = name_of_const(c0["r"])
                # which next_lookup does the true edge lead to (without passing other status tests' true edges)?
                pred = reach_avoiding(h, br[1], [])
                for b, i, c in nl:
                    if b.id == br[1] or b.id in pred:
                        facts = mfh.cond_facts_at(b, i)
                        sl = any(p and "ares_name_label_cnt" in render(cc) for cc, p in facts)
                        guards.setdefault(nm, set()).add("single-label" if sl else "always")
    tab = {}
    for nm, v in guards.items():
        if nm in ("ARES_ENOTFOUND", "ARES_ENODATA"):
            tab[nm] = "always" if "always" in v else "single-label"
        elif nm in ("ARES_ESERVFAIL", "ARES_EREFUSED"):
            tab[nm] = "single-label" if v == {"single-label"} else "always"
    r.info["host_callback_table"] = tab
    if tab == want:
        r.ok("getaddrinfo: continue-set equals search's", h.loc(h.ln), note=str(tab))
    else:
        r.viol("getaddrinfo: continue-set equals search's", h.name, h.loc(h.ln), "address lookups continue on %s; search continues on %s" % (tab, want))


def r_alias(prog, R):
    r = R.rule("R-C12-ALIASBUF", "token buffers in the alias/hosts readers are filled with their own size", floor=2, analysis="sizeof-operand agreement")
    n = 0
    for f in prog.funcs.values():
        for b, i, c in f.calls():
            spec = COPY_FUNCS.get(c.get("callee"))
            if not spec or spec[0] == spec[1] or c.get("callee") in ("memcpy", "memmove", "memset", "recv", "read", "ares_rand_bytes"):
                continue        # for raw copies the size legitimately describes the source
            di, si = spec
            args = c.get("args", [])
            if di >= len(args) or si >= len(args):
                continue
            N = array_bytes(args[di])
            sz = strip(args[si])
            if N is None or sz.get("k") != "sizeof" or sz.get("of") is None:
                continue
            of = strip(sz["of"])
            if array_bytes(of) is None:
                continue
            n += 1
            key = "fn=%s copy=%s dst=%s" % (f.name, c["callee"], render(args[di]))
            if render(of) == render(strip(args[di])):
                r.ok(key, f.loc(c["ln"]), nontrivial=(f.file.endswith("ares_search.c") or f.file.endswith("ares_hosts_file.c")))
            else:
                r.viol(key, f.name, f.loc(c["ln"]), "destination '%s' is filled with sizeof(%s): tokens are truncated/rejected at the wrong length (or overflow)" % (render(args[di]), render(of)))
    r.info["sizeof_sites"] = n


def r_ndots(prog, R):
    r = R.rule("R-C12-NDOTS", "the ndots threshold that orders the candidates is taken from configuration for every legal value, including 0", floor=4, analysis="exact guard (guard_delta) on the stores of channel->ndots and of sysconfig->ndots")
    # system configuration: guarded by the user's option bit and nothing else (0 is a legal value: 'try the name as-is first, always')
    f = prog.func("ares_sysconfig_apply")
    mf = MustFacts(f, track_calls=False)
    st = [(b, i, el) for b, i, el in f.elements() if el["k"] == "asg" and is_field(el["e"]["l"], "ndots", "ares_channeldata")]
    if r.require(len(st) == 1, "ares_sysconfig_apply: store of channel->ndots not found"):
        b, i, el = st[0]
        extra = []
        for c3, p3 in mf.cond_facts_at(b, i):
            t = render(c3)
            if "optmask" in t and "ARES_OPT_NDOTS" in " ".join(m for n in walk(c3) for m in ([n.get("mac")] if isinstance(n.get("mac"), str) else (n.get("mac") or []))):
                continue
            extra.append(("" if p3 else "!") + t)
        if extra:
            r.viol("sysconfig ndots applied for every value", f.name, f.loc(el), "channel->ndots is taken from the system configuration only when %s: 'options ndots:0' (a legal value) is ignored and a dot-less name is tried after the search domains instead of first" % extra)
        else:
            r.ok("sysconfig ndots applied for every value", f.loc(el))
    # options: negative is refused, 0 accepted
    g = prog.func("ares_init_by_options")
    mg = MustFacts(g, track_calls=False)
    st = [(b, i, el) for b, i, el in g.elements() if el["k"] == "asg" and is_field(el["e"]["l"], "ndots", "ares_channeldata")]
    if r.require(len(st) == 1, "ares_init_by_options: store of channel->ndots not found"):
        b, i, el = st[0]
        bad = None
        for c3, p3 in mg.cond_facts_at(b, i):
            op, l3, r3 = norm_cmp(c3, p3)
            if r3 is not None and "ndots" in render(l3) and "options" in render(l3):
                v = const_val(r3)
                # the store must be reachable for ndots == 0: facts of the form ndots >= 0 / !(ndots < 0) are fine
                if (op == ">" and v == 0) or (op == ">=" and v is not None and v >= 1) or (op == "!=" and v == 0) or op == "truth":
                    bad = render(c3)
            elif op == "truth" and "ndots" in render(l3) and "options" in render(l3):
                bad = render(c3)
        if bad:
            r.viol("option ndots 0 accepted", g.name, g.loc(el), "ARES_OPT_NDOTS with ndots = 0 is not stored (guard '%s')" % bad)
        else:
            r.ok("option ndots 0 accepted", g.loc(el))
    # the reader of `options ndots:N` / RES_OPTIONS stores 0 like any other value: no guard on the converted number excludes it
    po = prog.func("process_option")
    mp = MustFacts(po, track_calls=False)
    st = [(b, i, el) for b, i, el in po.elements() if el["k"] == "asg" and is_field(el["e"]["l"], "ndots", "ares_sysconfig_t")]
    if r.require(len(st) >= 1, "process_option: store of sysconfig->ndots not found"):
        import codecrules
        for b, i, el in st:
            rel = {v["n"] for v in vars_in(el["e"].get("r"))}
            grew = True
            while grew:
                grew = False
                for nm in list(rel):
                    for x in codecrules._assignments(po, nm):
                        for v in vars_in(x[3]):
                            if v["n"] not in rel and v.get("vk") == "local":
                                rel.add(v["n"])
                                grew = True
            bad = None
            # a test of the converted number against zero whose zero edge cannot reach the store while its other edge can
            for blk in po.blocks.values():
                br = po.branch(blk)
                if not br or br[1] is None or br[2] is None:
                    continue
                for c3, p3 in atoms(br[0], True):
                    op, l3, r3 = norm_cmp(c3, p3)
                    if not (is_var(strip(l3)) and strip(l3)["n"] in rel):
                        continue
                    v = const_val(r3) if r3 is not None else None
                    zero_edge = None
                    if (op == "==" and v == 0) or op == "false" or (op == "<" and v == 1) or (op == "<=" and v == 0):
                        zero_edge, other = br[1], br[2]
                    elif (op == "!=" and v == 0) or op == "truth" or (op == ">" and v == 0) or (op == ">=" and v == 1):
                        zero_edge, other = br[2], br[1]
                    if zero_edge is None:
                        continue
                    rz = reach_avoiding(po, zero_edge, (), None, 0)
                    ro = reach_avoiding(po, other, (), None, 0)
                    zr = zero_edge == b.id or b.id in rz
                    orr = other == b.id or b.id in ro
                    if orr and not zr:
                        bad = render(c3)
            if bad:
                r.viol("system ndots 0 accepted", po.name, po.loc(el), "sysconfig->ndots is only stored when '%s': 'options ndots:0' (resolv.conf, RES_OPTIONS) is dropped as malformed, ndots stays 1 and a "
                       "dot-less name is tried after the search domains instead of first" % bad)
            else:
                r.ok("system ndots 0 accepted", po.loc(el))
    # the comparison that uses it is `ndots >= channel->ndots` (checked by R-C12-ORDER); the default is 1
    d = prog.func("ares_init_by_sysconfig")
    dv = [el for _, _, el in d.elements() if el["k"] == "asg" and render(strip(el["e"]["l"])).endswith("ndots") and const_val(el["e"].get("r")) is not None]
    if dv and const_val(dv[0]["e"]["r"]) == 1:
        r.ok("default ndots is 1", d.loc(dv[0]))
    else:
        r.viol("default ndots is 1", d.name, d.loc(d.ln), "the default ndots threshold is no longer 1")


def _flows(f, seeds):
    """names in f that hold (a copy of) one of the seed names: x = seed, x = dup(seed)"""
    names = set(seeds)
    changed = True
    while changed:
        changed = False
        for b, i, el in f.elements():
            tgt, rhs = None, None
            if el["k"] == "asg" and el["e"]["op"] == "=" and strip(el["e"]["l"]).get("k") == "var":
                tgt, rhs = strip(el["e"]["l"])["n"], el["e"].get("r")
            elif el["k"] == "decl":
                for v in el["vars"]:
                    if v.get("init") is not None:
                        tgt, rhs = v["n"], v["init"]
            if tgt is None or tgt in names or rhs is None:
                continue
            rs = strip(rhs)
            if rs is not None and rs.get("k") == "call":
                cc = f.call_by_id(rs["id"])[2] if rs.get("ref") else rs
                if cc.get("callee") in ("ares_strdup",) and cc.get("args") and strip(cc["args"][0]).get("k") == "var" and strip(cc["args"][0])["n"] in names:
                    names.add(tgt)
                    changed = True
            elif rs is not None and rs.get("k") == "var" and rs["n"] in names:
                names.add(tgt)
                changed = True
    return names


def r_envdomain(prog, R):
    r = R.rule("R-C12-ENVDOMAIN", "LOCALDOMAIN replaces the search list of the configuration file (resolv.conf(5): 'the search keyword ... can be overridden on a per-process basis by "
               "setting the environment variable LOCALDOMAIN'): between reading the variable and storing the domain list no test of the list already configured decides", floor=1,
               analysis="interprocedural guard collection (A-DOM facts at each call site on the value's way to the store)")
    f = prog.func("ares_init_by_environment")
    seeds = set()
    for b, i, c in f.calls():
        if c.get("callee") == "getenv" and c.get("args") and "LOCALDOMAIN" in render(c["args"][0]):
            for b2, i2, el in f.elements():
                if el["k"] == "asg" and el["e"]["op"] == "=" and strip(el["e"]["l"]).get("k") == "var":
                    rs = strip(el["e"].get("r"))
                    if rs is not None and rs.get("k") == "call" and rs.get("ref") and rs.get("id") == c.get("id"):
                        seeds.add(strip(el["e"]["l"])["n"])
    if not r.require(bool(seeds), "getenv(\"LOCALDOMAIN\") not found in ares_init_by_environment"):
        return
    found = []

    def descend(g, names, guards, depth, chain):
        if depth > 4:
            return
        names = _flows(g, names)
        mf = MustFacts(g)
        # guards that protect the existing list when the value itself is empty do not count: only tests of the configured list do
        for b, i, el in g.elements():
            if el["k"] == "asg" and is_field(el["e"]["l"], "domains", "ares_sysconfig_t") and el["e"]["op"] == "=" and not (const_val(el["e"].get("r")) == 0):
                found.append((g, b, i, el, guards + [(g, cc, p) for cc, p in mf.cond_facts_at(b, i)], chain))
        for b, i, c in g.calls():
            t = prog.resolve(g, c)
            if t is None or not t.file.startswith("src/lib/"):
                continue
            pn = set()
            for ai, a in enumerate(c.get("args", [])):
                a2 = strip(a)
                if a2 is not None and a2.get("k") == "var" and a2["n"] in names and ai < len(t.params):
                    pn.add(t.params[ai]["n"])
            if pn and t.name not in ("ares_strdup", "ares_free", "ares_strlen"):
                descend(t, pn, guards + [(g, cc, p) for cc, p in mf.cond_facts_at(b, i)], depth + 1, chain + [(g, c)])

    descend(f, seeds, [], 0, [])
    if not r.require(bool(found), "no store to sysconfig->domains reachable with the value of LOCALDOMAIN"):
        return
    for g, b, i, el, guards, chain in found:
        bad = [(gg, cc, p) for gg, cc, p in guards if any(is_field(x, fld, "ares_sysconfig_t") for x in walk(cc) for fld in ("domains", "ndomains"))]
        k = "LOCALDOMAIN -> %s store" % g.name
        via = " -> ".join([x[0].name for x in chain] + [g.name])
        if bad:
            gg, cc, p = bad[0]
            r.viol(k, gg.name, gg.loc(cc.get("ln", gg.ln)) if isinstance(cc, dict) and cc.get("ln") else g.loc(el), "on the way %s the list is only stored if '%s%s' (in %s): with a search or domain line in the file LOCALDOMAIN is silently "
                   "ignored and every search uses the file's list" % (via, "" if p else "!", render(strip(cc)), gg.name))
        else:
            r.ok(k, g.loc(el))
    r.info["paths"] = [" -> ".join([x[0].name for x in ch] + [g.name]) for g, b, i, el, gu, ch in found]


def run(prog, R, tier):
    R.assume("ares_cat_domain concatenates name '.' domain; ares_name_label_cnt counts labels (string construction not decided)")
    r_order(prog, R)
    r_stop(prog, R)
    r_alias(prog, R)
    r_ndots(prog, R)
    r_envdomain(prog, R)
