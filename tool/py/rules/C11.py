"""C11 — concurrent use of one channel is race-free and deadlock-free (lock discipline)."""
from lib import *  # noqa
import lock
from lib import _mem_rw
import effects
import C07

TECHNIQUE = ("lock-depth dataflow with balance check on every function, entry-context propagation from all thread roots (public API, event thread, "
             "reload thread, slot-resolved callbacks), lockset check of every access to channel-reachable state, lock-order / no-callback-under-event-mutex "
             "rule, condition-variable protocol and tear-down order by must-pass-through"
             ", exact guard on every match of the event-update lookup")
LEVEL_TEXT = ("static: decides the lock discipline race freedom rests on, for all call paths from all thread roots of the analysed (threaded) configuration: "
              "(BAL) every function returns with the lock depths it was entered with; (GUARD) every read/write of channel, server, connection, query and "
              "cache state happens with the channel lock held, except inside construction/tear-down and for fields never written after construction; "
              "(ORDER) the channel lock is never taken and no channel code runs while the event thread's mutex is held; (COND) waiting for an empty queue "
              "re-tests its predicate under the lock and every emptier notifies under the lock; (TEARDOWN) destroy marks down, stops the watcher, joins the "
              "reload thread, then tears down. (WAKE) a request that becomes the earliest to time out wakes the event thread. Does not decide other lost wake-ups, fairness or timing."
              " Also decides that queued event updates are merged only into live requests for the same handle, never into a queued removal.")
# seventh/eighth-round addition
TECHNIQUE += "; " + 'loop membership of every single condition wait'
LEVEL_TEXT += " " + '(COND, eighth round) every ares_thread_cond_wait / cond_timedwait of the queue-empty wait sits inside a loop that re-tests the queue.'
LEVEL_NOTE = ("trusts clang CFG + extractor; indirect calls resolved by slot (assignments / initialisers / parameter-to-field forwarding) and per container "
              "instance; ares_init_options (unpublished object) and ares_destroy (exclusive by contract) are treated as holding the lock")
DESIGN_REF = "DESIGN.md §6/C11"
EXPLANATION = LEVEL_TEXT
NOT_DECIDED = "lost wake-ups other than the deadline wake (R-C11-WAKE) and the empty-queue notification (R-C11-COND); fairness; races on objects not reachable from the channel (e.g. library init globals)"

GUARDED_RECORDS = {"ares_channeldata", "ares_server", "ares_conn", "ares_query", "ares_qcache"}
UNGUARDED_FIELDS = {("ares_channeldata", "lock"), ("ares_channeldata", "cond_empty")}
INIT_ROOTS = {"ares_init_options": 1, "ares_destroy": 1}


def slot_targets(prog):
    """(record, field) -> set of function names ever stored there (direct assignment, initialiser, or via a parameter that the callee stores)"""
    slots = {}
    param_store = {}   # func key -> {param idx: (rec, field)}
    for f in prog.funcs.values():
        pidx = {p["n"]: k for k, p in enumerate(f.params)}
        for b, i, el in f.elements():
            if el["k"] == "asg" and el["e"]["op"] == "=":
                l = strip(el["e"]["l"])
                r_ = strip(el["e"].get("r"))
                if l.get("k") == "mem" and r_ is not None:
                    if r_.get("k") == "fn":
                        slots.setdefault((l["rec"], l["f"]), set()).add(r_["n"])
                    elif r_.get("k") == "var" and r_["n"] in pidx:
                        param_store.setdefault(f.key, {})[pidx[r_["n"]]] = (l["rec"], l["f"])
    for f in prog.funcs.values():
        for b, i, c in f.calls():
            t = prog.resolve(f, c)
            if t is None or t.key not in param_store:
                continue
            for k, a in enumerate(c.get("args", [])):
                a2 = strip(a)
                if a2 is not None and a2.get("k") == "fn" and k in param_store[t.key]:
                    slots.setdefault(param_store[t.key][k], set()).add(a2["n"])
    for g in prog.globals.values():
        init = g.get("init")
        if init is None:
            continue
        recname = g["ty"].replace("const ", "").replace("struct ", "").strip()
        for n in walk(init):
            if n.get("k") == "init":
                for it in n["items"]:
                    e = strip(it.get("e")) if it.get("e") else None
                    if e is not None and e.get("k") == "fn" and it.get("f"):
                        slots.setdefault((recname, it["f"]), set()).add(e["n"])
    return slots


def build(prog):
    L = lock.Locks(prog)
    E = effects.Effects(prog)
    slots = slot_targets(prog)

    by_type = {}
    for f0 in prog.funcs.values():
        for b0, i0, el0 in f0.elements():
            exprs = [v.get("init") for v in el0["vars"] if v.get("init")] if el0["k"] == "decl" else ([el0["e"]] if el0.get("e") is not None else [])
            for e0 in exprs:
                for n0 in walk(e0):
                    if n0.get("k") == "fn":
                        for t0 in prog.by_name.get(n0["n"], []):
                            by_type.setdefault(n0.get("ty"), set()).add(t0)

    def indirect(f, c):
        out = []
        fx = strip(c.get("fnx"))
        while fx is not None and fx.get("k") == "un":
            fx = strip(fx["e"])
        if fx is not None and fx.get("k") == "mem":
            for nm in slots.get((fx["rec"], fx["f"]), ()):
                for t in prog.by_name.get(nm, []):
                    out.append(t)
        is_global = fx is not None and fx.get("k") == "var" and fx.get("vk") not in ("local", "param")
        if not out and not is_global and not f.file.startswith(effects.GENERIC_FILES):
            out = sorted(by_type.get(c.get("fnty"), ()), key=lambda t: t.key)
        return out
    roots = {}
    for f in prog.public_functions():
        roots[f.key] = (0, 0)
    # thread entry points
    for f in prog.funcs.values():
        for b, i, c in f.calls_to("ares_thread_create"):
            a = strip(call_arg(c, 1))
            if a is not None and a.get("k") == "fn":
                for t in prog.by_name.get(a["n"], []):
                    roots[t.key] = (0, 0)
    virtual = {}
    for nm, v in INIT_ROOTS.items():
        virtual[prog.func(nm).key] = v
    def indirect2(f, c):
        if c.get("callee") in effects.DESTROY_PRIMS:
            out = []
            for key in E._container_fields_of_call(f, c):
                out.extend(E.container_destructors.get(key, []))
            return out
        return indirect(f, c)
    ent = L.entry_depths(roots, virtual, indirect2)
    # may-lock closure including slot-resolved indirect calls
    ml = {k: set(v) for k, v in L.may_lock.items()}
    edges = {}
    for f in prog.funcs.values():
        for b, i, c in f.calls():
            if not c.get("callee"):
                for t in indirect(f, c):
                    edges.setdefault(f.key, set()).add(t.key)
            else:
                t = prog.resolve(f, c)
                if t is not None:
                    edges.setdefault(f.key, set()).add(t.key)
    changed = True
    while changed:
        changed = False
        for k, ts in edges.items():
            for t in ts:
                if not ml[t] <= ml[k]:
                    ml[k] |= ml[t]
                    changed = True
    L.may_lock_ind = ml
    L.indirect = indirect
    return L, E, ent, virtual, slots, roots


def r_bal(prog, R, L):
    r = R.rule("R-C11-BAL", "every function returns with the lock depths it was entered with", floor=800, analysis="A-LOCK depth dataflow")
    n = 0
    for f in sorted(prog.funcs.values(), key=lambda x: x.key):
        ex = L.exits.get(f.key, set())
        if f.name in ("ares_channel_lock", "ares_channel_unlock", "ares_thread_mutex_lock", "ares_thread_mutex_unlock"):
            continue
        n += 1
        bad = [d for d in ex if d != (0, 0)]
        touches = any(lock.lock_event(f, c) for _, _, c in f.calls())
        if bad:
            which = "channel lock" if any(d[0] != 0 for d in bad) else "event-thread mutex"
            r.viol("fn=%s balanced" % f.name, f.name, f.loc(f.ln), "a path through %s returns with the %s depth changed by %s: later callers deadlock or run unlocked" % (
                f.name, which, sorted(bad)))
        else:
            r.ok("fn=%s balanced" % f.name, f.loc(f.ln), nontrivial=touches)
    r.info["functions"] = n


def r_guard(prog, R, L, ent, virtual, roots):
    r = R.rule("R-C11-GUARD", "channel-reachable state is accessed only with the channel lock held (outside construction/tear-down)", floor=120, analysis="A-LOCK lockset over entry contexts")
    # collect accesses
    acc = []
    for f in prog.funcs.values():
        if f.key not in ent:
            continue
        emin = min(d[0] for d in ent[f.key]) + virtual.get(f.key, 0)
        for b in f.blocks.values():
            pts = [(i, el) for i, el in enumerate(b.els)]
            for i, el in pts:
                for n, w in list(_mem_rw(el)) + _container_writes(prog, f, el) + _nested_lhs_writes(el):
                    if n["rec"] in GUARDED_RECORDS and (n["rec"], n["f"]) not in UNGUARDED_FIELDS:
                        ds = L.depth_at(f, b, i) or {(0, 0)}
                        dmin = min(d[0] for d in ds)
                        acc.append((f, el["ln"], n["rec"], n["f"], w, emin + dmin))
            if b.term and b.term.get("cond") is not None:
                ds = L.depth_at(f, b, len(b.els)) or {(0, 0)}
                dmin = min(d[0] for d in ds)
                for n in mem_accesses(b.term["cond"]):
                    if n["rec"] in GUARDED_RECORDS and (n["rec"], n["f"]) not in UNGUARDED_FIELDS:
                        acc.append((f, b.term["ln"], n["rec"], n["f"], False, emin + dmin))
    r.info["accesses"] = len(acc)
    # fields written somewhere with the lock held at run time (i.e. outside the virtual-held construction): "mutable after publication"
    mutable = set()
    init_only = {prog.func(nm).key for nm in INIT_ROOTS}
    reach_init = _reach_only_from(prog, init_only, ent, roots)
    for (f, ln, rec, fld, w, depth) in acc:
        if w and f.key not in reach_init:
            mutable.add((rec, fld))
    groups = {}
    for (f, ln, rec, fld, w, depth) in acc:
        if depth >= 1:
            continue
        if not w and (rec, fld) not in mutable:
            continue      # never written after construction
        groups.setdefault((f.name, "write" if w else "read"), []).append((rec, fld, ln, f))
    bad = {(fn) for (fn, kind) in groups}
    per = {}
    for (f, ln, rec, fld, w, depth) in acc:
        per.setdefault(f.name, [0, f])[0] += 1
    for fn, (cnt, f) in sorted(per.items()):
        if fn not in bad:
            r.ok("fn=%s (%d accesses) locked" % (fn, cnt), f.loc(f.ln))
    for (fn, kind), items in sorted(groups.items()):
        flds = sorted({"%s.%s" % (rec.replace("ares_channeldata", "channel"), fld) for rec, fld, ln, f in items})
        f = items[0][3]
        dmin = min(ent[f.key])
        r.viol("fn=%s unlocked-%s" % (fn, kind), fn, "%s:%s" % (f.file, min(x[2] for x in items)), trail=L.trail(f.key, dmin), msg=
               "%s %s %s without the channel lock on some call path from a thread root; another thread (event thread, reload thread or a concurrent caller) writes %s under the lock" % (
                   fn, "writes" if kind == "write" else "reads", flds, "them" if len(flds) > 1 else "it"))
    r.info["mutable_after_publication"] = len(mutable)


def _nested_lhs_writes(el):
    """`obj->sub.field = v` also writes obj's member `sub`"""
    out = []
    if el["k"] == "asg":
        p = strip(el["e"]["l"])
        first = True
        while p is not None and p.get("k") in ("mem", "idx"):
            if p.get("k") == "mem" and not first:
                out.append((p, True))
            first = False
            p = strip(p.get("b"))
    elif el["k"] == "call" and el["e"].get("callee") in ("memset", "memcpy", "memmove", "ares_strcpy"):
        a = strip(call_arg(el["e"], 0))
        if a is not None and a.get("k") == "un" and a["op"] == "&":
            a = strip(a["e"])
        p = a
        while p is not None and p.get("k") in ("mem", "idx"):
            if p.get("k") == "mem":
                out.append((p, True))
            p = strip(p.get("b"))
    return out


def _container_writes(prog, f, el):
    """a generic container/buffer primitive called on a guarded object's member mutates that member unless the parameter is pointer-to-const"""
    out = []
    if el["k"] != "call":
        return out
    c = el["e"]
    t = prog.resolve(f, c)
    if t is None or not t.file.startswith(effects.GENERIC_FILES):
        return out
    constp = c.get("constp") or []
    for k, a in enumerate(c.get("args", [])):
        a2 = strip(a)
        if a2 is not None and a2.get("k") == "mem" and a2.get("rec") in GUARDED_RECORDS and "*" in (a2.get("ty") or ""):
            if not (k < len(constp) and constp[k]):
                out.append((a2, True))
    return out


def _reach_only_from(prog, init_keys, ent, roots):
    """functions reachable only through the init/teardown roots (approximation: called only from such functions)"""
    only = set(init_keys)
    changed = True
    callers = prog.callers()
    while changed:
        changed = False
        for f in prog.funcs.values():
            if f.key in only or f.key not in ent:
                continue
            cs = callers.get(f.key, [])
            if cs and all(c[0].key in only for c in cs) and f.key not in roots:
                only.add(f.key)
                changed = True
    return only


def r_order(prog, R, L, E):
    r = R.rule("R-C11-ORDER", "nothing that takes the channel lock or runs channel code is called while the event thread's mutex is held", floor=8, analysis="A-LOCK order")
    n = 0
    for f in sorted(prog.funcs.values(), key=lambda x: x.key):
        for b, i, c in f.calls():
            ds = L.depth_at(f, b, i)
            if not ds or max(d[1] for d in ds) < 1:
                continue
            if lock.lock_event(f, c) is not None:
                continue
            n += 1
            key = "fn=%s call=%s under e->mutex" % (f.name, c.get("callee") or render(c.get("fnx")))
            ts = [prog.resolve(f, c)] if c.get("callee") else L.indirect(f, c)
            ts = [t for t in ts if t is not None]
            bad = [t for t in ts if lock.CH in L.may_lock_ind.get(t.key, ())]
            comp = [t for t in ts if E.func_may_complete(t)]
            if bad:
                r.viol(key, f.name, f.loc(c["ln"]), "%s may take the channel lock while e->mutex is held: lock-order inversion against the socket-state callbacks, which take e->mutex under the channel lock" % bad[0].name)
            elif comp:
                r.viol(key, f.name, f.loc(c["ln"]), "%s may run completion callbacks while e->mutex is held" % comp[0].name)
            elif not c.get("callee") and not ts:
                r.viol(key, f.name, f.loc(c["ln"]), "unresolved indirect call while e->mutex is held")
            else:
                r.ok(key, f.loc(c["ln"]))
    # the other direction is the allowed order: channel lock -> e->mutex
    r.info["calls_under_event_mutex"] = n


def r_cond(prog, R, L):
    r = R.rule("R-C11-COND", "queue-empty wait re-tests under the lock; every emptier notifies under the lock", floor=5, analysis="A-DOM + A-LOCK")
    w = prog.func("ares_queue_wait_empty")
    loops = w.natural_loops()
    okloop = False
    for h, body in loops.items():
        br = w.branch(h)
        if br and "ares_llist_len" in render(br[0]) and any(is_call_el(el, "ares_thread_cond_wait", "ares_thread_cond_timedwait") for x in body for el in w.blocks[x].els):
            okloop = True
    # every other way out of the loop carries a non-success status
    for h, body in loops.items():
        for u in body:
            if u == h:
                continue
            br = w.branch(u)
            for k, v in enumerate(w.blocks[u].succs):
                if v is None or v in body:
                    continue
                key = "loop exit at line %s carries a failure status" % (w.blocks[u].term or {}).get("ln", "?")
                good = False
                if br and len(w.blocks[u].succs) == 2:
                    op, l, rr = norm_cmp(br[0], k == 0)
                    nm = name_of_const(rr)
                    if is_var(strip(l), "status") and ((op == "==" and nm and nm != "ARES_SUCCESS") or (op == "!=" and nm == "ARES_SUCCESS")):
                        good = True
                if good:
                    r.ok(key, w.loc(w.blocks[u].term["ln"]))
                else:
                    r.viol(key, w.name, w.loc((w.blocks[u].term or {}).get("ln", w.ln)), "ares_queue_wait_empty can leave its wait loop without re-testing the queue and without a failure status: success reported while requests are outstanding")
    # every single wait (timed or not) sits inside a loop that re-tests the predicate: a wake-up is only a hint (spurious wake-ups; a request enqueued between the
    # broadcast and the waiter getting the lock back)
    for b, i, c in w.calls():
        if c.get("callee") in ("ares_thread_cond_wait", "ares_thread_cond_timedwait"):
            inl = any(b.id in body and w.branch(h) and "ares_llist_len" in render(w.branch(h)[0]) for h, body in loops.items())
            key = "%s re-tests the queue after waking" % c["callee"]
            if inl:
                r.ok(key, w.loc(c["ln"]))
            else:
                r.viol(key, w.name, w.loc(c["ln"]), "%s is not inside a loop on 'all_queries is empty': its status is returned as is, so a wake-up followed by a new request (or a spurious "
                       "wake-up) reports success while requests are outstanding" % c["callee"])
    if okloop:
        r.ok("wait loops on the predicate", w.loc(w.ln))
    else:
        r.viol("wait loops on the predicate", w.name, w.loc(w.ln), "ares_queue_wait_empty does not re-test 'all_queries is empty' in a loop around the condition wait (spurious wake-ups report success)")
    for b, i, c in w.calls():
        if c.get("callee") in ("ares_thread_cond_wait", "ares_thread_cond_timedwait", "ares_llist_len"):
            ds = L.depth_at(w, b, i)
            if ds and min(d[0] for d in ds) >= 1:
                r.ok("%s under lock" % c["callee"], w.loc(c["ln"]))
            else:
                r.viol("%s under lock" % c["callee"], w.name, w.loc(c["ln"]), "%s evaluated without the channel lock" % c["callee"])
    # every removal from the all-queries list is followed, on every path to the exit, by the notification
    notifiers = {"ares_queue_notify_empty"}
    changed = True
    while changed:
        changed = False
        for f in prog.funcs.values():
            if f.name in notifiers:
                continue
            # a function notifies when every path from entry to exit passes a notifier call
            if f.blocks and can_reach_exit_avoiding(f, f.entry, -1, lambda el: is_call_el(el, *notifiers)) is None:
                notifiers.add(f.name)
                changed = True
    nrem = 0
    for f in sorted(prog.funcs.values(), key=lambda x: x.key):
        for b, i, c in f.calls():
            cal = c.get("callee")
            removal = cal in ("ares_detach_query", "ares_free_query") or (cal in ("ares_llist_node_claim", "ares_llist_node_destroy") and f.name in ("ares_cancel", "ares_destroy"))
            # ares_free_query is the primitive; ares_send_nolock frees a request it created in the same critical section (no waiter can have seen it)
            if not removal or f.name in ("ares_free_query", "ares_send_nolock"):
                continue
            nrem += 1
            key = "fn=%s removal(%s) -> notify" % (f.name, cal)
            tr = can_reach_exit_avoiding(f, b, i, lambda el: is_call_el(el, *notifiers))
            if tr is None:
                r.ok(key, f.loc(c["ln"]))
            else:
                r.viol(key, f.name, f.loc(c["ln"]), "%s removes a request from the outstanding list and can return without ares_queue_notify_empty: a thread in ares_queue_wait_empty is never woken (lost wake-up)" % f.name,
                       trail=trail_lines(f, tr))
    r.info["removal_sites"] = nrem
    ne = prog.func("ares_queue_notify_empty")
    if any(c.get("callee") == "ares_thread_cond_broadcast" for _, _, c in ne.calls()):
        r.ok("notify broadcasts", ne.loc(ne.ln))
    else:
        r.viol("notify broadcasts", ne.name, ne.loc(ne.ln), "ares_queue_notify_empty no longer broadcasts the condition")


def r_teardown(prog, R, L):
    r = R.rule("R-C11-TEARDOWN", "destroy: mark down (locked) -> stop config watcher -> join reload thread -> lock, cancel all, unlock -> stop event thread -> free", floor=5, analysis="A-DOM order")
    f = prog.func("ares_destroy")
    mf = MustFacts(f)
    def first(pred):
        for b, i, el in exec_order(f):
            if pred(el):
                return (b, i, el)
        return None
    steps = [
        ("sys_up=FALSE", lambda el: el["k"] == "asg" and is_field(el["e"]["l"], "sys_up") and name_of_const(el["e"].get("r")) == "ARES_FALSE"),
        ("configchg_destroy", lambda el: is_call_el(el, "ares_event_configchg_destroy")),
        ("join reload thread", lambda el: is_call_el(el, "ares_thread_join")),
        ("complete all queries", lambda el: el["k"] == "call" and not el["e"].get("callee") and "callback" in render(el["e"].get("fnx"))),
        ("stop event thread", lambda el: is_call_el(el, "ares_event_thread_destroy")),
        ("free channel", lambda el: is_call_el(el, "ares_free") and is_var(call_arg(el["e"], 0), "channel")),
    ]
    pos = []
    for nm, pred in steps:
        x = first(pred)
        if x is None:
            r.viol("step:%s" % nm, f.name, f.loc(f.ln), "tear-down step '%s' not found" % nm)
            return
        pos.append((nm, x))
    for k in range(len(pos) - 1):
        (n1, (b1, i1, e1)), (n2, (b2, i2, e2)) = pos[k], pos[k + 1]
        if (b2.id, i2) in reach_after(f, b1.id, i1) and (b1.id, i1) not in reach_after(f, b2.id, i2):
            r.ok("order:%s < %s" % (n1, n2), f.loc(e2))
        else:
            r.viol("order:%s < %s" % (n1, n2), f.name, f.loc(e2), "tear-down order changed: '%s' no longer strictly precedes '%s'" % (n1, n2))
    b, i, el = pos[0][1]
    ds = L.depth_at(f, b, i)
    if ds and min(d[0] for d in ds) >= 1:
        r.ok("sys_up cleared under lock", f.loc(el))
    else:
        r.viol("sys_up cleared under lock", f.name, f.loc(el), "sys_up is cleared without the lock: a concurrent ares_reinit may still start a reload thread")
    b, i, el = pos[2][1]
    ds = L.depth_at(f, b, i)
    if ds and max(d[0] for d in ds) == 0:
        r.ok("join outside lock", f.loc(el))
    else:
        r.viol("join outside lock", f.name, f.loc(el), "reload thread joined while holding the channel lock (the thread takes that lock: deadlock)")
    b, i, el = pos[3][1]
    ds = L.depth_at(f, b, i)
    if ds and min(d[0] for d in ds) >= 1:
        r.ok("callbacks under lock", f.loc(el))
    else:
        r.viol("callbacks under lock", f.name, f.loc(el), "EDESTRUCTION callbacks run without the channel lock")
    # reinit: sys_up / reinit_pending tested under the lock
    g = prog.func("ares_reinit")
    for fld in ("sys_up", "reinit_pending"):
        okf = False
        for b in g.blocks.values():
            if b.term and b.term.get("cond") is not None and any(is_field(n, fld) for n in walk(b.term["cond"])):
                ds = L.depth_at(g, b, len(b.els))
                if ds and min(d[0] for d in ds) >= 1:
                    okf = True
        if okf:
            r.ok("reinit tests %s under lock" % fld, g.loc(g.ln))
        else:
            r.viol("reinit tests %s under lock" % fld, g.name, g.loc(g.ln), "ares_reinit does not test channel->%s with the lock held" % fld)


def r_reinit_handshake(prog, R, L):
    r = R.rule("R-C11-REINITJOIN", "ares_reinit joins the previous reload thread while holding the channel lock, relying on 'not pending => that thread takes no lock again': "
               "the reload thread clears reinit_pending only after its last lock acquisition", floor=1, analysis="reachability store -> lock acquisition (A-LOCK may-lock summaries)")
    f = prog.func("ares_reinit_thread")
    stores = [(b, i, el) for b, i, el in f.elements() if el["k"] == "asg" and is_field(el["e"]["l"], "reinit_pending") and name_of_const(el["e"].get("r")) == "ARES_FALSE"]
    if not r.require(bool(stores), "ares_reinit_thread: reinit_pending = ARES_FALSE not found"):
        return
    # the premise: ares_reinit joins under the lock only when reinit_pending is false
    for b, i, el in stores:
        k = "reload thread takes no lock after clearing reinit_pending"
        hit = None
        for (bb, ii) in reach_after(f, b.id, i):
            e2 = f.blocks[bb].els[ii]
            if e2["k"] != "call":
                continue
            cal = e2["e"].get("callee") or ""
            if cal.endswith("_lock") and not cal.endswith("unlock"):
                hit = e2
            t = prog.resolve(f, e2["e"])
            if t is not None and L.may_lock.get(t.key):
                hit = e2
        if hit is None:
            r.ok(k, f.loc(el))
        else:
            r.viol(k, f.name, f.loc(el), "ares_reinit_thread clears reinit_pending and afterwards still reaches %s(), which takes the channel lock: a second ares_reinit() sees 'not pending', joins this thread while holding that lock, and both wait for each other forever (every later channel call hangs)" % (hit["e"].get("callee") or "a call"))


def r_evmerge(prog, R):
    r = R.rule("R-C11-EVMERGE", "requests queued for the event thread are merged only with a live request for the same handle, never with a queued removal: a descriptor "
               "number closed and reopened before the event thread looks is removed first and registered afresh (otherwise its events are lost)", floor=2,
               analysis="exact guard on every match returned by the update lookup")
    f = prog.func("ares_event_update_find")
    mf = MustFacts(f, track_calls=False)
    n = 0
    for b, i, el in f.returns():
        e = strip(el.get("e"))
        if e is None or is_null(e) or not is_var(e):
            continue
        n += 1
        ev = e["n"]
        kind = "handle"
        live = False
        for c3, p3 in mf.cond_facts_at(b, i):
            op, l3, r3 = norm_cmp(c3, p3)
            ls = strip(l3)
            if is_var(ls) and r3 is not None and name_of_const(r3) == "ARES_SOCKET_BAD" and ls.get("vk") == "param":
                kind = "socket" if op == "!=" else "data-handle"
            if ls is not None and ls.get("k") == "mem" and ls["f"] == "flags" and is_var(strip(ls["b"]), ev):
                if (op == "!=" and r3 is not None and const_val(r3) == 0) or op == "truth":
                    live = True
        k = "%s match is not a queued removal" % kind
        if live:
            r.ok(k, f.loc(el))
        else:
            r.viol(k, f.name, f.loc(el), "ares_event_update_find returns a queued update without requiring %s->flags != 0: a queued 'remove fd N' is overwritten by the re-registration of a new socket that got the same number, the event thread then modifies a registration that no longer exists and never watches the new socket (its answers are never read)" % ev)
    r.require(n >= 2, "ares_event_update_find: socket / data-handle matches not found")


def run(prog, R, tier):
    R.assume("ares_init_options works on an unpublished channel and ares_destroy is called when no other user thread uses the channel (API contract)")
    R.assume("configuration analysed: CARES_THREADS on Linux (epoll/poll/select, pipe wake-up)")
    L, E, ent, virtual, slots, roots = build(prog)
    R.notes["roots"] = len(roots)
    r_bal(prog, R, L)
    r_guard(prog, R, L, ent, virtual, roots)
    r_order(prog, R, L, E)
    r_cond(prog, R, L)
    r_teardown(prog, R, L)
    # the one cross-thread wake-up the per-request time bound rests on (same rule as C07)
    C07.r_wake(prog, R, rid="R-C11-WAKE")
    r_evmerge(prog, R)
    r_reinit_handshake(prog, R, L)
