"""C18 — legacy reply parsers agree with the record API and respect caller limits (structural clauses)."""
from lib import *  # noqa
import termrules
import order
import ownrules
from order import nocast, key

TECHNIQUE = ("dominating capacity bound on every store into a caller array, sibling-shape table of the legacy parsers (one record parse, negative length "
             "refused, record destroyed on every path, parse failure never turned into success/no-data), typed-allocation/free table agreement, "
             "key-belongs-to-type check inside each type-filtered conversion loop, binary-safe copy rule, heap-ownership typestate over the legacy files")
LEVEL_TEXT = ("static: decides, for all messages and capacities: (CAP) every element store into the caller's addrttl arrays is dominated in the same iteration by "
              "'index < capacity' on the very index used, and the capacity handed down is the caller's; (SHAPE) each legacy parser is one ares_dns_parse of "
              "(abuf, alen) after refusing a negative length, destroys the record on every path and cannot return success or no-data once the record parser "
              "failed; (FREE) ares_free_data releases every pointer member of each typed allocation and follows next, and each parser allocates the type of the "
              "struct it fills; (KEYS) inside a loop filtered on record type T only keys of T are read; (BINSAFE) length-carrying binary values are copied with "
              "their length; (OWN) nothing the parsers allocate leaks or is freed twice. Does NOT decide value equality with the record API.")
# fifth-round additions
TECHNIQUE += "; " + 'disjunctive forward analysis over (status, result pointer) at the hand-out store of every legacy parser (R-C18-NODATA); dense-fill check of hostent arrays (index advanced only after a store)'
LEVEL_TEXT += " " + '(NODATA) the result pointer is non-NULL wherever a parser hands it out under a successful status -- violated by six list parsers on the pinned tree (success with a NULL list for an answer section without records of the type), known findings, the pinned tests pin that behaviour; (TERM) the store index of h_addr_list/h_aliases advances only in rounds that stored an element.'
# seventh/eighth-round addition
TECHNIQUE += "; " + 'skip-edge vocabulary of the counted conversion loops (R-C18-SKIP)'
LEVEL_TEXT += " " + '(SKIP, eighth round) inside the counted conversion loops an element is passed over only because of its type, class or a missing record, never because of its value (an empty character-string is a value).'
# ninth-round addition
TECHNIQUE += "; " + 'length-field provenance of binary values'
LEVEL_TEXT += " " + '(KEYS, ninth round) the length a legacy parser reports for a binary value is the length the record API reported, not a string length of the copy.'
LEVEL_NOTE = "trusts clang CFG + extractor; field-value equality with the record API for all messages is a differential property and needs execution"
DESIGN_REF = "DESIGN.md §6/C18"
EXPLANATION = LEVEL_TEXT
NOT_DECIDED = "field-value equality with the record API for all messages; answer order beyond 'appended at the tail'; the SUCCESS/0 result of ares_parse_a_reply/aaaa_reply when only an addrttl array is given and no record of the family is present"

LEGACY = ("ares_parse_a_reply", "ares_parse_aaaa_reply", "ares_parse_caa_reply", "ares_parse_mx_reply", "ares_parse_naptr_reply", "ares_parse_ns_reply",
          "ares_parse_ptr_reply", "ares_parse_soa_reply", "ares_parse_srv_reply", "ares_parse_txt_reply", "ares_parse_txt_reply_ext", "ares_parse_uri_reply")


def _impl(prog, f):
    """the function that really does the work (public wrapper -> static *_int in the same file)"""
    seen = set()
    while f is not None and f.key not in seen:
        seen.add(f.key)
        if f.calls_to("ares_dns_parse"):
            return f
        nxt = None
        for b, i, c in f.calls():
            t = prog.resolve(f, c)
            if t is not None and t.file == f.file and (t.static or t.name.endswith("_int")):
                nxt = t
        if nxt is None:
            for b, i, c in f.calls():
                t = prog.resolve(f, c)
                if t is not None and t.name.startswith("ares_parse_") and t.calls_to("ares_dns_parse"):
                    nxt = t
        f = nxt
    return None


# ---------------------------------------------------------------- capacity
def r_cap(prog, R):
    r = R.rule("R-C18-CAP", "no store into the caller's addrttl arrays beyond the capacity the caller offered", floor=8, analysis="A-DOM bound on the very index used")
    f = prog.func("ares_addrinfo2addrttl")
    arrs = [p["n"] for p in f.params if p["ty"].endswith("*") and ("addrttl" in p["ty"] or "addr6ttl" in p["ty"])]
    capn = [p["n"] for p in f.params if "req" in p["n"]]
    if not r.require(len(arrs) == 2 and capn, "ares_addrinfo2addrttl: array/capacity parameters not recognised"):
        return
    cap = capn[0]
    mf = MustFacts(f, track_calls=False)
    n = 0
    for b, i, el in f.elements():
        idxs = []
        if el["k"] == "asg":
            p = nocast(el["e"]["l"])
            while p is not None and p.get("k") in ("mem", "idx"):
                if p.get("k") == "idx" and is_var(nocast(p["b"])) and nocast(p["b"])["n"] in arrs:
                    idxs.append(p)
                p = nocast(p.get("b"))
        elif el["k"] == "call":
            a0 = nocast(call_arg(el["e"], 0)) if el["e"].get("callee") in ("memcpy", "memmove", "memset") else None
            if a0 is not None and a0.get("k") == "un" and a0["op"] == "&":
                p = nocast(a0["e"])
                while p is not None and p.get("k") in ("mem", "idx"):
                    if p.get("k") == "idx" and is_var(nocast(p["b"])) and nocast(p["b"])["n"] in arrs:
                        idxs.append(p)
                    p = nocast(p.get("b"))
        for ix in idxs:
            n += 1
            ik = key(ix["i"])
            k = "store %s[%s] @ %s" % (nocast(ix["b"])["n"], ik, el.get("t", "")[:30])
            bounded = False
            for c, p in mf.cond_facts_at(b, i):
                op, l, rr = norm_cmp(c, p)
                if rr is None:
                    continue
                if key(l) == ik and key(rr) == cap and op == "<":
                    bounded = True
                if key(rr) == ik and key(l) == cap and op == ">":
                    bounded = True
            if bounded:
                r.ok(k, f.loc(el))
            else:
                r.viol(k, f.name, f.loc(el), "%s[%s] is written without a dominating '%s < %s' on that same index in this iteration: with more matching addresses than the caller's capacity the caller's array is overrun" % (
                    nocast(ix["b"])["n"], ik, ik, cap))
    r.require(n >= 4, "ares_addrinfo2addrttl: element stores not recognised (%d)" % n)
    # the count reported back is the index that was bounded
    # callers hand down the caller's own capacity
    for name in ("ares_parse_a_reply", "ares_parse_aaaa_reply"):
        g = prog.func(name)
        cs = g.calls_to("ares_addrinfo2addrttl")
        if not cs:
            r.viol("%s converts through ares_addrinfo2addrttl" % name, name, g.loc(g.ln), "%s no longer uses ares_addrinfo2addrttl" % name)
            continue
        b, i, c = cs[0]
        a = nocast(call_arg(c, 2))
        okc = False
        if a is not None and a.get("k") == "var":
            defs = [el for _, _, el in g.elements() if el["k"] == "asg" and is_var(nocast(el["e"]["l"]), a["n"])]
            outp = [p["n"] for p in g.params if p["n"].startswith("naddr")]
            okc = len(defs) == 1 and outp and key(defs[0]["e"]["r"]) == "(*%s)" % outp[0]
        k = "%s hands down the caller's capacity" % name
        if okc:
            r.ok(k, g.loc(c["ln"]))
        else:
            r.viol(k, name, g.loc(c["ln"]), "%s passes %s as capacity, which is not the caller's *naddrttls" % (name, render(a)))
        # the array handed down is the caller's
        arr = nocast(call_arg(c, 3 if name.endswith("_a_reply") else 4))
        if is_var(arr) and arr["n"] in [p["n"] for p in g.params]:
            r.ok("%s hands down the caller's array" % name, g.loc(c["ln"]))
        else:
            r.viol("%s hands down the caller's array" % name, name, g.loc(c["ln"]), "%s passes %s instead of the caller's array" % (name, render(arr)))


# ---------------------------------------------------------------- shape
def r_shape(prog, R):
    r = R.rule("R-C18-SHAPE", "each legacy parser: negative length refused, one ares_dns_parse of (abuf, alen), record destroyed on every path, parser failure never becomes success/no-data", floor=40, analysis="A-TAB sibling shape + A-VS")
    summ = Summaries(prog)
    table = {}
    for name in LEGACY:
        pub = prog.func(name, required=False)
        if pub is None:
            r.broke("legacy parser %s not found" % name)
            continue
        f = _impl(prog, pub)
        if f is None:
            r.viol("%s parses through ares_dns_parse" % name, name, pub.loc(pub.ln), "%s does not reach ares_dns_parse: it no longer shares the record parser's notion of a well-formed message" % name)
            continue
        cs = f.calls_to("ares_dns_parse")
        k = "%s: single ares_dns_parse(abuf, alen)" % name
        b, i, c = cs[0]
        a0, a1 = nocast(call_arg(c, 0)), nocast(call_arg(c, 1))
        params = [p["n"] for p in f.params]
        if len(cs) == 1 and is_var(a0) and a0["n"] == params[0] and any(v["n"].startswith("alen") for v in vars_in(a1)):
            r.ok(k, f.loc(c["ln"]))
        else:
            r.viol(k, name, f.loc(c["ln"]), "%s parses %s/%s (%d calls) instead of the caller's buffer and length once" % (name, render(a0), render(a1), len(cs)))
        k2 = "%s: whole message decoded (parse flags 0)" % name
        fl = call_arg(c, 2)
        if const_val(fl) == 0:
            r.ok(k2, f.loc(c["ln"]), nontrivial=False)
        else:
            r.viol(k2, name, f.loc(c["ln"]), "%s parses with flags %s: sections kept raw are not decoded, so a message whose authority/additional RDATA is malformed is accepted here while the record parser (flags 0) rejects it" % (name, render(fl)[:80]))
        # negative length refused before the parse, in the wrapper or the implementation
        neg = False
        for g in {pub, f}:
            mf = MustFacts(g, track_calls=False)
            for bb, ii, el in g.returns():
                if name_of_const(el.get("e")) == "ARES_EBADRESP" and any(norm_cmp(c3, p3)[0] == "<" and const_val(norm_cmp(c3, p3)[2]) == 0 and "alen" in render(norm_cmp(c3, p3)[1]) for c3, p3 in mf.cond_facts_at(bb, ii)):
                    neg = True
        k = "%s: negative length -> EBADRESP" % name
        if neg:
            r.ok(k, pub.loc(pub.ln))
        else:
            r.viol(k, name, pub.loc(pub.ln), "%s no longer refuses a negative length before converting it to size_t" % name)
        # record destroyed on every path after the parse
        tr = can_reach_exit_avoiding(f, b, i, lambda el: is_call_el(el, "ares_dns_record_destroy"))
        k = "%s: record destroyed on every path" % name
        if tr is None:
            r.ok(k, f.loc(c["ln"]))
        else:
            r.viol(k, name, f.loc(c["ln"]), "%s can return without ares_dns_record_destroy after parsing" % name, trail=trail_lines(f, tr))
        # parser failure never becomes success / no-data
        holder = None
        for bb, ii, el in f.elements():
            if el["k"] == "asg" and el["e"].get("r") is not None and nocast(el["e"]["r"]).get("k") == "call" and nocast(el["e"]["r"]).get("id") == c.get("id"):
                holder = nocast(el["e"]["l"])["n"] if is_var(nocast(el["e"]["l"])) else None

        def on_edge(extra, blk, cond, pol, get, holder=holder, pb=b):
            if blk.id != pb.id and not extra:
                # the test of the parse status is the first test of `holder` after the call
                pass
            for c3, p3 in atoms(cond, pol):
                op, l, rr = norm_cmp(c3, p3)
                if op == "!=" and name_of_const(rr) == "ARES_SUCCESS" and is_var(nocast(l)) and nocast(l)["n"] == holder and extra == "P":
                    return "F"
                if op == "==" and name_of_const(rr) == "ARES_SUCCESS" and is_var(nocast(l)) and nocast(l)["n"] == holder and extra == "P":
                    return "OK"
            return extra

        def on_el(extra, blk, i2, el, get, cid=c.get("id")):
            if el["k"] == "call" and el["e"].get("id") == cid:
                return ["P"]
            return [extra]
        try:
            vs = ValueSets(prog, f, summaries=summ, on_edge=on_edge, on_el=on_el, init_extra="", cap=4096)
        except AnalysisBroken as x:
            r.broke("%s: %s" % (name, x))
            continue
        bad = None
        rets = set()
        for bb, ii, el in f.returns():
            for st in vs.states_at(bb, ii):
                rs = vs.eval(el.get("e"), st[0])
                if rs is None and holder:
                    # `return (int)status`
                    e = nocast(el.get("e"))
                    if is_var(e):
                        rs = vs.get(st, e["n"])
                if st[1] == "F":
                    if rs is None or (rs & {"ARES_SUCCESS", "ARES_ENODATA"}):
                        bad = (el, rs)
                    rets |= set(rs or [])
        k = "%s: parser failure stays a failure" % name
        if bad:
            r.viol(k, name, f.loc(bad[0]), "%s can return %s after ares_dns_parse failed: a malformed message is reported as success/no-data" % (name, sorted(bad[1] & {"ARES_SUCCESS", "ARES_ENODATA"}) if bad[1] else "an undetermined status"))
        else:
            r.ok(k, f.loc(c["ln"]))
        table[name] = sorted(rets)
    r.info["status_after_parse_failure"] = table


# ---------------------------------------------------------------- typed free
def _dt_struct(dt):
    return "ares_" + dt[len("ARES_DATATYPE_"):].lower()


def r_free(prog, R):
    r = R.rule("R-C18-FREE", "ares_free_data releases every pointer member of each typed allocation and follows next; parsers allocate the type they fill", floor=18, analysis="A-TAB typed allocation table")
    fd = prog.func("ares_free_data")
    md = prog.func("ares_malloc_data")
    # datatypes accepted by malloc
    accepted = set()
    for b in md.blocks.values():
        if b.term and b.term.get("cls") == "SwitchStmt":
            for succ, vals in md.switch_cases(b):
                if isinstance(vals, list):
                    accepted |= {v["n"] for v in vals}
    handled = {}
    for b in fd.blocks.values():
        if b.term and b.term.get("cls") == "SwitchStmt":
            for succ, vals in fd.switch_cases(b):
                if not isinstance(vals, list):
                    continue
                # follow fall-through to the block with statements
                bid = succ
                seen = set()
                els = []
                while bid is not None and bid not in seen:
                    seen.add(bid)
                    els = fd.blocks[bid].els
                    if els:
                        break
                    nx = [x for x in fd.blocks[bid].succs if x is not None]
                    bid = nx[0] if len(nx) == 1 else None
                frees, nxt = set(), None
                for el in els:
                    if is_call_el(el, "ares_free"):
                        a = nocast(call_arg(el["e"], 0))
                        if a is not None and a.get("k") == "mem":
                            frees.add((a["rec"], a["f"]))
                    if el["k"] == "asg" and is_var(nocast(el["e"]["l"]), "next_data"):
                        a = nocast(el["e"]["r"])
                        if a is not None and a.get("k") == "mem":
                            nxt = (a["rec"], a["f"])
                for v in vals:
                    handled[v["n"]] = (frees, nxt, els[0]["ln"] if els else fd.ln)
    if not r.require(len(accepted) >= 8, "ares_malloc_data: accepted datatypes not recognised"):
        return
    for dt in sorted(accepted):
        k = "datatype %s released completely" % dt
        if dt not in handled:
            r.viol(k, fd.name, fd.loc(fd.ln), "ares_malloc_data hands out %s but ares_free_data has no case for it: everything hanging off such an object leaks (and the list is not followed)" % dt)
            continue
        frees, nxt, ln = handled[dt]
        rec = prog.record(_dt_struct(dt))
        if rec is None:
            r.broke("struct for %s (%s) not found" % (dt, _dt_struct(dt)))
            continue
        ptrs = [fl["n"] for fl in rec["fields"] if fl["ty"].rstrip().endswith("*") and fl["n"] != "next"]
        hasnext = any(fl["n"] == "next" for fl in rec["fields"])
        freed = {fn for (_, fn) in frees}
        miss = [p for p in ptrs if p not in freed]
        if miss:
            r.viol(k, fd.name, fd.loc(ln), "ares_free_data(%s) does not release member(s) %s of struct %s" % (dt, miss, rec["name"]))
        elif hasnext and (nxt is None or nxt[1] != "next"):
            r.viol(k, fd.name, fd.loc(ln), "ares_free_data(%s) does not follow ->next: only the first element of a returned list is released" % dt)
        elif not hasnext and nxt is not None:
            r.viol(k, fd.name, fd.loc(ln), "ares_free_data(%s) follows a next pointer struct %s does not have" % (dt, rec["name"]))
        else:
            r.ok(k + " (%s%s)" % (ptrs, "+next" if hasnext else ""), fd.loc(ln))
    for dt in sorted(set(handled) - accepted):
        r.viol("datatype %s can be allocated" % dt, md.name, md.loc(md.ln), "ares_free_data handles %s but ares_malloc_data refuses it" % dt)
    # parsers allocate the datatype of the struct they fill
    for f in sorted(prog.funcs.values(), key=lambda x: x.key):
        for b, i, el in f.elements():
            if el["k"] != "asg":
                continue
            cn = nocast(el["e"].get("r"))
            if cn is None or cn.get("k") != "call":
                continue
            if cn.get("ref"):
                x = f.call_by_id(cn["id"])
                cn = x[2] if x else cn
            if cn.get("callee") != "ares_malloc_data":
                continue
            lty = (nocast(el["e"]["l"]).get("ty") or "").replace("struct ", "").replace("*", "").strip()
            dts = [n["n"] for n in walk(call_arg(cn, 0)) if n.get("k") == "enum"]
            k = "fn=%s allocates %s for %s" % (f.name, dts, lty)
            good = dts and all(_dt_struct(d) == lty or {_dt_struct(d), lty} <= {"ares_txt_reply", "ares_txt_ext"} for d in dts)
            if good:
                r.ok(k, f.loc(el))
            else:
                r.viol(k, f.name, f.loc(el), "%s fills a struct %s allocated as %s: ares_free_data will release the wrong members" % (f.name, lty, dts))


# ---------------------------------------------------------------- keys / binary safety
def r_keys(prog, R):
    r = R.rule("R-C18-KEYS", "inside a conversion loop filtered on record type T only keys of T are read; binary values are copied with their length", floor=25, analysis="A-DOM type filter + A-WMC on value sinks")
    te = {it["n"]: it["v"] for it in prog.enum("ares_dns_rec_type_t")["items"]}
    nk = 0
    for name in LEGACY + ("ares_parse_into_addrinfo", "ares_addrinfo2hostent", "ares_parse_ptr_reply_dnsrec"):
        pub = prog.func(name, required=False)
        if pub is None:
            continue
        f = _impl(prog, pub) or pub
        mf = MustFacts(f, track_calls=False)
        for b, i, c in f.calls():
            cal = c.get("callee") or ""
            if not cal.startswith("ares_dns_rr_get_") or cal in ("ares_dns_rr_get_type", "ares_dns_rr_get_class", "ares_dns_rr_get_ttl", "ares_dns_rr_get_name", "ares_dns_rr_get_keys"):
                continue
            kn = name_of_const(call_arg(c, 1))
            if not kn:
                continue
            nk += 1
            # the type the path is filtered on
            types = set()
            for c3, p3 in mf.cond_facts_at(b, i):
                op, l, rr = norm_cmp(c3, p3)
                t = name_of_const(rr) if rr is not None else None
                if t in te and op == "==":
                    types.add(t)
            # switch-based filters: facts are not available; fall back to 'key prefix matches some type'
            kv = prog.enumconst.get(kn, (None, None))[1]
            kt = [t for t, v in te.items() if kv is not None and v == kv // 100]
            k = "fn=%s %s(%s)" % (f.name, cal, kn)
            if types and kt and kt[0] not in types:
                r.viol(k, f.name, f.loc(c["ln"]), "%s reads %s (a key of %s) from a record the path has filtered to %s: the getter answers 0/NULL and the legacy struct carries a default instead of the record's value" % (f.name, kn, kt[0], sorted(types)))
            else:
                r.ok(k, f.loc(c["ln"]), nontrivial=bool(types))
    r.info["getter_calls"] = nk
    # binary safety
    BIN_GET = ("ares_dns_rr_get_bin", "ares_dns_rr_get_abin", "ares_dns_rr_get_opt", "ares_dns_rr_get_opt_byid")
    STR_SINKS = ("ares_strdup", "ares_strlen", "strlen", "strdup", "ares_strcpy", "strcpy", "strncpy", "ares_buf_append_str", "ares_str_isnum")
    nb = 0
    for f in sorted(prog.funcs.values(), key=lambda x: x.key):
        if not (f.file.startswith("src/lib/legacy/") or f.file in ("src/lib/ares_addrinfo2hostent.c", "src/lib/ares_sortaddrinfo.c")):
            continue
        binvars = set()
        for b, i, el in f.elements():
            if el["k"] == "asg" and is_var(nocast(el["e"]["l"])):
                cn = nocast(el["e"].get("r"))
                if cn is not None and cn.get("k") == "call":
                    if cn.get("ref"):
                        x = f.call_by_id(cn["id"])
                        cn = x[2] if x else cn
                    if cn.get("callee") in BIN_GET:
                        binvars.add(nocast(el["e"]["l"])["n"])
        # the length the caller is told is the length the record API reported for that binary value, not a string length of the copy
        lenvars = {}
        for b, i, c in f.calls():
            if c.get("callee") in BIN_GET and c.get("args"):
                la = strip(c["args"][-1])
                if la is not None and la.get("k") == "un" and la.get("op") == "&" and strip(la["e"]).get("k") == "var":
                    lenvars[strip(la["e"])["n"]] = c["callee"]
        if binvars and lenvars:
            for b, i, el in f.elements():
                if el["k"] == "asg" and el["e"]["op"] == "=" and strip(el["e"]["l"]).get("k") == "mem" and strip(el["e"]["l"])["f"] == "length":
                    k = "fn=%s %s is the length reported by the record API" % (f.name, render(strip(el["e"]["l"])))
                    rhs = nocast(el["e"].get("r"))
                    if rhs is not None and rhs.get("k") == "var" and rhs["n"] in lenvars:
                        r.ok(k, f.loc(el))
                    else:
                        r.viol(k, f.name, f.loc(el), "%s = %s: the value is binary (it came from %s, which also reported its length); a length computed from the copy stops at the first 0x00 octet and "
                               "differs from what the record API reports" % (render(strip(el["e"]["l"])), render(el["e"].get("r")), sorted(lenvars.values())[0]))
        for v in sorted(binvars):
            nb += 1
            bad = None
            for b, i, c in f.calls():
                if c.get("callee") in STR_SINKS and any(is_var(nocast(a), v) for a in c.get("args", [])):
                    bad = c
            k = "fn=%s binary value %s copied with its length" % (f.name, v)
            if bad:
                r.viol(k, f.name, f.loc(bad["ln"]), "%s passes the binary value '%s' (which comes with an explicit length and may contain NUL bytes) to %s: the copy stops at the first NUL while the reported length says otherwise" % (f.name, v, bad["callee"]))
            else:
                r.ok(k, f.loc(f.ln))
    r.info["binary_values"] = nb


SCAN_FILES = ("src/lib/ares_addrinfo2hostent.c", "src/lib/ares_parse_into_addrinfo.c", "src/lib/ares_addrinfo_localhost.c")


def r_fullscan(prog, R):
    r = R.rule("R-C18-FULLSCAN", "conversion loops visit every element of the answer lists: a list walk ends only at the end of the list, at the caller's capacity or on an allocation failure", floor=6, analysis="loop-exit vocabulary")
    n = 0
    for f in sorted(prog.funcs.values(), key=lambda x: x.key):
        if not (f.file.startswith("src/lib/legacy/") or f.file in SCAN_FILES):
            continue
        is_pred = (f.retw or f.ret) == "ares_bool_t"
        for h, body in f.natural_loops().items():
            br = f.branch(h)
            if not br:
                continue
            walkers = set()
            for b in body | {h}:
                for el in f.blocks[b].els:
                    if el["k"] == "asg" and strip(el["e"]["l"]).get("k") == "var":
                        rr = strip(el["e"].get("r"))
                        if rr is not None and rr.get("k") == "mem" and "next" in rr["f"] and is_var(strip(rr["b"]), strip(el["e"]["l"])["n"]):
                            walkers.add(strip(el["e"]["l"])["n"])
            if not walkers:
                continue
            n += 1
            k = "fn=%s walk over %s" % (f.name, sorted(walkers)[0])
            bad = None
            for u in sorted(body | {h}):
                b2 = f.branch(u)
                for k2, v in enumerate(f.blocks[u].succs):
                    if v is None or v in body or v == h:
                        continue
                    if b2 is None:
                        continue
                    okx = False
                    for c3, p3 in atoms(b2[0], k2 == 0):
                        op, l3, r3 = norm_cmp(c3, p3)
                        l4 = strip(l3)
                        txt = render(c3)
                        # end of list
                        if l4 is not None and l4.get("k") == "var" and l4["n"] in walkers and (op in ("false",) or (op == "==" and r3 is not None and is_null(r3))):
                            okx = True
                        # caller capacity
                        if "req_naddrttls" in txt or "naddrttls" in txt:
                            okx = True
                        # allocation / lookup failure: `x == NULL`
                        if (op == "==" and r3 is not None and is_null(r3)) or op == "false":
                            if l4 is not None and not (l4.get("k") == "var" and l4["n"] in walkers):
                                okx = True
                        if "status" in txt and "ARES_SUCCESS" in txt:
                            okx = True
                    if is_pred:
                        okx = True      # a search that answers yes/no may stop at the first hit
                    if not okx:
                        bad = (u, render(b2[0]))
            if bad:
                r.viol(k, f.name, f.loc((f.blocks[bad[0]].term or {}).get("ln", f.ln)), "%s stops walking the list when '%s': elements behind that point are never looked at, so the legacy result is not what the record API reports (e.g. a minimum over the alias chain that ignores later aliases)" % (f.name, bad[1]))
            else:
                r.ok(k, f.loc((f.blocks[h].term or {}).get("ln", f.ln)))
    r.info["list_walks"] = n


_CNT_CALLS = ("ares_dns_record_rr_cnt", "ares_dns_rr_get_abin_cnt", "ares_dns_rr_get_opt_cnt")
_CONVERT_CALLS = ("ares_malloc_data", "ares_malloc", "ares_malloc_zero", "ares_strdup", "ares_realloc")


def r_skip(prog, R):
    r = R.rule("R-C18-SKIP", "inside a counted conversion loop of a legacy parser an element is passed over only because of what kind of record it is (type / class / no record at that "
               "index): no `continue` in front of the conversion depends on the element's value (its length, its content)", floor=6,
               analysis="natural loops whose header compares an index with a record-API count; every conditional edge from the body straight to the loop's step, whose sibling edge "
                        "still reaches an allocation of the body, must be guarded by atoms over ares_dns_rr_get_type / ares_dns_rr_get_class / the record pointer only")
    n = 0
    for f in sorted(prog.funcs.values(), key=lambda x: x.key):
        if not (f.file.startswith("src/lib/legacy/ares_parse_") and f.file.endswith("_reply.c")):
            continue
        # locals that hold a type / class / record pointer
        kindvars = set()
        for b, i, el in f.elements():
            srcs = []
            if el["k"] == "decl":
                srcs = [(v["n"], v.get("init")) for v in el["vars"] if v.get("init") is not None]
            elif el["k"] == "asg" and el["e"]["op"] == "=" and strip(el["e"]["l"]).get("k") == "var":
                srcs = [(strip(el["e"]["l"])["n"], el["e"].get("r"))]
            for nm, rhs in srcs:
                t = render(strip(rhs))
                if any(x in t for x in ("ares_dns_rr_get_type", "ares_dns_rr_get_class", "ares_dns_record_rr_get", "ares_dns_get_opt_rr")):
                    kindvars.add(nm)
        cntvars = set()
        for b, i, el in f.elements():
            if el["k"] == "asg" and el["e"]["op"] == "=" and strip(el["e"]["l"]).get("k") == "var" and any(c in render(strip(el["e"].get("r"))) for c in _CNT_CALLS):
                cntvars.add(strip(el["e"]["l"])["n"])
            if el["k"] == "decl":
                for v in el["vars"]:
                    if v.get("init") is not None and any(c in render(strip(v["init"])) for c in _CNT_CALLS):
                        cntvars.add(v["n"])
        loops = f.natural_loops()
        for h, body in sorted(loops.items()):
            br = f.branch(h)
            if not br:
                continue
            hdr_calls = [el["e"].get("callee") for el in f.blocks[h].els if el["k"] == "call"]
            if not any(c in _CNT_CALLS for c in hdr_calls) and not any(c in render(br[0]) for c in _CNT_CALLS) and not any(
                    is_var(strip(x), v_) for v_ in cntvars for c3, _ in atoms(br[0], True) for x in (c3.get("l"), c3.get("r")) if x is not None):
                continue
            latches = {u for u in body if h in f.blocks[u].succs and u != h}
            grew = True
            while grew:         # `continue` reaches the step through an empty block
                grew = False
                for u in body:
                    if u not in latches and not f.blocks[u].els and not f.branch(u) and [x for x in f.blocks[u].succs if x is not None] and all(x in latches for x in f.blocks[u].succs if x is not None):
                        latches.add(u)
                        grew = True
            conv = {u for u in body if any(el["k"] == "call" and el["e"].get("callee") in _CONVERT_CALLS for el in f.blocks[u].els)}
            if not conv:
                continue
            n += 1
            key = "fn=%s loop at line %s skips elements by kind only" % (f.name, (f.blocks[h].term or {}).get("ln", "?"))
            bad = None
            for u in sorted(body):
                b2 = f.branch(u)
                if not b2 or u == h or u in loops:      # the header of an inner loop leaves to the outer step when the inner list is exhausted
                    continue
                succs = f.blocks[u].succs
                for k2 in (0, 1):
                    v, other = succs[k2], succs[1 - k2]
                    if v not in latches or other is None or other in latches:
                        continue
                    # does the sibling edge still reach a conversion inside this iteration?
                    seen, work, hit = {other}, [other], False
                    while work:
                        x = work.pop()
                        if x in conv:
                            hit = True
                            break
                        for y in f.blocks[x].succs:
                            if y is not None and y in body and y not in latches and y != h and y not in seen:
                                seen.add(y)
                                work.append(y)
                    if not hit:
                        continue
                    for c3, p3 in atoms(b2[0], k2 == 0):
                        txt = render(c3)
                        op, l3, r3 = norm_cmp(c3, p3)
                        l4 = strip(l3)
                        okx = any(x in txt for x in ("ares_dns_rr_get_type", "ares_dns_rr_get_class"))
                        if l4 is not None and l4.get("k") == "var" and l4["n"] in kindvars:
                            okx = True
                        if not okx and bad is None:
                            bad = (u, txt)
            if bad:
                r.viol(key, f.name, f.loc((f.blocks[bad[0]].term or {}).get("ln", f.ln)), "%s passes over an element when '%s': the record API reports that element (an empty character-string is a value), so the "
                       "legacy result has fewer entries than the record API" % (f.name, bad[1]))
            else:
                r.ok(key, f.loc((f.blocks[h].term or {}).get("ln", f.ln)))
    r.info["counted_conversion_loops"] = n


def r_nodata(prog, R):
    r = R.rule("R-C18-NODATA", "a legacy parser never reports success with nothing to hand out: where the result pointer is stored under a successful status it is known to be non-NULL "
               "(an answer section that holds records, but none of the parser's type -- a CNAME only -- gives the documented ARES_ENODATA, not ARES_SUCCESS with a NULL list)", floor=6,
               analysis="disjunctive forward analysis over (status success/failure, result pointer NULL/set), refined at branches")
    n = 0
    for f in sorted(prog.funcs.values(), key=lambda x: x.key):
        if not (f.file.startswith("src/lib/legacy/ares_parse_") and f.file.endswith("_reply.c")):
            continue
        outs = {p_["n"] for p_ in f.params if (p_.get("ty") or "").count("*") >= 2}
        hand = []
        for b, i, el in f.elements():
            if el["k"] == "asg" and el["e"]["op"] == "=":
                l = strip(el["e"]["l"])
                rr = strip(el["e"].get("r"))
                if l is not None and l.get("k") == "un" and l["op"] == "*" and is_var(strip(l["e"])) and strip(l["e"])["n"] in outs and is_var(rr) and rr.get("vk") == "local":
                    hand.append((b, i, el, rr["n"]))
        svars = [v["n"] for v in f.vars.values() if v["ty"] == "ares_status_t" and v.get("vk", "local") != "param"] if hasattr(f, "vars") else []
        if not hand or not svars:
            continue
        sv = svars[0]
        for hb, hi, hel, head in hand:
            def transfer(st, blk, i, el, head=head, sv=sv):
                s0, h0 = st
                if el["k"] == "decl":
                    for v in el["vars"]:
                        if v["n"] == head and v.get("init") is not None:
                            h0 = "N" if is_null(v["init"]) else "Y"
                        if v["n"] == sv and v.get("init") is not None:
                            nm = name_of_const(v["init"])
                            s0 = "?" if nm is None else ("S" if nm == "ARES_SUCCESS" else "F")
                elif el["k"] == "asg":
                    l = strip(el["e"]["l"])
                    if is_var(l, head) and el["e"]["op"] == "=":
                        h0 = "N" if is_null(el["e"].get("r")) else "Y"
                    if is_var(l, sv) and el["e"]["op"] == "=":
                        nm = name_of_const(el["e"].get("r"))
                        s0 = "?" if nm is None else ("S" if nm == "ARES_SUCCESS" else "F")
                elif el["k"] == "call":
                    for a in el["e"].get("args", []):
                        a2 = strip(a)
                        if a2 is not None and a2.get("k") == "un" and a2["op"] == "&" and is_var(strip(a2["e"]), head):
                            h0 = "?"
                return [(s0, h0)]

            def refine(st, cond, pol, blk, head=head, sv=sv):
                s0, h0 = st
                for c, p in atoms(cond, pol):
                    op, l, rr = norm_cmp(c, p)
                    if is_var(strip(l), sv) and rr is not None and name_of_const(rr) is not None and op in ("==", "!="):
                        want_s = (name_of_const(rr) == "ARES_SUCCESS") == (op == "==")
                        if name_of_const(rr) != "ARES_SUCCESS" and op == "!=":
                            continue      # != some failure code: nothing learnt
                        if name_of_const(rr) != "ARES_SUCCESS" and op == "==":
                            want_s = False
                        if want_s:
                            if s0 == "F":
                                return None
                            s0 = "S"
                        else:
                            if s0 == "S":
                                return None
                            s0 = "F"
                    if is_var(strip(l), head):
                        isnull = None
                        if op == "truth":
                            isnull = False
                        elif op == "false":
                            isnull = True
                        elif op in ("==", "!=") and rr is not None and is_null(rr):
                            isnull = (op == "==")
                        if isnull is True:
                            if h0 == "Y":
                                return None
                            h0 = "N"
                        elif isnull is False:
                            if h0 == "N":
                                return None
                            h0 = "Y"
                return (s0, h0)
            try:
                at = forward_states(f, ("?", "?"), transfer, refine)
            except AnalysisBroken as e:
                r.broke("%s: %s" % (f.name, e))
                continue
            n += 1
            sts = at.get((hb.id, hi), set())
            k = "fn=%s result '%s' handed out non-NULL on success" % (f.name, head)
            bad = [st for st in sts if st[0] in ("S", "?") and st[1] in ("N", "?")]
            if not sts:
                r.broke("%s: hand-out store not reached by the analysis" % f.name)
            elif bad:
                r.viol(k, f.name, f.loc(hel), "%s can reach '%s' with a successful status while '%s' is still NULL: an answer section that holds records but none of this parser's type (for instance only a CNAME) "
                       "is reported as ARES_SUCCESS with a NULL result instead of the documented ARES_ENODATA; callers that walk the list after a success dereference NULL" % (f.name, hel.get("t", ""), head))
            else:
                r.ok(k, f.loc(hel))
    r.info["parsers"] = n


def run(prog, R, tier):
    R.assume("value equality between the legacy structs and the record API getters is not decided here")
    r_cap(prog, R)
    r_shape(prog, R)
    r_free(prog, R)
    r_keys(prog, R)
    r_fullscan(prog, R)
    r_skip(prog, R)
    r_nodata(prog, R)
    # the hostent arrays the ns/ptr/a/aaaa parsers hand out: terminator slot reserved, filled without gaps (answer order, complete release)
    termrules.term_rule(prog, R, "R-C18-TERM", floor=4)
    files = {f.file for f in prog.funcs.values() if f.file.startswith("src/lib/legacy/")} | {"src/lib/ares_addrinfo2hostent.c", "src/lib/ares_data.c"}
    ownrules.own_rule(prog, R, "R-C18-OWN", files, floor=10, include_contract=False)
