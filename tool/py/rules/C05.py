"""C05 — only an authentic, matching response can answer a query or enter the cache."""
from lib import *  # noqa
import C17

TECHNIQUE = "must-pass-through (edge-cut reachability) of every acceptance effect through the ordered response gate; comparison-shape check of the question matcher and source-address filter; who-may-call for the cache"
LEVEL_TEXT = ("static: decides that every CFG path to an acceptance effect in process_answer (callback delivery, cache insert, "
              "server-good, protocol requeues) passes, in order, parse-success, id lookup keyed by the parsed response id, "
              "question match, cookie validation and the query-is-on-this-connection check; decides what same_questions and the UDP "
              "source filter compare and under which flag; does not decide unpredictability of ids/0x20 bits nor history-dependent id reuse")
LEVEL_NOTE = "trusts clang CFG + extractor; gate blocks are identified by the callee whose result they branch on (declaration-resolved), not by text"
DESIGN_REF = "DESIGN.md §6/C05"
EXPLANATION = LEVEL_TEXT
NOT_DECIDED = "randomness quality of ids and 0x20 bits; late replies after id reuse (history dependent)"

EFFECTS = ("end_query", "ares_qcache_insert", "server_set_good", "ares_append_requeue", "ares_requeue_query", "server_increment_failures")


def gates_of_process_answer(prog, r, f):
    """ordered list of (name, block, pass_succ, fail_succ)"""
    gates = []
    # 1 parse
    g = call_result_branches(f, "ares_dns_parse")
    if not r.require(len(g) == 1, "process_answer: expected one branch on ares_dns_parse result, found %d" % len(g)):
        return None
    pe = status_pass_edge(g[0])
    if not r.require(pe is not None, "process_answer: parse gate shape not recognised"):
        return None
    parse_call = g[0]["call"]
    gates.append(("parse-success", g[0]["block"], pe[0], pe[1]))
    rsp = strip(call_arg(parse_call, 3))
    rsp_var = path(rsp["e"]) if rsp is not None and rsp.get("k") == "un" and rsp["op"] == "&" else None
    r.require(rsp_var is not None, "process_answer: cannot identify the parsed response variable")
    # 2 qid lookup
    g = [x for x in call_result_branches(f, "ares_htable_szvp_get_direct")]
    if not r.require(len(g) == 1, "process_answer: expected one branch on the queries_by_qid lookup, found %d" % len(g)):
        return None
    pe = status_pass_edge(g[0])
    if pe is None:
        # `if (!query)`: truth/false on pointer
        pe = (g[0]["true"], g[0]["false"]) if g[0]["op"] in ("truth",) else (g[0]["false"], g[0]["true"])
    look = g[0]["call"]
    gates.append(("id-lookup", g[0]["block"], pe[0], pe[1]))
    a0, a1 = call_arg(look, 0), strip(call_arg(look, 1))
    if not is_field(a0, "queries_by_qid", "ares_channeldata"):
        r.viol("lookup-table", f.name, f.loc(look["ln"]), "response is not looked up in channel->queries_by_qid")
    else:
        r.ok("lookup-table", f.loc(look["ln"]))
    keyok = False
    if a1 is not None and a1.get("k") == "call" and a1.get("callee") == "ares_dns_record_get_id":
        full = f.call_by_id(a1["id"])
        if full and path(call_arg(full[2], 0)) == rsp_var:
            keyok = True
    if keyok:
        r.ok("lookup-key=response-id", f.loc(look["ln"]))
    else:
        r.viol("lookup-key=response-id", f.name, f.loc(look["ln"]), "the id used for the lookup is not ares_dns_record_get_id(<parsed response>)")
    # 3 same_questions
    g = call_result_branches(f, "same_questions")
    if not r.require(len(g) == 1, "process_answer: expected one branch on same_questions, found %d" % len(g)):
        return None
    pe = status_pass_edge(g[0])
    gates.append(("question-match", g[0]["block"], pe[0], pe[1]))
    sq = g[0]["call"]
    if path(call_arg(sq, 1)) == rsp_var and is_var(call_arg(sq, 0), "query"):
        r.ok("question-match-args", f.loc(sq["ln"]))
    else:
        r.viol("question-match-args", f.name, f.loc(sq["ln"]), "same_questions is not applied to (looked-up query, parsed response)")
    # 4 cookie
    g = call_result_branches(f, "ares_cookie_validate")
    if not r.require(len(g) == 1, "process_answer: expected one branch on ares_cookie_validate, found %d" % len(g)):
        return None
    pe = status_pass_edge(g[0])
    if not r.require(pe is not None, "cookie gate shape not recognised"):
        return None
    gates.append(("cookie-valid", g[0]["block"], pe[0], pe[1]))
    # 5 connection check: a branch comparing query->conn with the conn parameter
    conn_gate = None
    for bid in f.rpo():
        blk = f.blocks[bid]
        br = f.branch(blk)
        if not br:
            continue
        for c, p in atoms(br[0], True):
            op, l, rr = norm_cmp(c, p)
            if op in ("==", "!=") and rr is not None:
                for x, y in ((l, rr), (rr, l)):
                    if is_field(x, "conn", "ares_query") and is_var(y, "conn"):
                        conn_gate = (blk, br[1], br[2]) if op == "==" else (blk, br[2], br[1])
    if conn_gate:
        gates.append(("query-on-this-connection", conn_gate[0], conn_gate[1], conn_gate[2]))
    return gates, conn_gate is not None


def r_gate(prog, R):
    r = R.rule("R-C05-GATE", "every acceptance effect in process_answer is behind the full ordered gate", floor=12, analysis="A-DOM (edge cut)")
    f = prog.func("process_answer")
    res = gates_of_process_answer(prog, r, f)
    if res is None:
        return
    gates, has_conn = res
    # order: each gate block is reachable only through the pass edge of the previous gates
    for k in range(1, len(gates)):
        name, blk, ps, fl = gates[k]
        for j in range(k):
            pn, pb, pps, pfl = gates[j]
            t = element_reachable_avoiding(f, blk, 0, [(pb.id, pps)])
            key = "order:%s<%s" % (pn, name)
            if t is not None:
                r.viol(key, f.name, f.loc(blk.term["ln"]), "gate '%s' is evaluated on a path that has not passed '%s'" % (name, pn), trail=trail_lines(f, t))
            else:
                r.ok(key, f.loc(blk.term["ln"]))
    effects = [(b, i, c) for b, i, c in f.calls() if c.get("callee") in EFFECTS]
    r.require(len(effects) >= 7, "process_answer: fewer acceptance effects than confirmed by hand (%d)" % len(effects))
    for b, i, c in effects:
        for name, gb, ps, fl in gates:
            key = "effect=%s#%s gate=%s" % (c["callee"], _effect_ord(f, effects, c), name)
            t = element_reachable_avoiding(f, b, i, [(gb.id, ps)])
            if t is not None:
                r.viol(key, f.name, f.loc(c["ln"]), "%s reachable without passing the '%s' check" % (c["callee"], name), trail=trail_lines(f, t))
            else:
                r.ok(key, f.loc(c["ln"]))
    if not has_conn:
        r.viol("gate=query-on-this-connection", f.name, f.loc(f.ln),
               "no check that the looked-up query is assigned to the connection the packet arrived on (query->conn == conn): "
               "a packet arriving on any server's socket can answer a query currently assigned elsewhere")
    else:
        r.ok("gate=query-on-this-connection", f.loc(f.ln))
    # state writes in ares_cookie_validate happen only after the client-cookie prefix matched
    cv = prog.func("ares_cookie_validate")
    stores = [(b, i, el) for b, i, el in cv.elements() if el["k"] == "asg" and is_field(el["e"]["l"], "state", "ares_cookie_t")
              and name_of_const(el["e"]["r"]) == "ARES_COOKIE_SUPPORTED"]
    r.require(len(stores) >= 1, "no store of ARES_COOKIE_SUPPORTED in ares_cookie_validate")
    mgates = [g for g in call_result_branches(cv, "memcmp") if const_val(call_arg(g["call"], 2)) == 8]
    r.require(len(mgates) >= 1, "client-cookie memcmp(...,8) gate not found in ares_cookie_validate")
    gd = {}
    for k, g in enumerate(mgates):
        if g["op"] == "!=" and const_val(g["rhs"]) == 0:
            gd["prefix%d" % k] = (g["block"].id, g["false"])
        elif g["op"] == "==" and const_val(g["rhs"]) == 0:
            gd["prefix%d" % k] = (g["block"].id, g["true"])
        else:
            r.broke("memcmp gate shape not recognised")
    at = flow_with_gates(cv, gd, null_vars=("resp_cookie", "req_cookie"))
    for b, i, el in stores:
        bad = [st for st in at.get((b.id, i), ()) if not st[0]]
        if bad:
            r.viol("cookie-supported-after-prefix-match", cv.name, cv.loc(el), "server marked cookie-capable on a path where the client-cookie prefix was not compared equal (state %s)" % (bad[0],))
        else:
            r.ok("cookie-supported-after-prefix-match", cv.loc(el))


def _effect_ord(f, effects, c):
    same = sorted([x[2]["id"] for x in effects if x[2]["callee"] == c["callee"]])
    return same.index(c["id"])


def r_qeq(prog, R):
    r = R.rule("R-C05-QEQ", "same_questions: count, type, class and the right name comparison on every iteration", floor=6, analysis="A-DOM + shape")
    f = prog.func("same_questions")
    # TRUE result stores
    stores = [(b, i, el) for b, i, el in f.elements() if el["k"] == "asg" and is_var(el["e"]["l"], "rv") and name_of_const(el["e"].get("r")) == "ARES_TRUE"]
    rets_true = [(b, i, el) for b, i, el in f.returns() if name_of_const(el.get("e")) == "ARES_TRUE"]
    accept = stores + rets_true
    if not r.require(len(accept) >= 1, "same_questions: no TRUE result site"):
        return
    # count gate
    cnt = None
    for bid in f.rpo():
        blk = f.blocks[bid]
        br = f.branch(blk)
        if br:
            c = strip(br[0])
            if c.get("k") == "bin" and c["op"] in ("!=", "==") and is_call_to(c["l"], "ares_dns_record_query_cnt") and is_call_to(c["r"], "ares_dns_record_query_cnt"):
                cnt = (blk, br[2], br[1]) if c["op"] == "!=" else (blk, br[1], br[2])
    if cnt is None:
        r.viol("count-equal", f.name, f.loc(f.ln), "question counts of request and response are not compared")
    else:
        for b, i, el in accept:
            t = element_reachable_avoiding(f, b, i, [(cnt[0].id, cnt[1])])
            if t is not None:
                r.viol("count-equal", f.name, f.loc(el), "TRUE reachable without equal question counts", trail=trail_lines(f, t))
            else:
                r.ok("count-equal", f.loc(el))
    loops = f.natural_loops()
    if not r.require(len(loops) == 1, "same_questions: expected one loop"):
        return
    header, body = list(loops.items())[0]
    hb = f.branch(header)
    # loop bound is the request's question count
    bound_ok = False
    if hb:
        c = strip(hb[0])
        if c.get("k") == "bin" and c["op"] == "<" and is_call_to(c["r"], "ares_dns_record_query_cnt"):
            full = f.call_by_id(strip(c["r"])["id"])
            a = path(call_arg(full[2], 0)) if full else None
            if a in ("qrec", "query->query"):
                bound_ok = True
    if bound_ok:
        r.ok("loop-bound=request-count", f.loc(f.blocks[header].term["ln"]))
    else:
        r.viol("loop-bound=request-count", f.name, f.loc(f.ln), "loop over questions is not bounded by the request's question count")
    body_entry = hb[1] if hb else None

    def iteration_passes(edge_sets, what):
        """every path header-body -> back to header passes one of the given edges"""
        avoid = set()
        for e in edge_sets:
            avoid.add(e)
        pred = reach_avoiding(f, body_entry, avoid)
        back = header in pred or any(header in f.succ(x) and (x, header) not in avoid for x in list(pred) + [body_entry] if x in body)
        return not back

    def cmp_gate(pred_l, pred_r, ops=("!=",)):
        out = []
        for bid in body:
            blk = f.blocks[bid]
            br = f.branch(blk)
            if not br:
                continue
            c = strip(br[0])
            if c.get("k") == "bin" and c["op"] in ("!=", "==") and ((pred_l(c["l"]) and pred_r(c["r"])) or (pred_l(c["r"]) and pred_r(c["l"]))):
                out.append((blk.id, br[2]) if c["op"] == "!=" else (blk.id, br[1]))
        return out
    tg = cmp_gate(lambda e: is_var(e, "qtype"), lambda e: is_var(e, "atype"))
    cg = cmp_gate(lambda e: is_var(e, "qclass"), lambda e: is_var(e, "aclass"))
    for nm, g in (("type", tg), ("class", cg)):
        if not g:
            r.viol("iter:%s-equal" % nm, f.name, f.loc(f.ln), "question %s of request and response are not compared" % nm)
        elif iteration_passes(g, nm):
            r.ok("iter:%s-equal" % nm, f.loc(f.ln))
        else:
            r.viol("iter:%s-equal" % nm, f.name, f.loc(f.ln), "an iteration can complete without the %s comparison passing" % nm)
    # name comparison
    sg = call_result_branches(f, "ares_streq")
    ig = call_result_branches(f, "ares_strcaseeq")
    if not sg or not ig:
        r.viol("iter:name-compare", f.name, f.loc(f.ln), "expected both a case-sensitive (ares_streq) and a case-insensitive (ares_strcaseeq) name comparison")
        return
    pas = []
    for g in sg + ig:
        pe = status_pass_edge(g)
        if pe:
            pas.append((g["block"].id, pe[0]))
        a = {path(call_arg(g["call"], 0)), path(call_arg(g["call"], 1))}
        if a != {"qname", "aname"}:
            r.viol("name-compare-args", f.name, f.loc(g["call"]["ln"]), "name comparison is not (request name, response name)")
    if iteration_passes(pas, "name"):
        r.ok("iter:name-compare", f.loc(f.ln))
    else:
        r.viol("iter:name-compare", f.name, f.loc(f.ln), "an iteration can complete without any name comparison passing")
    # the case-sensitive comparison is selected exactly under 0x20 && !tcp
    mf = MustFacts(f)
    for g in sg:
        facts = mf.cond_facts_at(g["block"], 0)
        c1 = any(p and is_flag_test(c, lambda x: is_field(x, "flags", "ares_channeldata"), "ARES_FLAG_DNS0x20") for c, p in facts)
        c2 = any((not p) and is_field(c, "using_tcp", "ares_query") for c, p in facts)
        if c1 and c2:
            r.ok("case-sensitive-iff-0x20-udp", f.loc(g["call"]["ln"]))
        else:
            r.viol("case-sensitive-iff-0x20-udp", f.name, f.loc(g["call"]["ln"]), "case-sensitive comparison not guarded by (flags & DNS0x20) && !using_tcp")
        # the case-insensitive compare must not be reachable from here within the iteration
        for gi in ig:
            pred = reach_avoiding(f, g["block"].id, [(x, header) for x in body])
            if gi["block"].id in pred:
                # reachable without going round the loop
                r.viol("0x20-not-weakened", f.name, f.loc(gi["call"]["ln"]), "with 0x20 on UDP the case-insensitive comparison can still decide the match")
            else:
                r.ok("0x20-not-weakened", f.loc(gi["call"]["ln"]))
    # the case-insensitive arm is entered only over an edge that says "0x20 is off" or "this query uses TCP": any other way in (an extra
    # conjunct on the case-sensitive arm) lets a wrong-case reply match while 0x20 is on over UDP
    safe = []
    for bid in body:
        blk = f.blocks[bid]
        br = f.branch(blk)
        if not br or br[1] == br[2]:
            continue
        for pol, tgt in ((True, br[1]), (False, br[2])):
            for c3, p3 in atoms(br[0], pol):
                if (not p3) and is_flag_test(c3, lambda x: is_field(x, "flags", "ares_channeldata"), "ARES_FLAG_DNS0x20"):
                    safe.append((blk.id, tgt))
                if p3 and is_field(strip(c3), "using_tcp", "ares_query"):
                    safe.append((blk.id, tgt))
    for gi in ig:
        pred = reach_avoiding(f, body_entry, safe + [(x, header) for x in body])
        k = "case-insensitive only when 0x20 is off or over TCP"
        if gi["block"].id in pred or gi["block"].id == body_entry:
            r.viol(k, f.name, f.loc(gi["call"]["ln"]), "the case-insensitive name comparison can be reached although 0x20 randomisation is on and the query went over UDP (the case-sensitive arm has a further condition): a forged reply with the wrong letter case matches", trail=trail_lines(f, trail_to(pred, gi["block"].id, body_entry)) if gi["block"].id in pred else None)
        else:
            r.ok(k, f.loc(gi["call"]["ln"]))
    for gi in ig:
        # case-insensitive arm reached with 0x20&&!tcp both true?  its block must not be dominated by both facts
        facts = mf.cond_facts_at(gi["block"], 0)
        c1 = any(p and is_flag_test(c, lambda x: is_field(x, "flags", "ares_channeldata"), "ARES_FLAG_DNS0x20") for c, p in facts)
        c2 = any((not p) and is_field(c, "using_tcp", "ares_query") for c, p in facts)
        if c1 and c2:
            r.viol("0x20-not-weakened", f.name, f.loc(gi["call"]["ln"]), "case-insensitive comparison used under 0x20/UDP")


def r_src(prog, R):
    r = R.rule("R-C05-SRC", "UDP datagrams are accepted only from the server's address (full width)", floor=4, analysis="A-DOM + shape")
    f = prog.func("ares_conn_read")
    rf = f.calls_to("ares_socket_recvfrom")
    if not r.require(len(rf) == 1, "ares_conn_read: expected one ares_socket_recvfrom call"):
        return
    b, i, c = rf[0]
    g = call_result_branches(f, "ares_sockaddr_addr_eq")
    if not g:
        r.viol("source-filter", f.name, f.loc(c["ln"]), "datagram source address is not compared with the server address")
    else:
        pe = status_pass_edge(g[0])
        eq = g[0]["call"]
        a1 = strip(call_arg(eq, 1))
        if a1 is not None and "server->addr" in render(a1):
            r.ok("source-filter-operand", f.loc(eq["ln"]))
        else:
            r.viol("source-filter-operand", f.name, f.loc(eq["ln"]), "source address not compared against conn->server->addr")
        # from the recvfrom call, reaching a return with err still SUCCESS must pass the pass edge
        # paths that avoid it must either have err != SUCCESS (false edge of err == SUCCESS) or assign err a failure

        def barrier(el):
            return el["k"] == "asg" and is_var(el["e"]["l"], "err") and el["e"]["op"] == "=" and name_of_const(el["e"].get("r")) not in (None, "ARES_CONN_ERR_SUCCESS")
        avoid = [(g[0]["block"].id, pe[0])]
        for bid in f.rpo():
            br = f.branch(bid)
            if br:
                for cc, p in atoms(br[0], True):
                    op, l, rr = norm_cmp(cc, p)
                    if is_var(l, "err") and name_of_const(rr) == "ARES_CONN_ERR_SUCCESS" and bid in f.dominators().get(g[0]["block"].id, ()):
                        avoid.append((bid, br[2] if op == "==" else br[1]))
        pred = reach_avoiding(f, b.id, avoid, barrier, i + 1)
        if f.exit in pred:
            r.viol("source-filter", f.name, f.loc(c["ln"]), "a datagram can be returned as read without passing the source-address comparison",
                   trail=trail_lines(f, trail_to(pred, f.exit, b.id)))
        else:
            r.ok("source-filter", f.loc(c["ln"]))
        # the mismatch arm makes the read fail
        fb = f.blocks[pe[1]]
        if any(barrier(el) for el in fb.els):
            r.ok("mismatch-drops", f.loc(fb.els[0]))
        else:
            r.viol("mismatch-drops", f.name, f.loc(eq["ln"]), "address mismatch does not turn the read into a non-success")
    # addr_eq shape
    e = prog.func("ares_sockaddr_addr_eq")
    fam = False
    for bid in e.rpo():
        br = e.branch(bid)
        if br:
            c0 = strip(br[0])
            if c0.get("k") == "bin" and c0["op"] in ("==", "!=") and {render(c0["l"]), render(c0["r"])} == {"sa->sa_family", "aa->family"}:
                fam = True
    if fam:
        r.ok("family-compared", e.loc(e.ln))
    else:
        r.viol("family-compared", e.name, e.loc(e.ln), "address families are not compared")
    # a match is reported only for equal address families, from a comparison of whole address members
    mfe = MustFacts(e, track_calls=False)
    for rb, ri, rel in e.returns():
        if name_of_const(rel.get("e")) == "ARES_FALSE":
            continue
        same = False
        for c3, p3 in mfe.cond_facts_at(rb, ri):
            op3, l3, r3 = norm_cmp(c3, p3)
            if op3 == "==" and r3 is not None and {render(strip(l3)), render(strip(r3))} == {"sa->sa_family", "aa->family"}:
                same = True
        k = "match only for equal families (%s)" % (render(rel.get("e"))[:30])
        if same:
            r.ok(k, e.loc(rel))
        else:
            r.viol(k, e.name, e.loc(rel), "ares_sockaddr_addr_eq can report a match ('%s') on a path where the address families were not found equal: an address of another family that happens to share some bytes with the server's (e.g. an IPv6 source whose last 32 bits equal the server's IPv4 address) passes the source filter" % render(rel.get("e"))[:60])
    for _, _, el in e.elements():
        if el["k"] == "asg" and is_var(strip(el["e"]["l"])) and strip(el["e"]["l"])["n"] in ("addr1", "addr2"):
            rr = strip(el["e"].get("r"))
            k = "compared address %s is a whole member" % strip(el["e"]["l"])["n"]
            if rr is not None and rr.get("k") == "un" and rr["op"] == "&":
                r.ok(k, e.loc(el), nontrivial=False)
            else:
                r.viol(k, e.name, e.loc(el), "the address handed to memcmp is '%s', not the address member itself: only part of the address is compared" % render(rr))
    mc = e.calls_to("memcmp")
    r.require(len(mc) >= 2, "ares_sockaddr_addr_eq: expected memcmp for v4 and v6")
    want = {4: "addr4", 16: "addr6"}
    seen = set()
    for b2, i2, c2 in mc:
        n = const_val(call_arg(c2, 2))
        seen.add(n)
        if n in want:
            r.ok("width:%s" % want[n], e.loc(c2["ln"]))
        else:
            r.viol("width:%s" % n, e.name, e.loc(c2["ln"]), "address comparison width %s is not a full IPv4 (4) or IPv6 (16) address" % n)
    for n, nm in want.items():
        if n not in seen:
            r.viol("width:%s" % nm, e.name, e.loc(e.ln), "no full-width comparison for %s" % nm)
    for g2 in call_result_branches(e, "memcmp"):
        ret_true_edge = g2["true"] if (g2["op"] == "==" and const_val(g2["rhs"]) == 0) else (g2["false"] if (g2["op"] == "!=" and const_val(g2["rhs"]) == 0) else None)
        if ret_true_edge is None:
            r.viol("memcmp-shape", e.name, e.loc(g2["call"]["ln"]), "memcmp result not compared with 0")
    for b2, i2, el in e.returns():
        if name_of_const(el.get("e")) == "ARES_TRUE":
            ok = False
            for g2 in call_result_branches(e, "memcmp"):
                pas = g2["true"] if g2["op"] == "==" else g2["false"]
                if element_reachable_avoiding(e, b2, i2, [(g2["block"].id, pas)]) is None:
                    ok = True
            if ok:
                r.ok("true-only-on-equal", e.loc(el))
            else:
                r.viol("true-only-on-equal", e.name, e.loc(el), "TRUE returned on a path where no memcmp reported equality")


def r_cache(prog, R):
    r = R.rule("R-C05-CACHEKEY", "cache insert: one post-gate caller, keyed by the request", floor=3, analysis="A-WMC")
    cs = prog.callers_of("ares_qcache_insert")
    if not r.require(len(cs) >= 1, "no caller of ares_qcache_insert"):
        return
    for f, b, i, c in cs:
        if f.name != "process_answer":
            r.viol("caller=%s" % f.name, f.name, f.loc(c["ln"]), "ares_qcache_insert called outside the gated response path")
        else:
            r.ok("caller=%s" % f.name, f.loc(c["ln"]))
    qi = prog.func("ares_qcache_insert")
    inner = qi.calls_to("ares_qcache_insert_int")
    r.require(len(inner) == 1, "ares_qcache_insert does not delegate to ares_qcache_insert_int once")
    for b, i, c in inner:
        a = render(call_arg(c, 2))
        if a == "query->query":
            r.ok("key-source=request", qi.loc(c["ln"]))
        else:
            r.viol("key-source=request", qi.name, qi.loc(c["ln"]), "cache key is computed from '%s', not from the request (query->query)" % a)
    ii = prog.func("ares_qcache_insert_int")
    ks = ii.calls_to("ares_qcache_calc_key")
    for b, i, c in ks:
        if is_var(call_arg(c, 0), ii.params[2]["n"]):
            r.ok("key-from-request-param", ii.loc(c["ln"]))
        else:
            r.viol("key-from-request-param", ii.name, ii.loc(c["ln"]), "cache key computed from %s instead of the request" % render(call_arg(c, 0)))
    r.require(len(ks) == 1, "expected one ares_qcache_calc_key in insert")
    cs = prog.callers_of("ares_qcache_fetch")
    for f, b, i, c in cs:
        if f.name not in ("ares_send_nolock",):
            r.viol("fetch-caller=%s" % f.name, f.name, f.loc(c["ln"]), "cache read outside ares_send_nolock")
        else:
            r.ok("fetch-caller=%s" % f.name, f.loc(c["ln"]), nontrivial=False)


def r_qid(prog, R):
    r = R.rule("R-C05-QID", "query ids are unique among outstanding queries and are what is written to the wire", floor=3, analysis="shape + A-DOM")
    f = prog.func("generate_unique_qid")
    loops = f.natural_loops()
    ok = False
    for h, body in loops.items():
        for bid in body:
            br = f.branch(bid)
            if br and is_call_to(br[0], "ares_htable_szvp_get"):
                full = f.call_by_id(strip(br[0])["id"])
                if full and is_field(call_arg(full[2], 0), "queries_by_qid") and is_var(call_arg(full[2], 1), "id") and bid in [x for x, y in f.back_edges() if y == h] + [h]:
                    ok = True
                elif full and is_field(call_arg(full[2], 0), "queries_by_qid"):
                    ok = True
    if ok:
        r.ok("retry-while-in-use", f.loc(f.ln))
    else:
        r.viol("retry-while-in-use", f.name, f.loc(f.ln), "id generation no longer loops while the id is present in queries_by_qid")
    src = f.calls_to("ares_generate_new_id")
    if src and is_field(call_arg(src[0][2], 0), "rand_state"):
        r.ok("id-source", f.loc(src[0][2]["ln"]))
    else:
        r.viol("id-source", f.name, f.loc(f.ln), "ids no longer come from ares_generate_new_id(channel->rand_state)")
    s = prog.func("ares_send_nolock")
    mf = MustFacts(s)
    ins = [x for x in s.calls_to("ares_htable_szvp_insert") if is_field(call_arg(x[2], 0), "queries_by_qid")]
    r.require(len(ins) == 1, "ares_send_nolock: queries_by_qid insert not found")
    for b, i, c in ins:
        if mf.passed_call(b, i, "ares_dns_record_set_id"):
            r.ok("wire-id-set-before-index", s.loc(c["ln"]))
        else:
            r.viol("wire-id-set-before-index", s.name, s.loc(c["ln"]), "query indexed by id without that id having been written into the request")
        if render(call_arg(c, 1)) in ("query->qid", "id"):
            r.ok("index-key=qid", s.loc(c["ln"]))
        else:
            r.viol("index-key=qid", s.name, s.loc(c["ln"]), "query indexed under %s" % render(call_arg(c, 1)))
    sid = s.calls_to("ares_dns_record_set_id")
    for b, i, c in sid:
        if render(call_arg(c, 1)) in ("id", "query->qid") and render(call_arg(c, 0)) == "query->query":
            r.ok("wire-id=qid", s.loc(c["ln"]))
        else:
            r.viol("wire-id=qid", s.name, s.loc(c["ln"]), "the id written to the request differs from the index id")


def run(prog, R, tier):
    R.assume("ares_htable_szvp_get_direct returns the value stored under the key (container correctness is C19)")
    r_gate(prog, R)
    r_qeq(prog, R)
    r_src(prog, R)
    r_cache(prog, R)
    r_qid(prog, R)
    # "passes the DNS-cookie checks": the cookie state machine is what makes a cookie-less reply unacceptable
    C17.r_fsm(prog, R, rid="R-C05-COOKIEFSM")
    C17.r_accept(prog, R, rid="R-C05-COOKIEACCEPT")
