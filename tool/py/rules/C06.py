"""C06 — retries bounded, policy conforming, every query terminates, no UB in the timeout maths."""
from lib import *  # noqa

TECHNIQUE = ("call-site census of (re)transmission points + budget-guard dominance + 'protocol resend disables its own guard' table + clamp-pattern ordering and interval bound on every variable shift"
             ", call-graph cycle detection through the (re)transmission functions")
LEVEL_TEXT = ("static: decides that every transmission of a query is either charged to the servers x tries budget (tested before every retry) "
              "or is one of the three enumerated protocol resends, each preceded on every path by the state change that prevents its own "
              "repetition; that the exhausted-budget path completes the query; that floor/cap clamps of the timeout computations are present, "
              "ordered and final; that every variable shift amount is bounded below the operand width. Does not decide the numeric wait "
              "time as a quantity.")
# fifth-round additions
TECHNIQUE += "; " + "A-DOM fact 'query not yet on TCP' at the switch to TCP"
LEVEL_TEXT += " " + "(RESEND) the UDP-to-TCP upgrade happens once per query: the TC arm is guarded by 'not already on TCP'."
LEVEL_NOTE = "trusts clang CFG + extractor; interval reasoning uses only dominating comparisons, type ranges and constant call arguments"
DESIGN_REF = "DESIGN.md §6/C06"
EXPLANATION = LEVEL_TEXT
NOT_DECIDED = "numeric values of the waits (jitter, learned averages); termination as wall-clock time"

SEND_CALLERS = {"ares_send_nolock", "ares_requeue_query", "read_answers"}
APPEND_CALLERS = {"ares_requeue_query", "process_answer"}
FILES = ("src/lib/ares_process.c", "src/lib/ares_metrics.c", "src/lib/ares_cookie.c", "src/lib/ares_close_sockets.c",
         "src/lib/ares_update_servers.c", "src/lib/ares_sysconfig_files.c", "src/lib/ares_options.c")
SHIFT_EXEMPT = {
    # function -> reason
    "ares_buf_append_num_hex": "shift is (i-1)*4 with i <= len; len is a hex digit count: 2 or 6 at the three call sites, or ares_count_hexdigits(size_t) <= 16",
}


def r_sites(prog, R):
    r = R.rule("R-C06-SITES", "who may (re)transmit a query", floor=6, analysis="A-WMC")
    for name, allowed in (("ares_send_query", SEND_CALLERS), ("ares_append_requeue", APPEND_CALLERS)):
        cs = prog.callers_of(name)
        r.require(len(cs) >= 3, "fewer than 3 callers of %s" % name)
        for f, b, i, c in cs:
            key = "callee=%s caller=%s" % (name, f.name)
            if f.name not in allowed:
                r.viol(key, f.name, f.loc(c["ln"]), "%s called from %s: an un-budgeted transmission path (allowed: %s)" % (name, f.name, sorted(allowed)))
            else:
                r.ok(key, f.loc(c["ln"]))
    # ares_conn_query_write is the only serialiser of queries and has one caller
    cs = prog.callers_of("ares_conn_query_write")
    for f, b, i, c in cs:
        if f.name != "ares_send_query":
            r.viol("callee=ares_conn_query_write caller=%s" % f.name, f.name, f.loc(c["ln"]), "query written to a connection outside ares_send_query")
        else:
            r.ok("callee=ares_conn_query_write caller=%s" % f.name, f.loc(c["ln"]), nontrivial=False)


def r_budget(prog, R):
    r = R.rule("R-C06-BUDGET", "budget test precedes every retry; exhausted budget completes the query; callers charge the budget", floor=8, analysis="A-DOM")
    f = prog.func("ares_requeue_query")
    mf = MustFacts(f)
    # max_tries = len(servers) * tries
    mt = None
    for b, i, el in f.elements():
        if el["k"] == "decl":
            for v in el["vars"]:
                if v["n"] == "max_tries":
                    mt = v.get("init")
        elif el["k"] == "asg" and is_var(el["e"]["l"], "max_tries"):
            mt = el["e"].get("r")
    shape = False
    if mt is not None:
        m = strip(mt)
        if m.get("k") == "bin" and m["op"] == "*":
            parts = {render(strip(m["l"])).split("#")[0], render(strip(m["r"])).split("#")[0]}
            if "channel->tries" in parts and any(p.startswith("ares_slist_len") for p in parts):
                shape = True
    if shape:
        r.ok("max_tries=servers*tries", f.loc(f.ln))
    else:
        r.viol("max_tries=servers*tries", f.name, f.loc(f.ln), "retry budget is not ares_slist_len(channel->servers) * channel->tries (found: %s)" % render(mt))
    sends = f.calls_to("ares_send_query") + f.calls_to("ares_append_requeue")
    r.require(len(sends) == 2, "ares_requeue_query: expected the direct send and the deferred append")
    for b, i, c in sends:
        facts = mf.cond_facts_at(b, i)
        g1 = cond_holds(facts, lambda op, l, rr: op == "<" and is_field(l, "try_count", "ares_query") and is_var(rr, "max_tries"))
        g2 = cond_holds(facts, lambda op, l, rr: op == "false" and is_field(l, "no_retries", "ares_query"))
        key = "retry=%s" % c["callee"]
        if g1 and g2:
            r.ok(key + " under budget", f.loc(c["ln"]))
        else:
            r.viol(key + " under budget", f.name, f.loc(c["ln"]), "retry not dominated by try_count < max_tries && !no_retries (budget=%s, no_retries=%s)" % (g1, g2))
    # try_count++ happens before the test
    incs = [(b, i, el) for b, i, el in f.elements() if el["k"] == "asg" and is_field(el["e"]["l"], "try_count", "ares_query")]
    if not incs:
        r.viol("try_count-incremented", f.name, f.loc(f.ln), "ares_requeue_query never increments query->try_count")
    for b, i, el in incs:
        facts = mf.cond_facts_at(b, i)
        if cond_holds(facts, lambda op, l, rr: op == "truth" and is_var(l, "inc_try_count")):
            r.ok("try_count-incremented", f.loc(el))
        else:
            r.viol("try_count-incremented", f.name, f.loc(el), "try_count increment not controlled by inc_try_count")
        for sb, si, sc in sends:
            # every send is after the increment point: the increment block dominates... check must-pass on the inc_try_count==TRUE path is
            # enough: the test block is reachable only after the increment block or its skip edge
            pass
    # the test reads the incremented value: no path from entry to the budget test skips the inc block when inc_try_count is true
    # else path reaches end_query
    ends = f.calls_to("end_query")
    if not ends:
        r.viol("exhausted-completes", f.name, f.loc(f.ln), "no end_query on the exhausted-budget path")
    else:
        # from the budget test's failing edge every path reaches end_query
        t = can_reach_exit_avoiding(f, f.entry, -1, lambda el: is_call_el(el, "end_query", "ares_send_query", "ares_append_requeue"))
        if t is not None:
            r.viol("exhausted-completes", f.name, f.loc(f.ln), "a path returns without retrying or completing the query", trail=trail_lines(f, t))
        else:
            r.ok("exhausted-completes", f.loc(ends[0][2]["ln"]))
    # callers charge the budget except BADCOOKIE
    for cf, b, i, c in prog.callers_of("ares_requeue_query"):
        a = name_of_const(call_arg(c, 3))
        key = "charge caller=%s#%d" % (cf.name, sorted(x[2]["id"] for x in cf.calls_to("ares_requeue_query")).index(c["id"]))
        if a == "ARES_TRUE":
            r.ok(key, cf.loc(c["ln"]))
        elif cf.name == "ares_cookie_validate" and a == "ARES_FALSE":
            r.ok(key + " (BADCOOKIE resend, counted by cookie_try_count)", cf.loc(c["ln"]))
        else:
            r.viol(key, cf.name, cf.loc(c["ln"]), "ares_requeue_query called with inc_try_count=%s: retry not charged to the budget" % render(call_arg(c, 3)))
    # no other writer resets try_count
    for g, b, i, el, n, w in field_accesses(prog, "ares_query", "try_count"):
        if w:
            if g.name == "ares_requeue_query" or (g.name == "ares_send_nolock" and el["k"] == "asg" and const_val(el["e"].get("r")) == 0):
                r.ok("try_count-writer=%s" % g.name, g.loc(el), nontrivial=False)
            else:
                r.viol("try_count-writer=%s" % g.name, g.name, g.loc(el), "query->try_count written outside the budget accounting")


def r_resend(prog, R, rid="R-C06-RESEND"):
    r = R.rule(rid, "each un-budgeted protocol resend first disables its own guard (EDNS: OPT removed; TC: once per query, on a UDP connection only)", floor=4, analysis="A-DOM (table of 3)")
    f = prog.func("process_answer")
    mf = MustFacts(f)
    apps = f.calls_to("ares_append_requeue")
    r.require(len(apps) == 2, "process_answer: expected 2 ares_append_requeue sites (EDNS, TC), found %d" % len(apps))
    seen = set()
    for b, i, c in apps:
        facts = mf.cond_facts_at(b, i)
        is_edns = any(p and is_call_to(cc, "issue_might_be_edns") for cc, p in facts)
        is_tc = any(p and is_flag_test(cc, lambda x: is_call_to(x, "ares_dns_record_get_flags"), "ARES_FLAG_TC") for cc, p in facts)
        if is_edns:
            seen.add("edns")
            ok = mf.passed_call(b, i, "rewrite_without_edns")
            succ = False
            for g in call_result_branches(f, "rewrite_without_edns"):
                pe = status_pass_edge(g)
                if pe and element_reachable_avoiding(f, b, i, [(g["block"].id, pe[0])]) is None:
                    succ = True
            if ok and succ:
                r.ok("edns-downgrade removes OPT first", f.loc(c["ln"]))
            else:
                r.viol("edns-downgrade removes OPT first", f.name, f.loc(c["ln"]), "EDNS resend not preceded by a successful rewrite_without_edns (the resend would repeat forever)")
        elif is_tc:
            seen.add("tc")
            not_tcp = any((not p) and is_flag_test(cc, lambda x: is_field(x, "flags", "ares_conn"), "ARES_CONN_FLAG_TCP") for cc, p in facts)
            not_ign = any((not p) and is_flag_test(cc, lambda x: is_field(x, "flags", "ares_channeldata"), "ARES_FLAG_IGNTC") for cc, p in facts)
            setsb = can_reach_from_entry_avoiding(f, b, i, lambda el: el["k"] == "asg" and is_field(el["e"]["l"], "using_tcp", "ares_query") and name_of_const(el["e"].get("r")) == "ARES_TRUE")
            # restrict: path from the TC test block; simpler: in the same block
            set_in_block = any(el["k"] == "asg" and is_field(el["e"]["l"], "using_tcp", "ares_query") and name_of_const(el["e"].get("r")) == "ARES_TRUE" for el in b.els[:i])
            if not_tcp and not_ign and set_in_block:
                r.ok("tc-upgrade guarded and switches to TCP", f.loc(c["ln"]))
            else:
                r.viol("tc-upgrade guarded and switches to TCP", f.name, f.loc(c["ln"]),
                       "TC resend must be guarded by TC && !TCP-conn && !IGNTC and set query->using_tcp first (not_tcp=%s not_igntc=%s sets_tcp=%s)" % (not_tcp, not_ign, set_in_block))
            # ... and the upgrade happens once: a truncated datagram for a query that is already on TCP (a duplicate, or a belated reply on the UDP socket
            # that stays open) must not queue another TCP transmission -- the TC resend is not charged to try_count, so nothing else bounds it
            sidx = [j for j, el in enumerate(b.els[:i]) if el["k"] == "asg" and is_field(el["e"]["l"], "using_tcp", "ares_query")]
            f0 = mf.cond_facts_at(b, sidx[0] if sidx else 0)
            once = False
            for cc, p in f0:
                op, l, rr = norm_cmp(cc, p)
                if is_field(l, "using_tcp", "ares_query") and (op == "false" or (op in ("==", "!=") and rr is not None and ((name_of_const(rr) == "ARES_FALSE") == (op == "==")))):
                    once = True
            if once:
                r.ok("tc-upgrade happens once per query", f.loc(c["ln"]))
            else:
                r.viol("tc-upgrade happens once per query", f.name, f.loc(c["ln"]), "every truncated datagram that matches the query queues a TCP transmission, also when the query was already switched to TCP: a server that "
                       "sends K copies of a TC reply (or replies late on the still open UDP socket) makes the library transmit the query K times over TCP; the TC resend is not charged to try_count, so the "
                       "number of transmissions is bounded by what the server sends, not by servers x tries + 1")
        else:
            r.viol("unknown-resend#%d" % c["id"], f.name, f.loc(c["ln"]), "deferred resend that is neither the EDNS downgrade nor the TC upgrade")
    for need in ("edns", "tc"):
        r.require(need in seen, "process_answer: %s resend site not found" % need)
    # rewrite_without_edns really deletes the OPT RR on its success path
    rw = prog.func("rewrite_without_edns")
    dels = rw.calls_to("ares_dns_record_rr_del")
    if not dels:
        r.viol("rewrite-deletes-opt", rw.name, rw.loc(rw.ln), "rewrite_without_edns no longer deletes the OPT RR")
    else:
        vs = ValueSets(prog, rw)
        dele = False

        def on_el(extra, blk, i, el, get):
            return [True] if is_call_el(el, "ares_dns_record_rr_del") else [extra]
        vs = ValueSets(prog, rw, on_el=on_el, init_extra=False)
        bad = None
        nst = 0
        for b, i, el in rw.returns():
            for st in vs.states_at(b, i):
                nst += 1
                rs = vs.eval(el.get("e"), st[0])
                if (rs is None or "ARES_SUCCESS" in rs) and not st[1]:
                    bad = el
        r.require(nst >= 1, "rewrite_without_edns: no return state")
        if bad is not None:
            r.viol("rewrite-deletes-opt", rw.name, rw.loc(bad), "rewrite_without_edns can report success without deleting the OPT RR")
        else:
            r.ok("rewrite-deletes-opt", rw.loc(dels[0][2]["ln"]))
    # issue_might_be_edns requires an OPT RR in the request
    ie = prog.func("issue_might_be_edns")
    gs = call_result_branches(ie, "ares_dns_get_opt_rr_const")
    okreq = False
    for g in gs:
        if is_var(call_arg(g["call"], 0), "req"):
            pe = status_pass_edge(g)
            if pe:
                bad = False
                for b, i, el in ie.returns():
                    if name_of_const(el.get("e")) == "ARES_TRUE" and element_reachable_avoiding(ie, b, i, [(g["block"].id, pe[0])]) is not None:
                        bad = True
                okreq = not bad
    if okreq:
        r.ok("edns-guard-needs-request-OPT", ie.loc(ie.ln))
    else:
        r.viol("edns-guard-needs-request-OPT", ie.name, ie.loc(ie.ln), "issue_might_be_edns can report TRUE for a request without an OPT RR (downgrade would repeat)")
    # BADCOOKIE
    cv = prog.func("ares_cookie_validate")
    mfc = MustFacts(cv)
    rq = cv.calls_to("ares_requeue_query")
    r.require(len(rq) == 1, "ares_cookie_validate: expected one BADCOOKIE resend")
    for b, i, c in rq:
        inc = can_reach_from_entry_avoiding(cv, b, i, lambda el: el["k"] == "asg" and is_field(el["e"]["l"], "cookie_try_count", "ares_query") and el["e"]["op"] in ("++", "+="))
        if inc is not None:
            r.viol("badcookie-counted", cv.name, cv.loc(c["ln"]), "BADCOOKIE resend on a path that does not increment cookie_try_count", trail=trail_lines(cv, inc))
        else:
            r.ok("badcookie-counted", cv.loc(c["ln"]))
        # threshold test forces TCP
        thr = None
        for bid in cv.rpo():
            br = cv.branch(bid)
            if br:
                cc = strip(br[0])
                if cc.get("k") == "bin" and cc["op"] in (">=", ">", "==") and is_field(cc["l"], "cookie_try_count", "ares_query"):
                    thr = (bid, br, cc)
        if thr is None:
            r.viol("badcookie-tcp-fallback", cv.name, cv.loc(c["ln"]), "no cookie_try_count threshold test")
        else:
            bid, br, cc = thr
            lim = const_val(cc["r"])
            eff = lim if cc["op"] == ">=" else (lim + 1 if cc["op"] == ">" else None)
            tb = cv.blocks[br[1]]
            sets = any(el["k"] == "asg" and is_field(el["e"]["l"], "using_tcp", "ares_query") and name_of_const(el["e"].get("r")) == "ARES_TRUE" for el in tb.els)
            dom = bid in cv.dominators().get(b.id, ())
            if eff is not None and eff <= 3 and sets and dom and name_of_const(cc["r"]) == "COOKIE_RESEND_MAX":
                r.ok("badcookie-tcp-fallback", cv.loc(cv.blocks[bid].term["ln"]), note="threshold %s" % eff)
            else:
                r.viol("badcookie-tcp-fallback", cv.name, cv.loc(cv.blocks[bid].term["ln"]),
                       "BADCOOKIE resends must fall back to TCP after at most 3 (threshold=%s via %s, sets_tcp=%s, dominates=%s)" % (eff, render(cc), sets, dom))
    # the resend counter is monotone: nothing but increments may write it (a reset re-arms the un-budgeted resend)
    nw = 0
    for g, b, i, el, n, w in field_accesses(prog, "ares_query", "cookie_try_count"):
        if w:
            nw += 1
            op = el["e"]["op"] if el["k"] == "asg" else "?"
            if op in ("++",) or (op == "+=" and (const_val(el["e"].get("r")) or 0) > 0):
                r.ok("cookie_try_count-monotone@%s" % g.name, g.loc(el))
            else:
                r.viol("cookie_try_count-monotone@%s" % g.name, g.name, g.loc(el), "query->cookie_try_count is written with '%s': resetting or lowering the bad-cookie resend counter removes the bound of three resends" % el["t"])
    r.require(nw >= 1, "no writer of query->cookie_try_count found")
    lim = prog.macros.get("COOKIE_RESEND_MAX")
    if lim and lim["body"].strip() == "3":
        r.ok("COOKIE_RESEND_MAX=3", "src/lib/ares_cookie.c:%s" % lim["ln"], nontrivial=False)
    else:
        r.viol("COOKIE_RESEND_MAX=3", "ares_cookie_validate", "src/lib/ares_cookie.c", "COOKIE_RESEND_MAX is %s, the property allows three bad-cookie resends" % (lim["body"] if lim else None))
    # cookies stripped on TCP (so the BADCOOKIE loop ends)
    ca = prog.func("ares_cookie_apply")
    mfa = MustFacts(ca)
    okdel = False
    for b, i, c in ca.calls_to("ares_dns_rr_del_opt_byid"):
        facts = mfa.cond_facts_at(b, i)
        if any(p and is_flag_test(cc, lambda x: is_field(x, "flags", "ares_conn"), "ARES_CONN_FLAG_TCP") for cc, p in facts):
            okdel = True
    if okdel:
        r.ok("tcp-strips-cookie", ca.loc(ca.ln))
    else:
        r.viol("tcp-strips-cookie", ca.name, ca.loc(ca.ln), "cookie option is not removed on TCP: a BADCOOKIE server could be resent to forever")


def writes_after(func, blk, i, var):
    return uses_after(func, blk, i, lambda n: False) or [
        (b, j, el) for (b, j, el) in _writes(func, var) if (b.id, j) in reach_after(func, blk.id, i)]


def _writes(func, var):
    return [(b, i, el) for b, i, el in func.elements() if (el["k"] == "asg" and path(el["e"]["l"]) == var)]


def r_timeout(prog, R):
    r = R.rule("R-C06-TIMEOUT", "timeout computations: floor and cap clamps present, ordered, final", floor=6, analysis="A-DOM (clamp pattern)")
    f = prog.func("ares_calc_query_timeout")
    cl = find_clamps(f, "timeplus")
    floors = [c for c in cl if c["kind"] == "floor" and render(strip(c["bound"])) == "timeout"]
    caps = [c for c in cl if c["kind"] == "cap" and "maxtimeout" in render(c["bound"])]
    rets = [x for x in f.returns() if is_var(x[2].get("e"), "timeplus")]
    r.require(len(rets) >= 1, "ares_calc_query_timeout: no `return timeplus`")
    if not floors:
        r.viol("floor:timeplus>=timeout", f.name, f.loc(f.ln), "the final 'timeplus < timeout -> timeplus = timeout' floor is missing")
    for c in floors:
        tb, ti = c["asg"]
        later = [w for w in _writes(f, "timeplus") if (w[0].id, w[1]) in reach_after(f, tb.id, ti)]
        dom = all(c["block"].id in f.dominators().get(rb.id, ()) for rb, _, _ in rets)
        if later:
            r.viol("floor:timeplus>=timeout", f.name, f.loc(later[0][2]), "timeplus is modified after the floor was applied")
        elif not dom:
            r.viol("floor:timeplus>=timeout", f.name, f.loc(c["block"].term["ln"]), "a path returns timeplus without passing the floor test")
        else:
            r.ok("floor:timeplus>=timeout", f.loc(c["block"].term["ln"]))
    if not caps:
        r.viol("cap:maxtimeout", f.name, f.loc(f.ln), "the 'timeplus > channel->maxtimeout' cap is missing")
    shifts = [(b, i, el) for b, i, el in f.elements() if el["k"] == "asg" and el["e"]["op"] in ("<<=", "*=") and path(el["e"]["l"]) == "timeplus"]
    for c in caps:
        tb, ti = c["asg"]
        bad = [s for s in shifts if (s[0].id, s[1]) in reach_after(f, tb.id, ti)]
        if bad:
            r.viol("cap:maxtimeout", f.name, f.loc(bad[0][2]), "timeplus is scaled up after the maxtimeout cap")
        else:
            r.ok("cap:maxtimeout after scaling", f.loc(c["block"].term["ln"]))
    # jitter only decreases: the only later writes are '-='
    for c in caps:
        tb, ti = c["asg"]
        for w in _writes(f, "timeplus"):
            if (w[0].id, w[1]) in reach_after(f, tb.id, ti) and w[2]["e"]["op"] not in ("-=", "=") :
                r.viol("post-cap-writes-decrease", f.name, f.loc(w[2]), "timeplus increased after the cap by '%s'" % w[2]["e"]["op"])
    g = prog.func("ares_metrics_server_timeout")
    cl = find_clamps(g, "timeout_ms")
    fl = [c for c in cl if c["kind"] == "floor"]
    cp = [c for c in cl if c["kind"] == "cap"]
    rets = [x for x in g.returns() if is_var(x[2].get("e"), "timeout_ms")]
    r.require(len(rets) >= 1, "ares_metrics_server_timeout: no `return timeout_ms`")
    if not fl or name_of_const(fl[0]["bound"]) != "MIN_TIMEOUT_MS":
        r.viol("metrics-floor", g.name, g.loc(g.ln), "250 ms floor (MIN_TIMEOUT_MS) missing")
    else:
        ok = all(fl[0]["block"].id in g.dominators().get(rb.id, ()) for rb, _, _ in rets)
        v = prog.macros.get("MIN_TIMEOUT_MS", {}).get("body")
        if ok and v == "250":
            r.ok("metrics-floor", g.loc(fl[0]["block"].term["ln"]))
        else:
            r.viol("metrics-floor", g.name, g.loc(fl[0]["block"].term["ln"]), "floor not on every path or not 250 ms (value %s)" % v)
    if not cp:
        r.viol("metrics-cap", g.name, g.loc(g.ln), "upper cap missing")
    else:
        c = cp[0]
        tb, ti = c["asg"]
        later = [w for w in _writes(g, "timeout_ms") if (w[0].id, w[1]) in reach_after(g, tb.id, ti)]
        ok = all(c["block"].id in g.dominators().get(rb.id, ()) for rb, _, _ in rets)
        # bound variable = maxtimeout ? maxtimeout : MAX_TIMEOUT_MS
        bsrc = None
        for b, i, el in g.elements():
            if el["k"] == "asg" and path(el["e"]["l"]) == render(strip(c["bound"])):
                bsrc = el["e"]["r"]
        bs = strip(bsrc) if bsrc else None
        shape = bs is not None and bs.get("k") == "cond" and is_field(bs["c"], "maxtimeout") and is_field(bs["t"], "maxtimeout")
        if later or not ok or not shape:
            r.viol("metrics-cap", g.name, g.loc(c["block"].term["ln"]), "cap not final / not on every path / not 'maxtimeout ? maxtimeout : MAX' (later=%d dom=%s shape=%s)" % (len(later), ok, shape))
        else:
            r.ok("metrics-cap", g.loc(c["block"].term["ln"]))
        if fl:
            fb, fi = fl[0]["asg"]
            if (tb.id, ti) in reach_after(g, fb.id, fi) or tb.id == fb.id:
                r.ok("metrics-floor-before-cap", g.loc(c["block"].term["ln"]))
            else:
                r.viol("metrics-floor-before-cap", g.name, g.loc(c["block"].term["ln"]), "cap is applied before the floor (configured maximum could be exceeded)")
    # first-query default = channel->timeout
    d = [(b, i, el) for b, i, el in g.elements() if el["k"] == "asg" and path(el["e"]["l"]) == "timeout_ms" and is_field(el["e"].get("r"), "timeout", "ares_channeldata")]
    if d:
        r.ok("default=channel->timeout", g.loc(d[0][2]))
    else:
        r.viol("default=channel->timeout", g.name, g.loc(g.ln), "configured base timeout no longer used when nothing was learned")
    # the per-query deadline uses the computed value
    s = prog.func("ares_send_query")
    ta = s.calls_to("timeadd")
    okd = False
    for b, i, c in ta:
        if render(call_arg(c, 0)) == "&query->timeout" and is_var(call_arg(c, 1), "timeplus"):
            okd = True
    if okd:
        r.ok("deadline=now+timeplus", s.loc(ta[0][2]["ln"]))
    else:
        r.viol("deadline=now+timeplus", s.name, s.loc(s.ln), "query deadline is not now + ares_calc_query_timeout()")


def r_shift(prog, R, tier):
    r = R.rule("R-C06-SHIFT", "every variable shift amount is bounded below the width of the shifted operand", floor=2, analysis="interval refinement on dominating guards")
    funcs = prog.funcs.values() if tier == "thorough" else [f for f in prog.funcs.values() if f.file in FILES]
    for f in funcs:
        mf = None
        for b, i, tree in all_exprs_with_points(f):
            for nd in walk(tree):
                if nd.get("k") in ("bin", "asg") and nd.get("op") in ("<<", "<<=", ">>", ">>=") and nd.get("r") is not None:
                    if nd["r"].get("v") is not None:
                        amt = nd["r"]["v"]
                        bits = promoted_bits(nd["l"].get("ty", "")) or 32
                        if amt >= bits or amt < 0:
                            r.viol("shift@%s:%s" % (f.name, render(nd)[:50]), f.name, f.loc(b.els[i]["ln"] if i < len(b.els) else b.term["ln"]), "constant shift by %s of a %d-bit operand" % (amt, bits))
                        continue
                    txt = render(nd)
                    if "__NFDBITS" in txt:
                        continue  # FD_SET/FD_ISSET from <sys/select.h>
                    if mf is None:
                        mf = MustFacts(f, track_calls=False)
                    facts = mf.cond_facts_at(b, i)
                    lo, hi = interval(nd["r"], facts, prog, f, point=(b.id, i))
                    lty = nd["l"].get("ty", "")
                    bits = type_bits(lty) if nd["op"] in ("<<=", ">>=") else promoted_bits(lty)
                    if nd["op"] in ("<<=", ">>="):
                        bits = max(bits or 32, 32) if (type_bits(lty) or 32) < 32 else (type_bits(lty) or 32)
                    bits = bits or 32
                    key = "shift@%s:%s" % (f.name, txt[:60])
                    ln = b.els[i]["ln"] if i < len(b.els) else b.term["ln"]
                    if f.name in SHIFT_EXEMPT:
                        r.ok(key + " (exempt: %s)" % SHIFT_EXEMPT[f.name], f.loc(ln), nontrivial=False)
                    elif lo >= 0 and hi < bits:
                        r.ok(key, f.loc(ln), note="amount in [%s,%s] < %d" % (lo, hi, bits))
                    else:
                        r.viol(key, f.name, f.loc(ln), "shift amount '%s' is in [%s,%s]; operand is %d bits wide: undefined behaviour when the amount reaches the width" % (
                            render(nd["r"]), lo, hi, bits))


def _probe_cycle_bounded(prog):
    """ares_send_query -> ares_probe_failed_server -> ares_send_nolock -> ares_send_query has depth 1: the probe names its server, and
    ares_send_query switches probing off whenever it was given a server"""
    sq = prog.func("ares_send_query")
    mf = MustFacts(sq, track_calls=False)
    guarded = False
    for b, i, c in sq.calls_to("ares_probe_failed_server"):
        guarded = any(norm_cmp(c3, p3)[0] == "truth" and is_var(strip(norm_cmp(c3, p3)[1]), "probe_downed_server") for c3, p3 in mf.cond_facts_at(b, i))
    off = False
    for b in sq.blocks.values():
        br = sq.branch(b)
        if br and "requested_server != NULL" in render(br[0]).replace("((void *)0)", "NULL"):
            pass
    for b, i, el in sq.elements():
        if el["k"] == "asg" and is_var(strip(el["e"]["l"]), "probe_downed_server") and name_of_const(el["e"].get("r")) == "ARES_FALSE":
            # the store is reached (among others) whenever requested_server != NULL: its block is the join of a disjunction whose
            # first operand tests requested_server
            for pb in sq.blocks.values():
                br = sq.branch(pb)
                if br and b.id in [x for x in pb.succs if x is not None]:
                    op, l, rr = norm_cmp(br[0], True)
                    if is_var(strip(l), "requested_server") and ((op == "!=" and rr is not None and is_null(rr)) or op == "truth") and pb.succs[0] == b.id:
                        off = True
    pf = prog.func("ares_probe_failed_server")
    named = False
    for b, i, c in pf.calls_to("ares_send_nolock"):
        a = strip(call_arg(c, 1))
        named = a is not None and a.get("k") == "var" and not is_null(a)
    sn = prog.func("ares_send_nolock")
    fwd = any(is_var(strip(call_arg(c, 0)), sn.params[1]["n"]) for _, _, c in sn.calls_to("ares_send_query"))
    return guarded and off and named and fwd


def r_depth(prog, R):
    r = R.rule("R-C06-DEPTH", "the retry state machine does not recurse once per attempt (stack depth independent of tries x servers)", floor=1, analysis="call-graph cycles through the (re)transmission functions")
    # direct-call graph of the library proper (containers and string helpers have their own, data-bounded recursion)
    edges = {}
    for f in prog.funcs.values():
        if f.file.startswith(("src/lib/dsa/", "src/lib/str/", "src/lib/util/")):
            continue
        for b, i, c in f.calls():
            t = prog.resolve(f, c)
            if t is not None and not t.file.startswith(("src/lib/dsa/", "src/lib/str/", "src/lib/util/")):
                edges.setdefault(f.key, {})[t.key] = c["ln"]
    roots = [prog.func(n) for n in ("ares_send_query", "ares_requeue_query")]
    found = {}
    for root in roots:
        # shortest cycles through root
        seen = {root.key: None}
        work = [root.key]
        while work:
            k = work.pop(0)
            for t in edges.get(k, {}):
                if t == root.key:
                    path_ = [k]
                    while seen[path_[-1]] is not None:
                        path_.append(seen[path_[-1]])
                    cyc = tuple(reversed(path_))
                    names = [prog.funcs[x].name for x in cyc]
                    # canonical rotation
                    j = names.index(min(names))
                    names = names[j:] + names[:j]
                    found.setdefault(tuple(names), prog.funcs[k].loc(edges[k][t]))
                elif t not in seen:
                    seen[t] = k
                    work.append(t)
    if not found:
        r.ok("no recursion through ares_send_query/ares_requeue_query", roots[0].loc(roots[0].ln))
    for names, loc in sorted(found.items()):
        k = "cycle " + "->".join(names)
        if "ares_probe_failed_server" in names and _probe_cycle_bounded(prog):
            r.ok(k + " (bounded: a probe is sent to an explicit server, for which ares_send_query never probes again)", loc)
            continue
        r.viol(k, names[0], loc, "%s call each other recursively, one level per failed attempt: the stack depth grows with tries x servers (an option value), so a large 'tries' with attempts that fail synchronously (socket open/connect/send errors) exhausts the stack instead of completing the query with a status" % " -> ".join(names))
    r.info["cycles"] = ["->".join(n) for n in found]


def run(prog, R, tier):
    R.assume("options values are within the types' ranges (tries, timeout are ints >= 1 after ares_init_by_options validation)")
    r_sites(prog, R)
    r_budget(prog, R)
    r_resend(prog, R)
    r_timeout(prog, R)
    r_shift(prog, R, tier)
    r_depth(prog, R)
    # termination also needs: a request parked for a retry is always re-sent or completed (same rule as C14)
    import C14
    C14.r_requeue(prog, R, rid="R-C06-PARKED")
